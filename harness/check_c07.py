import borrowcheck


def run(tier, seed):
    return borrowcheck.run_prop("C07", tier, seed)
