"""C10: lru_cache vs functools.lru_cache over sequential call histories (three-way: asyncstdlib, Coq model, functools)."""
import builtins
import functools
import random

import common
from common import Report, proof_stage, coq_eval_files, parse_nat_list
from gencalc import drive
import asyncstdlib as a

HEADER = """From Coq Require Import List ZArith NArith Bool.
Import ListNotations.
Require Import V.Model.Lru.
Local Open Scope nat_scope.
"""


class Inst:
    def __init__(self, id):
        self.id = id

    def __repr__(self):
        return "Inst%d" % self.id


def coq_pv(v):
    if isinstance(v, Inst):
        return "(PObj %d%%N)" % v.id
    if v is None:
        return "PNone"
    if v is True or v is False:
        return "(PBool %s)" % ("true" if v else "false")
    if type(v) is int:
        return "(PInt (%d)%%Z)" % v
    if type(v) is float:
        return "(PFloat (%d)%%Z)" % int(v * 2)
    if type(v) is str:
        return "(PStr %d%%N)" % STRS.index(v)
    if type(v) is tuple:
        return "(PTup [%s])" % "; ".join(coq_pv(x) for x in v)
    raise ValueError(v)


STRS = ["boom", "a", "b", "x", "y", "z"]
NAMES = ["x", "y", "z"]
VALUES = [0, 1, 2, 1.0, 2.0, 1.5, True, False, "a", "b", None, (1, 2), (1.0, 2), (), (1, (2, 3)), "boom"]


def coq_call(args, kw):
    return "(mkCall [%s] [%s])" % ("; ".join(coq_pv(v) for v in args),
                                   "; ".join("(%d%%N, %s)" % (NAMES.index(k), coq_pv(v)) for k, v in kw))


def fails(args, kw):
    return "boom" in [v for v in args if isinstance(v, str)] or "boom" in [v for _, v in kw if isinstance(v, str)]


def gen_history(rng, tier, bound=False):
    nops = rng.randrange(1, 41 if tier != "quick" else 31)
    pool = []
    for _ in range(rng.randrange(1, 7)):
        na = rng.choice([0, 1, 1, 1, 2, 3])
        args = tuple(rng.choice(VALUES) for _ in range(na))
        nk = rng.choice([0, 0, 0, 1, 2])
        names = rng.sample(NAMES, nk)
        kw = tuple((n, rng.choice(VALUES)) for n in names)
        pool.append((args, kw))
        if nk == 2 and rng.random() < 0.5:
            pool.append((args, tuple(reversed(kw))))          # same keywords, other order
        if (na or nk) and rng.random() < 0.5:                 # equal-but-different-type variant (positional and keyword values)
            def alt(v):
                table = [(1, 1.0), (1.0, True), (True, 1), (0, False), (False, 0), (2, 2.0), (2.0, 2), ((1, 2), (1.0, 2))]
                for x, y in table:
                    if type(x) is type(v) and x == v:
                        return y
                return v
            pool.append((tuple(alt(v) for v in args), tuple((k_, alt(v)) for k_, v in kw)))
    ops = []
    with_discard = rng.random() < 0.3
    for _ in range(nops):
        r = rng.random()
        if r >= 0.92 and not with_discard:
            r = rng.random() * 0.92
        if r < 0.72:
            ops.append(("call",) + rng.choice(pool))
        elif r < 0.80:
            ops.append(("clear",))
        elif r < 0.92:
            ops.append(("info",))
        else:
            ops.append(("discard",) + rng.choice(pool))
    return ops


class BoomKV(KeyError, ValueError):
    """the wrapped function's own failure: also a KeyError, which the library handles for its own dictionary lookups"""


def make_cached(form, maxsize, typed, kind):
    """kind: function | method | classmethod | staticmethod. Returns (call, clear, info, discard, params)."""
    state = {"n": 0, "none_at": NONE_AT["n"]}

    def body(args, kw):
        n = state["n"]
        state["n"] += 1
        if fails(args, kw):
            raise BoomKV("boom")
        return None if n == state["none_at"] else n     # one invocation per history returns None: a legal result to cache

    def deco_async():
        if form == "direct":          # the function handed over directly together with an explicit typed=
            return lambda f: a.lru_cache(f, typed=typed)
        if form == "bare":
            return a.lru_cache
        if form == "cache":
            return a.cache
        if form == "call_default":
            return a.lru_cache(typed=typed) if typed else a.lru_cache()
        return a.lru_cache(maxsize=maxsize, typed=typed)

    def deco_sync():
        if form == "direct":
            return lambda f: functools.lru_cache(f, typed=typed)
        if form == "bare":
            return functools.lru_cache
        if form == "cache":
            return functools.cache
        if form == "call_default":
            return functools.lru_cache(typed=typed) if typed else functools.lru_cache()
        return functools.lru_cache(maxsize=maxsize, typed=typed)
    return state, body, deco_async, deco_sync


FALSY = {"on": False}
NONE_AT = {"n": 1}


def build(form, maxsize, typed, kind, flavour):
    state, body, deco_async, deco_sync = make_cached(form, maxsize, typed, kind)
    falsy = FALSY["on"]
    inst = [Inst(100), Inst(101)]
    if flavour == "async":
        if kind == "function":
            @deco_async()
            async def f(*args, **kw):
                return body(args, tuple(kw.items()))
            target = lambda i: f  # noqa
        else:
            class C:
                if falsy:
                    def __len__(self):      # an instance that is falsy (an empty container)
                        return 0
                if kind == "method":
                    @deco_async()
                    async def m(self, *args, **kw):
                        return body(args, tuple(kw.items()))
                elif kind == "classmethod":
                    @classmethod
                    @deco_async()
                    async def m(cls, *args, **kw):
                        return body(args, tuple(kw.items()))
                else:
                    @staticmethod
                    @deco_async()
                    async def m(*args, **kw):
                        return body(args, tuple(kw.items()))
            objs = [C(), C()]
            target = lambda i: objs[i].m  # noqa
    else:
        if kind == "function":
            @deco_sync()
            def f(*args, **kw):
                return body(args, tuple(kw.items()))
            target = lambda i: f  # noqa
        else:
            class C:
                if falsy:
                    def __len__(self):
                        return 0
                if kind == "method":
                    @deco_sync()
                    def m(self, *args, **kw):
                        return body(args, tuple(kw.items()))
                elif kind == "classmethod":
                    @classmethod
                    @deco_sync()
                    def m(cls, *args, **kw):
                        return body(args, tuple(kw.items()))
                else:
                    @staticmethod
                    @deco_sync()
                    def m(*args, **kw):
                        return body(args, tuple(kw.items()))
            objs = [C(), C()]
            target = lambda i: objs[i].m  # noqa
    return state, target


def run_history(form, maxsize, typed, kind, flavour, ops, which):
    state, target = build(form, maxsize, typed, kind, flavour)
    obs = []
    for op, w in builtins.zip(ops, which):
        t = target(w)
        if op[0] == "call":
            before = state["n"]
            try:
                if flavour == "async":
                    r = drive(t(*op[1], **dict(op[2])))
                else:
                    r = t(*op[1], **dict(op[2]))
                obs.append(("ret", state["none_at"] if r is None else r, state["n"] != before))
            except ValueError:
                obs.append(("raised",))
            except BaseException as e:  # noqa
                obs.append(("error", type(e).__name__, str(e)))
        elif op[0] == "clear":
            try:
                t.cache_clear()
                obs.append(("done",))
            except BaseException as e:  # noqa
                obs.append(("error", "cache_clear raised " + type(e).__name__, str(e)))
        elif op[0] == "info":
            i = t.cache_info()
            obs.append(("info", i.hits, i.misses, i.maxsize, i.currsize))
            p = t.cache_parameters()
            if p["maxsize"] != i.maxsize or p["typed"] != bool(typed if form not in ("bare", "cache") else False):
                obs.append(("error", "cache_parameters", repr(p)))
        elif op[0] == "discard":
            try:
                if flavour == "async":
                    t.cache_discard(*op[1], **dict(op[2]))
                obs.append(("done",))
            except BaseException as e:  # noqa  (discarding never fails, whether or not the pattern is cached)
                obs.append(("error", "cache_discard raised " + type(e).__name__, str(e)))
    return obs


def discard_problem(ops, which, obs, kind):
    """cache_discard has no functools counterpart, but its meaning is fixed: the next call of the discarded pattern
    (with nothing of that pattern in between) invokes the wrapped function again"""
    def pat(op, w):
        # the pattern as the cache sees it: methods key on the instance as well
        return (w if kind == "method" else 0, repr(op[1]), repr(op[2]))
    pending = set()
    for op, w, o in builtins.zip(ops, which, obs):
        if op[0] == "discard":
            pending.add(pat(op, w))
        elif op[0] == "clear":
            pending.clear()
        elif op[0] == "call":
            p_ = pat(op, w)
            hit = p_ in pending
            # only the textually identical pattern called right away is judged: which *other* spellings share the entry depends
            # on typed / keyword order, which is the model's business
            pending.clear()
            if hit and o[0] == "ret" and not o[2]:
                return "cache_discard%r immediately followed by the same call was served from the cache (observations %r)" % ((op[1], op[2]), obs)
    return None


def coq_obs(o):
    if o[0] == "ret":
        return "LRet %d %s" % (o[1], "true" if o[2] else "false")
    if o[0] == "raised":
        return "LRaised"
    if o[0] == "done":
        return "LDone"
    if o[0] == "info":
        return "LInfoIs %d %d %s %d" % (o[1], o[2], "None" if o[3] is None else "(Some %d)" % o[3], o[4])
    raise ValueError(o)


def coq_op(op, kind, w):
    def call(args, kw):
        if kind == "method":
            args = (Inst(100 + w),) + tuple(args)
        elif kind == "classmethod":
            args = (Inst(200),) + tuple(args)
        return coq_call(args, kw)
    if op[0] == "call":
        return "LCall %s %s" % (call(op[1], op[2]), "true" if fails(op[1], op[2]) else "false")
    if op[0] == "discard":
        return "LDiscard %s" % call(op[1], op[2])
    return {"clear": "LClear", "info": "LInfo"}[op[0]]


def run(tier, seed):
    rep = Report("C10", tier, seed)
    proofs_ok = proof_stage(rep, "C10")
    rng = random.Random(seed)
    n = 1500 * common.scale(rep) if tier == "quick" else 30000
    texts, fails_n = [], 0
    dist = {}
    for i in range(n):
        form = rng.choice(["bare", "call_default", "args", "args", "args", "args", "cache", "direct"])
        NONE_AT["n"] = rng.randrange(0, 5)
        maxsize = rng.choice([None, -1, 0, 1, 2, 3, 4, 5])
        typed = rng.random() < 0.5
        kind = rng.choice(["function", "function", "method", "classmethod", "staticmethod"])
        ops = gen_history(rng, tier)
        which = [rng.randrange(2) for _ in ops]
        FALSY["on"] = rng.random() < 0.25
        eff_max = {"bare": 128, "call_default": 128, "cache": None, "direct": 128}.get(form, maxsize)
        eff_typed = typed if form in ("args", "call_default", "direct") else False
        dist[(form, kind)] = dist.get((form, kind), 0) + 1
        ai = run_history(form, maxsize, typed, kind, "async", ops, which)
        # functools has no cache_discard: its history omits those operations (they must then be no-ops for the comparison,
        # so histories containing a discard are compared with the model only)
        has_discard = builtins.any(o[0] == "discard" for o in ops)
        si = run_history(form, maxsize, typed, kind, "sync", ops, which)
        rep.count((form, maxsize, typed, kind, repr(ops)), len(ops) > 3, sample={"form": form, "maxsize": maxsize, "typed": typed, "kind": kind, "ops": repr(ops[:6])})
        bad = None
        if builtins.any(o[0] == "error" for o in ai):
            bad = "asyncstdlib operation failed: %r" % [o for o in ai if o[0] == "error"][:1]
        elif has_discard and builtins.any(True for _ in [0]) and discard_problem(ops, which, ai, kind) is not None:
            bad = discard_problem(ops, which, ai, kind)
        elif not has_discard and ai != si:
            k = next(j for j, (x, y) in enumerate(builtins.zip(ai, si)) if x != y)
            bad = "differs from functools.lru_cache at operation %d (%r): asyncstdlib %r functools %r" % (k, ops[k], ai[k], si[k])
        if bad:
            fails_n += 1
            rep.violation("lru:%s" % ("error" if "failed" in bad else "history"),
                          {"form": form, "maxsize": maxsize, "typed": typed, "kind": kind, "ops": repr(ops), "which": which, "why": bad})
            continue
        m = "None" if eff_max is None else "(Some (%d)%%Z)" % eff_max
        texts.append("(mkLC %s %s [%s] [%s] [%s])" % (
            m, "true" if eff_typed else "false",
            "; ".join(coq_op(o, kind, w) for o, w in builtins.zip(ops, which)),
            "; ".join(coq_obs(o) for o in ai), "; ".join(coq_obs(o) for o in si)))
    # directed: (1) a call pattern whose only argument is an int equal to the hash of another pattern's key object: the two
    # dictionary keys collide and are compared with ==; (2) keyword names that the library's own functions use as
    # parameter names are ordinary keyword arguments of the cached function
    try:
        from asyncstdlib import _lrucache as _lc
        coll = []
        for typed in (False, True):
            for args in ((1, 2), (0, "a"), ((1, 2), 3)):
                k = hash(_lc.CallKey.from_call(args, {}, typed))
                coll.append((typed, args, k))
    except Exception:  # noqa  (no such internal any more: nothing to aim at)
        coll = []
    for typed, args, k in coll:
        for maxsize in (None, 2):
            ops = [("call", args, ()), ("call", (k,), ()), ("info",), ("call", (k,), ()), ("call", args, ()), ("info",)]
            which = [0] * len(ops)
            NONE_AT["n"] = 9
            ai = run_history("args", maxsize, typed, "function", "async", ops, which)
            si = run_history("args", maxsize, typed, "function", "sync", ops, which)
            rep.count(("collision", typed, args, maxsize), True)
            if ai != si:
                fails_n += 1
                rep.violation("lru:history", {"form": "args", "maxsize": maxsize, "typed": typed, "kind": "function", "ops": repr(ops), "which": which,
                                              "why": "hash-colliding call patterns: asyncstdlib %r functools %r" % (ai, si)})
    # a keyword-only call and a call whose positional arguments are exactly that (name, value) pair are different patterns
    for typed in (False, True):
        for maxsize in (None, 3):
            ops = [("call", (), (("x", 1),)), ("call", (("x", 1),), ()), ("info",), ("call", (), (("x", 1),)), ("call", (("x", 1),), ()), ("info",)]
            which = [0] * len(ops)
            NONE_AT["n"] = 9
            ai = run_history("args", maxsize, typed, "function", "async", ops, which)
            si = run_history("args", maxsize, typed, "function", "sync", ops, which)
            rep.count(("kw-vs-pair", typed, maxsize), True)
            if ai != si:
                fails_n += 1
                rep.violation("lru:history", {"form": "args", "maxsize": maxsize, "typed": typed, "kind": "function", "ops": repr(ops), "which": which,
                                              "why": "f(x=1) vs f(('x', 1)): asyncstdlib %r functools %r" % (ai, si)})
    for kwname in ("self", "key", "maxsize", "typed", "fn", "function", "args", "kwargs", "kwds", "instance", "wrapped", "call", "cache", "user_function", "func"):
        def one(lib):
            calls = []
            if lib == "asl":
                @a.lru_cache(maxsize=2)
                async def f(**kw):
                    calls.append(kw)
                    return len(calls)
                return [drive(f(**{kwname: 1})), drive(f(**{kwname: 1})), drive(f(**{kwname: 2})), tuple(f.cache_info())[:2], len(calls)]

            @functools.lru_cache(maxsize=2)
            def g(**kw):
                calls.append(kw)
                return len(calls)
            return [g(**{kwname: 1}), g(**{kwname: 1}), g(**{kwname: 2}), tuple(g.cache_info())[:2], len(calls)]
        try:
            ra = one("asl")
        except BaseException as e:  # noqa
            ra = "raised %s: %s" % (type(e).__name__, e)
        rs = one("std")
        rep.count(("kwname", kwname), True)
        if ra != rs:
            fails_n += 1
            rep.violation("lru:history", {"keyword": kwname, "why": "a keyword argument named %r: asyncstdlib %r functools %r" % (kwname, ra, rs)})
    rep.notes["decorator_form_distribution"] = {"%s/%s" % k: v for k, v in dist.items()}
    shards = [texts[i:i + 300] for i in range(0, len(texts), 300)]
    outs = coq_eval_files("c10", [HEADER + "Definition cases : list lcase := [\n" + ";\n".join(sh) + "\n].\nEval vm_compute in (lfailing cases).\n" for sh in shards])
    mism = 0
    for sh, (rc, out) in builtins.zip(shards, outs):
        f = parse_nat_list(out) if rc == 0 else None
        if f is None:
            rep.violation("coq-eval", {"broken": "correspondence evaluation failed", "log": out[-1500:]}, no_input=True)
            break
        mism += len(f)
        for j in f[:2]:
            rep.violation("lru:model-mismatch", {"broken": "correspondence impl<->Model/Lru.v l_run (or functools<->f_run)", "case": sh[j][:3000]}, no_input=not rep.has_failing_input())
    rep.cov["traces_validated_against_impl"] = len(texts)
    rep.notes["model_mismatches"] = mism
    # bound methods are values: one obtained from an instance and kept stays bound to that instance whatever is looked up
    # later (another instance, the class, the same instance again); compared with functools.lru_cache
    for maxsize in (None, 2, 128):
        def kept(lib):
            calls = []
            if lib == "asl":
                class C:
                    def __init__(self, tag):
                        self.tag = tag

                    @a.lru_cache(maxsize=maxsize)
                    async def m(self, x):
                        calls.append((self.tag, x))
                        return (self.tag, x)
                run = drive
            else:
                class C:
                    def __init__(self, tag):
                        self.tag = tag

                    @functools.lru_cache(maxsize=maxsize)
                    def m(self, x):
                        calls.append((self.tag, x))
                        return (self.tag, x)

                def run(v):
                    return v
            p_, q_ = C("p"), C("q")
            mp = p_.m
            mq = q_.m
            mp2 = p_.m
            out = [run(mp(1)), run(mq(1)), run(mp(1)), run(mp2(2)), run(mq(2)), run(mp(2))]
            unbound = C.m
            out.append(run(unbound(q_, 3)))
            out.append(run(mp(3)))
            info = tuple(C.m.cache_info())
            return out, list(calls), info, mp is not mq
        try:
            ra = kept("asl")
        except BaseException as e:  # noqa
            ra = "raised %s: %s" % (type(e).__name__, e)
        rs = kept("std")
        rep.count(("kept-bound-methods", maxsize), True)
        if ra != rs:
            fails_n += 1
            rep.violation("lru:bound-methods", {"maxsize": maxsize, "why": "bound methods of two instances obtained first and called later, interleaved (results, invocations, cache_info, distinct objects): "
                                                "asyncstdlib %r functools %r" % (ra, rs)})
    if not proofs_ok:
        rep.violation("proof-broken", {"broken": rep.notes.get("broken_file", "?"), "log": rep.notes.get("build_log_tail", "")[-1500:]}, no_input=True)
    return rep.finish()
