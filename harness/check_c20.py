"""C20: streaming tools retain a bounded number of items however long the stream.
Source items are created lazily and tracked by weak references; the number of items alive is sampled at every
pull from a source (i.e. after the consumer dropped what it received) and must stay within
  (small constant per source) + (the tool's documented window)  and must not grow with the stream length."""
import builtins
import gc
import random
import weakref

import common
from common import Report, proof_stage
from gencalc import Obj, drive
import asyncstdlib as a


class Tracker:
    def __init__(self):
        self.alive = 0
        self.samples = []

    def new(self, i, key):
        o = Obj(i, key)
        self.alive += 1
        weakref.finalize(o, self._dead)
        return o

    def _dead(self):
        self.alive -= 1


class LazySrc:
    """async iterator creating its items on demand; samples the number of live items before creating the next"""

    def __init__(self, tr, n, keyf=lambda i: i % 7 + 1, wrap=None, base=0):
        self.tr, self.n, self.i, self.keyf, self.wrap, self.base = tr, n, 0, keyf, wrap, base

    def __aiter__(self):
        return self

    fail_next = None        # set to an exception: the next pull raises it once (a transient error), nothing is consumed

    async def __anext__(self):
        self.tr.samples.append(self.tr.alive)
        if self.fail_next is not None:
            e, self.fail_next = self.fail_next, None
            raise e
        if self.i >= self.n:
            raise StopAsyncIteration
        self.i += 1
        o = self.tr.new(self.base + self.i, self.keyf(self.i))
        return self.wrap(o) if self.wrap else o

    async def aclose(self):
        pass


class LazySrcNC:
    """the same source without an aclose method (a plain class-based async iterator)"""
    fail_next = None
    __init__ = LazySrc.__init__
    __aiter__ = LazySrc.__aiter__
    __anext__ = LazySrc.__anext__


class KeepingSrc(LazySrc):
    """a source that itself keeps every item it has handed out (a page reader): its items live as long as it does, so
    a tool must let go of it once it is exhausted"""

    def __init__(self, *a_, **kw):
        LazySrc.__init__(self, *a_, **kw)
        self.handed = []

    async def __anext__(self):
        x = await LazySrc.__anext__(self)
        self.handed.append(x)
        return x


class LazyTable:
    """a *synchronous*, sized, re-iterable collection (len / iter / in) that creates its rows on demand while iterated"""

    def __init__(self, tr, n, keyf=lambda i: i % 7 + 1):
        self.tr, self.n, self.keyf = tr, n, keyf

    def __len__(self):
        return self.n

    def __contains__(self, x):
        return False

    def __iter__(self):
        for i in range(1, self.n + 1):
            self.tr.samples.append(self.tr.alive)
            yield self.tr.new(i, self.keyf(i))
        self.tr.samples.append(self.tr.alive)


async def drain(it):
    async for x in it:
        del x


def tools(N):
    """name -> (number of sources, window, builder(tr) -> awaitable that runs the tool over the streams)"""
    inc = lambda i: i  # noqa  (increasing keys: merge inputs are sorted)
    T = {}
    T["zip"] = (2, 0, lambda tr: drain(a.zip(LazySrc(tr, N), LazySrc(tr, N, base=N))))
    T["map"] = (2, 0, lambda tr: drain(a.map(lambda x, y: x.key + y.key, LazySrc(tr, N), LazySrc(tr, N, base=N))))
    T["filter"] = (1, 0, lambda tr: drain(a.filter(lambda x: x.key % 2, LazySrc(tr, N))))
    T["enumerate"] = (1, 0, lambda tr: drain(a.enumerate(LazySrc(tr, N))))
    T["accumulate"] = (1, 1, lambda tr: drain(a.accumulate(LazySrc(tr, N), lambda acc, x: x)))
    T["batched"] = (1, 5, lambda tr: drain(a.batched(LazySrc(tr, N), 5)))
    T["chain"] = (2, 0, lambda tr: drain(a.chain(LazySrc(tr, N // 2), LazySrc(tr, N // 2, base=N))))
    T["compress"] = (2, 0, lambda tr: drain(a.compress(LazySrc(tr, N), LazySrc(tr, N, base=N))))
    T["dropwhile"] = (1, 0, lambda tr: drain(a.dropwhile(lambda x: x.id < 10, LazySrc(tr, N))))
    T["takewhile"] = (1, 0, lambda tr: drain(a.takewhile(lambda x: True, LazySrc(tr, N))))
    T["filterfalse"] = (1, 0, lambda tr: drain(a.filterfalse(lambda x: x.key % 2, LazySrc(tr, N))))
    T["islice"] = (1, 0, lambda tr: drain(a.islice(LazySrc(tr, N), 3, None, 2)))
    T["starmap"] = (1, 0, lambda tr: drain(a.starmap(lambda x: x.key, LazySrc(tr, N, wrap=lambda o: (o,)))))
    T["pairwise"] = (1, 1, lambda tr: drain(a.pairwise(LazySrc(tr, N))))
    T["zip_longest"] = (2, 0, lambda tr: drain(a.zip_longest(LazySrc(tr, N), LazySrc(tr, N // 2, base=N))))
    T["merge"] = (2, 2, lambda tr: drain(a.merge(LazySrc(tr, N, keyf=inc), LazySrc(tr, N, keyf=inc, base=N))))
    T["all"] = (1, 0, lambda tr: a.all(LazySrc(tr, N)))
    T["any"] = (1, 0, lambda tr: a.any(LazySrc(tr, N, keyf=lambda i: 0)))
    T["sum"] = (1, 0, lambda tr: a.sum(LazySrc(tr, N)))
    T["min"] = (1, 1, lambda tr: a.min(LazySrc(tr, N)))
    T["max"] = (1, 1, lambda tr: a.max(LazySrc(tr, N, keyf=inc)))
    T["max_key"] = (1, 1, lambda tr: a.max(LazySrc(tr, N, keyf=inc), key=lambda x: x.key))
    T["reduce"] = (1, 1, lambda tr: a.reduce(lambda acc, x: x if x.key >= acc.key else acc, LazySrc(tr, N)))
    T["nlargest"] = (1, 5, lambda tr: a.nlargest(LazySrc(tr, N, keyf=inc), 5))
    T["nsmallest"] = (1, 5, lambda tr: a.nsmallest(LazySrc(tr, N, keyf=lambda i: -i), 5))
    T["groupby"] = (1, 1, lambda tr: _groupby(tr, N))
    # an exhausted short source that owns its items must be let go of while the long one is still streamed
    # (while it lives the short source holds its 8 items itself: window 8; over the last third of the run it must be gone)
    T["zip_longest short keeping source"] = (2, 8, lambda tr: drain(a.zip_longest(LazySrc(tr, N), KeepingSrc(tr, 8, base=N))), PER_SOURCE * 2)
    # synchronous sized collections producing rows on demand
    T["enumerate(table)"] = (1, 0, lambda tr: drain(a.enumerate(LazyTable(tr, N))))
    T["map(table)"] = (1, 0, lambda tr: drain(a.map(lambda x: x.key, LazyTable(tr, N))))
    T["pairwise(table)"] = (1, 1, lambda tr: drain(a.pairwise(LazyTable(tr, N))))
    T["max(table)"] = (1, 1, lambda tr: a.max(LazyTable(tr, N, keyf=inc)))
    T["reduce(table)"] = (1, 1, lambda tr: a.reduce(lambda acc, x: x if x.key >= acc.key else acc, LazyTable(tr, N)))
    T["sum(table)"] = (1, 0, lambda tr: a.sum(LazyTable(tr, N)))
    T["any_iter"] = (1, 0, lambda tr: drain(a.any_iter(LazySrc(tr, N))))
    # a lazy stream of awaitables, each carrying one tracked item as its result
    T["await_each"] = (1, 0, lambda tr: drain(a.await_each(_lazy_awaitables(tr, N))))
    return T


def _lazy_awaitables(tr, N):
    class Carrier:
        """an awaitable that owns its result (like a finished Future)"""

        def __init__(self, item):
            self.item = item

        def __await__(self):
            return self.item
            yield

    def gen():
        for i in range(1, N + 1):
            tr.samples.append(tr.alive)
            yield Carrier(tr.new(i, i % 7 + 1))
        tr.samples.append(tr.alive)
    return gen()


async def _groupby(tr, N):
    async for k, g in a.groupby(LazySrc(tr, N, keyf=lambda i: i // 3)):
        async for x in g:
            del x


PER_SOURCE = 3      # loop variable, a head / previous item, an item in flight


def tee_pattern(rng, N, nchild):
    """random child progress with early closes; returns violations of  alive <= lead + constant"""
    tr = Tracker()
    src = (LazySrcNC if rng.random() < 0.3 else LazySrc)(tr, N)
    t = a.tee(src, nchild)
    kids = list(t)
    pos = [0] * nchild
    live = [True] * nchild
    worst = None
    steps = 0

    async def go():
        nonlocal worst, steps
        if rng.random() < 0.3:
            # a child that is closed before anybody has advanced
            j = rng.randrange(nchild)
            await kids[j].aclose()
            live[j] = False
        while builtins.any(live) and steps < 6 * N:
            steps += 1
            i = rng.choice([j for j in range(nchild) if live[j]])
            r = rng.random()
            if r < 0.02:
                await kids[i].aclose()
                live[i] = False
            elif r < 0.035 and sum(live) > 1 and pos[i] == builtins.max(pos):
                # a child that leads is unwound by a transient error of the source: it is finished from then on
                src.fail_next = KeyError("transient")
                try:
                    await kids[i].__anext__()
                    raise AssertionError("the transient source error did not reach the consumer")
                except KeyError:
                    live[i] = False
            else:
                # bursts let one child run ahead
                for _ in range(rng.choice([1, 1, 1, 5, 20])):
                    try:
                        x = await kids[i].__anext__()
                        del x
                        pos[i] += 1
                    except StopAsyncIteration:
                        live[i] = False
                        break
            lp = [pos[j] for j in range(nchild) if live[j]]
            # what the fastest child (even one that is done by now) has fetched beyond the slowest live child
            lead = (builtins.max(pos) - builtins.min(lp)) if lp else 0
            if tr.alive > lead + nchild + 1:      # every child frame may still reference the last item it fetched itself
                worst = (tr.alive, lead, list(pos), list(live))
                return
    try:
        drive(go())
    except BaseException as e:  # noqa
        worst = ("error", repr(e), list(pos), list(live))
    return worst, steps


def concurrent_tee_probe(rep):
    """tee with a lock, all children advanced *concurrently* (every one is inside its __anext__ at the same time) over a
    source that suspends: after each round every child is at the same position, so nothing may be buffered -- a child that
    waited for the lock takes the item its peer fetched meanwhile instead of reading ahead"""
    import asyncio
    import weakref
    fails = 0

    class Item:
        pass

    for nchild in (2, 3, 5):
        made = []

        class Source:
            def __aiter__(self):
                return self

            async def __anext__(self):
                await asyncio.sleep(0)
                it = Item()
                made.append(weakref.ref(it))
                return it

        async def main():
            worst = 0
            t = a.tee(Source(), n=nchild, lock=asyncio.Lock())
            for _ in range(6):
                got = await asyncio.gather(*[c.__anext__() for c in t])
                if builtins.any(x is not got[0] for x in got):
                    return "the children received different items in one round"
                del got
                gc.collect()
                worst = builtins.max(worst, builtins.sum(1 for w in made if w() is not None))
            await t.aclose()
            return worst
        try:
            worst = asyncio.run(main())
        except BaseException as e:  # noqa
            worst = "failed with %r" % (e,)
        rep.count(("tee-concurrent-rounds", nchild), True)
        # (one item may stay referenced by the local variable of the child that fetched it last)
        if worst not in (0, 1):
            fails += 1
            rep.violation("retention:tee-concurrent", {"children": nchild, "why": "%d children advanced concurrently, six rounds, asyncio.Lock: after a round all children are at the same position, "
                                                       "items still alive: %r (bound 1)" % (nchild, worst)})
    return fails


def chain_stream_probe(rep):
    """chain.from_iterable over a long lazy stream of sub-iterators (class-based closeable ones and async generators, each
    owning a payload): a sub-iterator that is exhausted is let go of (and closed) before the chain moves on, so the
    number of sub-iterators alive does not grow with the stream"""
    import weakref
    fails = 0
    for kind in ("class", "generator"):
        for N in (40, 300):
            alive = []
            closed_late = []

            class Payload:
                pass

            class Sub:
                def __init__(self, i):
                    self.i, self.left, self.payload, self.closed = i, 3, Payload(), False

                def __aiter__(self):
                    return self

                async def __anext__(self):
                    if not self.left:
                        raise StopAsyncIteration
                    self.left -= 1
                    return self.i

                async def aclose(self):
                    self.closed = True

            async def subgen(i):
                payload = Payload()
                alive.append(weakref.ref(payload))
                for _ in range(3):
                    yield i
                del payload

            async def outer():
                for i in range(N):
                    if kind == "class":
                        sub = Sub(i)
                        alive.append(weakref.ref(sub.payload))
                    else:
                        sub = subgen(i)
                    yield sub
                    del sub

            async def main():
                worst = 0
                async for x in a.chain.from_iterable(outer()):
                    gc.collect()
                    worst = builtins.max(worst, builtins.sum(1 for w in alive if w() is not None))
                return worst
            try:
                worst = drive(main())
            except BaseException as e:  # noqa
                worst = "failed with %r" % (e,)
            rep.count(("chain-stream", kind, N), True)
            if not isinstance(worst, int) or worst > 3:
                fails += 1
                rep.violation("retention:chain-stream", {"sub_iterators": kind, "stream": N, "why": "chain.from_iterable over %d sub-iterators of 3 items: sub-iterator payloads alive at once: %r (bound 3)" % (N, worst)})
                break
    return fails


def consumer_of_tee_child_probe(rep):
    """One child of a tee is handed to a consumer that owns its argument -- a tool, a scoped_iter block, a chain --, the
    consumer takes an item and is closed / left; from then on that child is done, so what its sibling streams afterwards is
    not kept for it"""
    import weakref
    fails = 0

    class Item:
        pass
    consumers = {
        "enumerate": lambda c: a.enumerate(c), "filter": lambda c: a.filter(lambda x: True, c), "islice": lambda c: a.islice(c, 5),
        "takewhile": lambda c: a.takewhile(lambda x: True, c), "accumulate": lambda c: a.accumulate(c, lambda x, y: y), "pairwise": lambda c: a.pairwise(c),
        "batched": lambda c: a.batched(c, 1), "starmap": lambda c: a.starmap(lambda x: x, a.map(lambda x: (x,), c)), "any_iter": lambda c: a.any_iter(c),
        "map": lambda c: a.map(lambda x: x, c), "zip": lambda c: a.zip(c), "chain": lambda c: a.chain(c), "dropwhile": lambda c: a.dropwhile(lambda x: False, c),
        "compress": lambda c: a.compress(c, [1] * 100), "zip_longest": lambda c: a.zip_longest(c), "merge": lambda c: a.merge(c, key=lambda x: 0),
        "groupby": lambda c: a.groupby(c, key=lambda x: 0), "filterfalse": lambda c: a.filterfalse(lambda x: False, c), "cycle": lambda c: a.cycle(c),
    }
    for name in list(consumers) + ["scoped_iter", "scoped_iter(chain)"]:
        made = []

        class Lazy:
            def __aiter__(self):
                return self

            async def __anext__(self):
                it = Item()
                made.append(weakref.ref(it))
                return it

        async def go():
            t = a.tee(Lazy(), 2)
            if name == "scoped_iter":
                async with a.scoped_iter(t[0]) as h:
                    await h.__anext__()
            elif name == "scoped_iter(chain)":
                async with a.scoped_iter(a.chain(t[0])) as h:
                    await h.__anext__()
            else:
                tool = consumers[name](t[0])
                await tool.__anext__()
                await tool.aclose()
            worst = 0
            for _ in range(60):
                await t[1].__anext__()
                gc.collect()
                worst = builtins.max(worst, builtins.sum(1 for w in made if w() is not None))
            await t.aclose()
            return worst
        try:
            worst = drive(go())
            why = None if worst <= 3 else "%d items alive while the sibling streamed 60 more" % worst
        except BaseException as e:  # noqa
            why = "failed with %r" % (e,)
        rep.count(("tee-child-consumer", name), True)
        if why:
            fails += 1
            rep.violation("retention:tee-child-consumer", {"consumer": name, "why": "a tee child given to %s, which took one item and was closed/left: %s" % (name, why)})
    return fails


def run(tier, seed):
    rep = Report("C20", tier, seed)
    proofs_ok = proof_stage(rep, "C20")
    rng = random.Random(seed)
    fails = 0
    sizes = [50, 400] if tier == "quick" else [50, 400, 2000]
    maxima = {}
    for N in sizes:
        for name, spec in tools(N).items():
            nsrc, window, build = spec[:3]
            tail_bound = spec[3] if len(spec) > 3 else None
            tr = Tracker()
            try:
                drive(build(tr))
                err = None
            except BaseException as e:  # noqa
                err = e
            gc.collect()
            mx = builtins.max(tr.samples) if tr.samples else 0
            maxima.setdefault(name, {})[N] = mx
            rep.count((name, N), True, sample={"tool": name, "stream": N, "max_live_items": mx, "window": window, "sources": nsrc})
            bound = PER_SOURCE * nsrc + window
            if err is not None:
                fails += 1
                rep.violation("retention:%s" % name, {"tool": name, "stream": N, "why": "the tool failed: %r" % (err,)})
            elif tail_bound is not None and tr.samples and builtins.max(tr.samples[-(len(tr.samples) // 3):]) > tail_bound:
                fails += 1
                rep.violation("retention:%s" % name, {"tool": name, "stream": N, "why": "%d source items still alive in the last third of the run, bound is %d" % (
                    builtins.max(tr.samples[-(len(tr.samples) // 3):]), tail_bound)})
            elif mx > bound:
                fails += 1
                rep.violation("retention:%s" % name, {"tool": name, "stream": N, "why": "%d source items alive at a pull, bound is %d per source x %d + window %d" % (mx, PER_SOURCE, nsrc, window)})
    for name, d in maxima.items():
        if d[sizes[-1]] > d[sizes[0]] + 1:
            fails += 1
            rep.violation("retention:%s" % name, {"tool": name, "why": "retention grows with the stream: %r" % (d,)})
    rep.notes["max_live_items_by_tool_and_stream"] = maxima
    # tee: every pattern of child progress and early close
    npat = 150 * common.scale(rep) if tier == "quick" else 20000
    for k in range(npat):
        nchild = rng.choice([2, 3, 3, 4])
        N = rng.choice([50, 120])
        worst, steps = tee_pattern(rng, N, nchild)
        rep.count(("tee", k), True, sample={"tool": "tee", "children": nchild, "stream": N, "steps": steps} if k < 2 else None)
        if worst:
            fails += 1
            rep.violation("retention:tee", {"children": nchild, "stream": N, "why": ("a tee child failed: %s (positions %r, live %r)" % worst[1:]) if worst[0] == "error" else
                                           "%d items alive although the fastest child leads the slowest live one by %d (positions %r, live %r)" % worst})
            break
    fails += concurrent_tee_probe(rep)
    fails += consumer_of_tee_child_probe(rep)
    fails += chain_stream_probe(rep)
    if not proofs_ok:
        rep.violation("proof-broken", {"broken": rep.notes.get("broken_file", "?"), "log": rep.notes.get("build_log_tail", "")[-1500:]}, no_input=True)
    return rep.finish()
