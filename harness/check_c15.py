"""C15: context managers as decorators wrap every call in a fresh, paired context (concurrent calls)."""
import builtins
import contextlib
import random

import common
from common import Report, proof_stage, coq_eval_files, parse_nat_list
from sched import Sched, Susp, Cancelled
import asyncstdlib as a
from asyncstdlib import contextlib as acl

HEADER = """From Coq Require Import List ZArith NArith Bool.
Import ListNotations.
Require Import V.Model.Decorator.
Local Open Scope nat_scope.
"""


class BodyError(Exception):
    def __init__(self, i):
        self.i = i


def exc_id(e):
    if e is None:
        return None
    if isinstance(e, BodyError):
        return ("body", e.i)
    if isinstance(e, Cancelled):
        return ("cancel",)
    return ("other", type(e).__name__)


class System:
    def __init__(self, cfg):
        self.cfg = cfg
        self.sched = Sched()
        self.log = []
        self.next_gen = 0
        sysm = self
        se, sb, sx, suppress = cfg["se"], cfg["sb"], cfg["sx"], cfg["suppress"]

        if cfg["generator"]:
            @a.contextmanager
            async def cm():
                g = sysm.next_gen
                sysm.next_gen += 1
                sysm.log.append(("enterstart", sysm.sched.current, g))
                for _ in range(se):
                    await Susp("enter")
                sysm.log.append(("entered", sysm.sched.current, g))
                try:
                    yield g
                except BaseException as e:  # noqa
                    sysm.log.append(("exitstart", sysm.sched.current, g, exc_id(e)))
                    for _ in range(sx):
                        await Susp("exit")
                    sysm.log.append(("exited", sysm.sched.current, g))
                    if not suppress:
                        raise
                else:
                    sysm.log.append(("exitstart", sysm.sched.current, g, None))
                    for _ in range(sx):
                        await Susp("exit")
                    sysm.log.append(("exited", sysm.sched.current, g))
            manager = cm()
        else:
            class CD(acl.ContextDecorator):
                async def __aenter__(s):
                    sysm.log.append(("enterstart", sysm.sched.current, 0))
                    for _ in range(se):
                        await Susp("enter")
                    sysm.log.append(("entered", sysm.sched.current, 0))

                async def __aexit__(s, et, ev, tb):
                    sysm.log.append(("exitstart", sysm.sched.current, 0, exc_id(ev)))
                    for _ in range(sx):
                        await Susp("exit")
                    sysm.log.append(("exited", sysm.sched.current, 0))
                    return suppress
            manager = CD()

        @manager
        async def body(i):
            sysm.log.append(("bodystart", i))
            try:
                for _ in range(sb):
                    await Susp("body")
                if cfg["raises"][i]:
                    raise BodyError(i)
            except BaseException as e:  # noqa
                sysm.log.append(("bodyend", i, exc_id(e)))
                raise
            sysm.log.append(("bodyend", i, None))
            return ("value", i)
        self.body = body
        self.manager = manager
        for i in range(len(cfg["raises"])):
            self.sched.add(self.task(i))

    async def task(self, i):
        try:
            r = await self.body(i)
            if r == ("value", i):
                self.log.append(("result", i, "value"))
            elif r is None:
                self.log.append(("result", i, "suppressed"))
            else:
                self.log.append(("result", i, ("wrong-value", repr(r))))
        except BaseException as e:  # noqa
            self.log.append(("result", i, exc_id(e)))

    def act(self, action):
        if action[0] == "run":
            self.sched.run(action[1])
        else:
            self.sched.cancel(action[1])


def run_schedule(cfg, actions):
    sysm = System(cfg)
    for a_ in actions:
        sysm.act(a_)
    return sysm


def all_schedules(cfg, cap):
    stack = [[]]
    n = 0
    while stack and n < cap:
        prefix = stack.pop()
        sysm = System(cfg)
        actions = []
        pos = 0
        while True:
            r = sysm.sched.runnable()
            if not r:
                break
            if pos < len(prefix):
                c = prefix[pos]
            else:
                c = r[0]
                for alt in r[1:]:
                    stack.append(actions[:pos] + [alt])
            pos += 1
            sysm.sched.run(c)
            actions.append(c)
        n += 1
        yield [("run", c) for c in actions]


def random_schedule(cfg, rng, cancel_prob):
    sysm = System(cfg)
    actions = []
    cancels = 0
    while sysm.sched.runnable() and len(actions) < 300:
        if cancels < 1 and rng.random() < cancel_prob and sysm.sched.cancellable():
            act = ("cancel", rng.choice(sysm.sched.cancellable()))
            cancels += 1
        else:
            act = ("run", rng.choice(sysm.sched.runnable()))
        sysm.act(act)
        actions.append(act)
    return actions


def oracle(cfg, actions, sysm):
    """each call's projection of the log is enter; body; exit with the body's exception; result; own generator"""
    n = len(cfg["raises"])
    if builtins.any(e is not None for e in sysm.sched.errors):
        return "task-error", "a task failed: %r" % ([e for e in sysm.sched.errors if e is not None][:1],)
    gens = {}
    cancelled = {i for k, i in actions if k == "cancel"}
    for i in range(n):
        proj = [e for e in sysm.log if e[1] == i]
        kinds = [e[0] for e in proj]
        if not sysm.sched.done[i]:
            continue
        res = [e for e in proj if e[0] == "result"]
        if len(res) != 1:
            return "result", "call %d has results %r" % (i, res)
        if i in cancelled:
            # enter/body/exit may be cut short; still: never a body without a completed enter, never two enters
            if kinds.count("enterstart") > 1 or (kinds.count("bodystart") and not kinds.count("entered")):
                return "pairing", "call %d: %r" % (i, kinds)
            be = [e for e in proj if e[0] == "bodyend"]
            if be and be[0][2] == ("cancel",):
                # cancelled inside the body: the context is exited with that very exception
                xs = [e for e in proj if e[0] == "exitstart"]
                if len(xs) != 1 or xs[0][3] != ("cancel",):
                    return "exit-exception", "call %d was cancelled in its body but the context was exited with %r" % (i, [e[3] for e in xs])
                if "exited" in kinds:
                    expect = "suppressed" if cfg["suppress"] else ("cancel",)
                    if res[0][2] != expect:
                        return "result", "call %d (cancelled in body) ended with %r, expected %r" % (i, res[0][2], expect)
            continue
        want = ["enterstart", "entered", "bodystart", "bodyend", "exitstart", "exited", "result"]
        if kinds != want:
            return "pairing", "call %d is not enter; body; exit; result: %r" % (i, proj)
        g = proj[0][2]
        if cfg["generator"]:
            if g in gens:
                return "shared-generator", "calls %d and %d used the same generator" % (gens[g], i)
            gens[g] = i
        if not (proj[1][2] == g and proj[4][2] == g and proj[5][2] == g):
            return "generator-mixup", "call %d was entered/exited through different generators: %r" % (i, proj)
        body_exc = ("body", i) if cfg["raises"][i] else None
        if proj[3][2] != body_exc or proj[4][3] != body_exc:
            return "exit-exception", "call %d: body ended with %r, exit received %r" % (i, proj[3][2], proj[4][3])
        expect = "value" if body_exc is None else ("suppressed" if cfg["suppress"] else body_exc)
        if res[0][2] != expect:
            return "result", "call %d returned/raised %r, expected %r" % (i, res[0][2], expect)
    return None


def coq_xc(x):
    if x is None:
        return "None"
    return "(Some %s)" % ("(XBody %d)" % x[1] if x[0] == "body" else "XCancel")


def coq_event(e):
    k = e[0]
    if k in ("enterstart", "entered", "exited"):
        return "%s %d %d" % ({"enterstart": "DEnterStart", "entered": "DEntered", "exited": "DExited"}[k], e[1], e[2])
    if k == "bodystart":
        return "DBodyStart %d" % e[1]
    if k == "bodyend":
        return "DBodyEnd %d %s" % (e[1], coq_xc(e[2]))
    if k == "exitstart":
        return "DExitStart %d %d %s" % (e[1], e[2], coq_xc(e[3]))
    if k == "result":
        r = e[2]
        if r == "value":
            return "DResult %d None" % e[1]
        if r == "suppressed":
            return "DResult %d (Some None)" % e[1]
        if isinstance(r, tuple) and r[0] in ("body", "cancel"):
            return "DResult %d (Some %s)" % (e[1], coq_xc(r))
    raise ValueError(e)


def coq_case(cfg, actions, sysm):
    c = "(mkDCfg %s %d %d %d %s [%s])" % ("true" if cfg["generator"] else "false", cfg["se"], cfg["sb"], cfg["sx"],
                                          "true" if cfg["suppress"] else "false", "; ".join("true" if r else "false" for r in cfg["raises"]))
    return "(mkDC %s [%s] [%s])" % (c, "; ".join(("DRun %d" if k == "run" else "DCancelAt %d") % i for k, i in actions),
                                   "; ".join(coq_event(e) for e in sysm.log))


def gen_cfg(rng, ncalls=None):
    n = ncalls or rng.choice([2, 2, 3])
    return {"generator": rng.random() < 0.7, "se": rng.choice([0, 1, 2]), "sb": rng.choice([0, 1, 2]), "sx": rng.choice([0, 1, 2]),
            "suppress": rng.random() < 0.3, "raises": [rng.random() < 0.4 for _ in range(n)]}


def run(tier, seed):
    rep = Report("C15", tier, seed)
    proofs_ok = proof_stage(rep, "C15")
    rng = random.Random(seed)
    texts, fails = [], 0
    nexh = 0

    def handle(cfg, actions):
        nonlocal fails
        sysm = run_schedule(cfg, actions)
        rep.count((repr(cfg), tuple(actions)), len(actions) > 3, sample={"config": cfg, "schedule": actions[:12]})
        bad = oracle(cfg, actions, sysm)
        if bad:
            fails += 1
            rep.violation("decorator:%s" % bad[0], {"config": cfg, "schedule": actions, "why": bad[1], "log": repr(sysm.log)})
            return
        try:
            texts.append(coq_case(cfg, actions, sysm))
        except ValueError as e:
            fails += 1
            rep.violation("decorator:unexpected-event", {"config": cfg, "schedule": actions, "why": "event outside the model's vocabulary: %s" % e})

    fixed = [{"generator": True, "se": 1, "sb": 1, "sx": 1, "suppress": False, "raises": [False, True]},
             {"generator": True, "se": 0, "sb": 2, "sx": 0, "suppress": True, "raises": [True, False]},
             {"generator": False, "se": 1, "sb": 1, "sx": 1, "suppress": False, "raises": [False, False]},
             {"generator": True, "se": 1, "sb": 1, "sx": 0, "suppress": False, "raises": [False, False, False]}]
    cfgs = fixed + [gen_cfg(rng, 2) for _ in range(4 if tier == "quick" else 30)]
    if tier != "quick":
        cfgs.append({"generator": True, "se": 1, "sb": 1, "sx": 1, "suppress": False, "raises": [False, True, False]})
    cap = 600 * common.scale(rep) if tier == "quick" else 40000
    for cfg in cfgs:
        for actions in all_schedules(cfg, cap):
            nexh += 1
            handle(cfg, actions)
    rep.notes["exhaustively_enumerated_schedules"] = nexh
    for _ in range(600 if tier == "quick" else 60000):
        cfg = gen_cfg(rng)
        handle(cfg, random_schedule(cfg, rng, 0.1))
    # the decorating manager instance may also be used directly in `async with` (before / around calls)
    for nested in (False, True):
        cfg = {"generator": True, "se": 0, "sb": 0, "sx": 0, "suppress": False, "raises": [False, False]}
        sysm = System(cfg)

        async def direct():
            sysm.sched.current = 0
            if nested:
                async with sysm.manager:
                    return await sysm.body(0), await sysm.body(1)
            async with sysm.manager:
                pass
            return await sysm.body(0), await sysm.body(1)
        try:
            from gencalc import drive
            res = drive(direct())
            why = None if res == (("value", 0), ("value", 1)) else "results %r" % (res,)
        except BaseException as e:  # noqa
            why = "calling the decorated function %s using the manager directly failed: %r" % ("inside" if nested else "after", e)
        rep.count(("direct-use", nested), True)
        if why:
            fails += 1
            rep.violation("decorator:direct-use", {"why": why})
    # the body's own exception leaves the call unchanged, also when its type is a subclass of one the implementation
    # singles out; compared with contextlib.asynccontextmanager used as a decorator
    import contextlib as _cl
    from gencalc import drive as _drive

    class _StopAsyncSub(StopAsyncIteration):
        pass

    class _RuntimeSub(RuntimeError):
        pass

    class _StopIterSub(StopIteration):
        pass

    for exc_t in (_StopAsyncSub, _RuntimeSub, StopAsyncIteration, RuntimeError, KeyError, _StopIterSub, Exception, BaseException):   # (GeneratorExit is treated specially on purpose: C13)
        for handles in (False, True, "swallow"):
            def one(lib):
                events = []

                @lib
                async def ctx():
                    events.append("enter")
                    if handles == "swallow":
                        try:
                            yield
                        except BaseException:  # noqa  (the manager handles whatever the body raised: the call returns None)
                            events.append("swallowed")
                    elif handles:
                        try:
                            yield
                        finally:
                            events.append("exit")
                    else:
                        yield
                        events.append("exit")
                err = exc_t("from the body")

                @ctx()
                async def fn():
                    raise err
                out = []
                for _ in range(2):
                    try:
                        _drive(fn())
                        out.append("returned")
                    except BaseException as e:  # noqa
                        out.append("same object" if e is err else "%s: %s" % (type(e).__name__, e))
                return out, events
            ra, rs = one(a.contextmanager), one(_cl.asynccontextmanager)
            rep.count(("body-exception", exc_t.__name__, handles), True)
            if ra != rs:
                fails += 1
                rep.violation("decorator:body-exception", {"why": "a body raising %s (generator %s): asyncstdlib %r contextlib %r" % (
                    exc_t.__name__, {False: "plain", True: "with try/finally", "swallow": "swallowing the exception"}[handles], ra, rs)})
    # the exception object the body raised is the one the manager sees and the one the caller gets -- also when it is falsy
    class _EmptyError(Exception):
        def __len__(self):
            return 0
    for lib_name, lib in (("asyncstdlib", a.contextmanager), ("contextlib", _cl.asynccontextmanager)):
        seen = []

        @lib
        async def spy():
            try:
                yield
            except BaseException as e:  # noqa
                seen.append(e)
                raise
        err = _EmptyError()

        @spy()
        async def failing():
            raise err
        try:
            _drive(failing())
            out = "returned"
        except BaseException as e:  # noqa
            out = "same object" if e is err else "%s" % type(e).__name__
        ok = out == "same object" and len(seen) == 1 and seen[0] is err
        if lib_name == "asyncstdlib":
            rep.count(("falsy-body-exception",), True)
            if not ok:
                fails += 1
                rep.violation("decorator:body-exception", {"why": "a falsy exception raised by the body: the caller got %s, the manager saw %r (identical object: %r)" % (
                    out, [type(x).__name__ for x in seen], [x is err for x in seen])})
    # a class-based decorator without _recreate_cm of its own is the manager of every call: its own state shows the calls
    class Counting(acl.ContextDecorator):
        def __init__(s):
            s.entered = s.exited = s.active = 0
            s.seen_active = []

        async def __aenter__(s):
            s.entered += 1
            s.active += 1

        async def __aexit__(s, *exc):
            s.exited += 1
            s.active -= 1
            return False
    counting = Counting()

    @counting
    async def counted(x):
        counting.seen_active.append(counting.active)
        if x == 1:
            raise KeyError(x)
        return x
    outs = []
    for x in range(3):
        try:
            outs.append(_drive(counted(x)))
        except KeyError:
            outs.append("KeyError")
    rep.count(("class-based-state",), True)
    if (counting.entered, counting.exited, counting.active, counting.seen_active, outs) != (3, 3, 0, [1, 1, 1], [0, "KeyError", 2]):
        fails += 1
        rep.violation("decorator:class-based-state", {"why": "class-based decorator keeping its state on itself: entered %d exited %d active %d, active during the bodies %r, results %r" % (
            counting.entered, counting.exited, counting.active, counting.seen_active, outs)})
    # a class-based decorator that defines only __aexit__ and inherits __aenter__ from ContextDecorator
    class OnlyExit(acl.ContextDecorator):
        def __init__(s):
            s.exits = 0

        async def __aexit__(s, *exc):
            s.exits += 1
            return False
    only_exit = OnlyExit()

    @only_exit
    async def guarded(x):
        return x + 1
    try:
        got_oe = [_drive(guarded(1)), _drive(guarded(2))]
        why_oe = None if got_oe == [2, 3] and only_exit.exits == 2 else "results %r, exits %d" % (got_oe, only_exit.exits)
    except BaseException as e:  # noqa
        why_oe = "call failed: %r" % (e,)
    rep.count(("only-exit-manager",), True)
    if why_oe:
        fails += 1
        rep.violation("decorator:inherited-enter", {"why": "a ContextDecorator subclass defining only __aexit__: " + why_oe})
    # a class-based decorator that provides fresh single-use instances through _recreate_cm; the instances are falsy
    for falsy in (False, True):
        made = []

        class Fresh(acl.ContextDecorator):
            def __init__(s, template=False):
                s.template, s.entered, s.exited = template, 0, 0
                made.append(s)

            def __len__(s):
                return 0 if falsy else 1

            def _recreate_cm(s):
                return Fresh()

            async def __aenter__(s):
                if s.entered:
                    raise RuntimeError("instance entered twice")
                s.entered += 1

            async def __aexit__(s, *exc):
                s.exited += 1
                return False

        @Fresh(template=True)
        async def fresh_fn(x):
            return x
        try:
            res = [_drive(fresh_fn(i)) for i in range(3)]
            used = [(m.template, m.entered, m.exited) for m in made]
            why = None if res == [0, 1, 2] and used == [(True, 0, 0)] + [(False, 1, 1)] * 3 else "results %r, instances (template?, entered, exited) %r" % (res, used)
        except BaseException as e:  # noqa
            why = "call failed: %r" % (e,)
        rep.count(("fresh-instances", falsy), True)
        if why:
            fails += 1
            rep.violation("decorator:fresh-instances", {"why": "class-based decorator with _recreate_cm (%s instances): %s" % ("falsy" if falsy else "truthy", why)})
    # repeated sequential calls
    for n in (1, 4, 7):
        cfg = {"generator": True, "se": 1, "sb": 1, "sx": 1, "suppress": False, "raises": [i % 3 == 1 for i in range(n)]}
        actions = [("run", i) for i in range(n) for _ in range(4)]
        handle(cfg, actions)
    shards = [texts[i:i + 300] for i in range(0, len(texts), 300)]
    outs = coq_eval_files("c15", [HEADER + "Definition cases : list dcase := [\n" + ";\n".join(sh) + "\n].\nEval vm_compute in (dfailing cases).\n" for sh in shards])
    mism = 0
    for sh, (rc, out) in builtins.zip(shards, outs):
        f = parse_nat_list(out) if rc == 0 else None
        if f is None:
            rep.violation("coq-eval", {"broken": "correspondence evaluation failed", "log": out[-1500:]}, no_input=True)
            break
        mism += len(f)
        for j in f[:2]:
            rep.violation("decorator:model-mismatch", {"broken": "correspondence impl<->Model/Decorator.v (dexec): global event log", "case": sh[j][:4000]}, no_input=not rep.has_failing_input())
    rep.cov["traces_validated_against_impl"] = len(texts)
    rep.notes["model_mismatches"] = mism
    # the arguments of the manager factory are the manager's business, whatever they are -- a coroutine function (an async
    # callback), a class, None -- and the decorated callable may be any async callable (a callable object, a function
    # returning a coroutine, a cached coroutine function), not only an `async def` function; compared with
    # contextlib.asynccontextmanager used in the same way
    import functools as _ft
    from gencalc import drive as _drv

    def decorate_variants(lib, cache_deco):
        log = []

        async def report(x):
            log.append(("report", x))

        @lib
        async def notifying(callback, tag="default"):
            log.append(("enter", tag))
            try:
                yield
            finally:
                await callback(tag) if callback is not None else None
                log.append(("exit", tag))

        async def plain(x):
            log.append(("body", x))
            return x + 1

        class CallObj:
            async def __call__(self, x):
                log.append(("body", x))
                return x + 1

        def returns_coroutine(x):
            return plain(x)

        class _Aw:
            def __init__(self, x):
                self.x = x

            def __await__(self):
                log.append(("body", self.x))
                return self.x + 1
                yield

        def returns_awaitable_object(x):
            return _Aw(x)

        import types as _types

        @_types.coroutine
        def generator_based(x):
            log.append(("body", x))
            return x + 1
            yield
        out = []
        for arg in (report, None):
            for name, fn in (("async def", plain), ("callable object", CallObj()), ("function returning a coroutine", returns_coroutine),
                             ("partial", _ft.partial(plain)), ("cached", cache_deco(plain)),
                             ("function returning an awaitable object", returns_awaitable_object), ("types.coroutine function", generator_based)):
                for call_args in ((5,), (), (5, 6)):         # fitting arguments, a missing one, one too many (the call itself fails)
                    del log[:]
                    try:
                        deco = notifying(arg)
                        wrapped = deco(fn)
                        res = _drv(wrapped(*call_args))
                        out.append((name, arg is not None, call_args, "ok", res, list(log)))
                    except BaseException as e:  # noqa
                        out.append((name, arg is not None, call_args, "raised", type(e).__name__, list(log)))
        return out
    try:
        got = decorate_variants(a.contextmanager, a.lru_cache)
        want = decorate_variants(contextlib.asynccontextmanager, lambda f: f)
        why = None
        for g, w in builtins.zip(got, want):
            if g != w:
                why = "manager argument %s, decorated callable %r called with %r: asyncstdlib %r, contextlib %r" % ("a coroutine function" if g[1] else "None", g[0], g[2], g[3:], w[3:])
                break
    except BaseException as e:  # noqa
        why = "failed with %r" % (e,)
    rep.count(("decorator-argument-and-callable-kinds",), True)
    if why:
        rep.violation("decorator:argument-kinds", {"why": why})
    import kwprobe
    kwprobe.probe(rep, "decorated", "decorator:kwargs")
    kwprobe.probe(rep, "factory", "decorator:kwargs")
    if not proofs_ok:
        rep.violation("proof-broken", {"broken": rep.notes.get("broken_file", "?"), "log": rep.notes.get("build_log_tail", "")[-1500:]}, no_input=True)
    return rep.finish()
