"""Hand-driven cooperative scheduler: tasks are coroutines resumed with send/throw; every interleaving is an
explicit list of actions, so runs are replayable and cancellation is injected deterministically."""


class Susp:
    """An awaitable that suspends the task once, handing `tag` to the scheduler."""
    __slots__ = ("tag",)

    def __init__(self, tag=None):
        self.tag = tag

    def __await__(self):
        return (yield self)


class Cancelled(BaseException):
    pass


class Lock:
    """A lock cooperating with the scheduler: a task waiting for it is not runnable while it is held."""

    def __init__(self, sched):
        self.sched = sched
        self.held = False
        self.owner = None
        self.acquired = 0
        self.max_holders = 0

    def __len__(self):
        """the number of tasks queued on the lock (a FIFO lock may well expose that): an idle lock is *falsy* and still a lock"""
        return 0

    async def __aenter__(self):
        while self.held:
            await Susp(("lockwait", self))
        self.held = True
        self.owner = self.sched.current
        self.acquired += 1

    async def __aexit__(self, *a):
        self.held = False
        self.owner = None


class Sched:
    """Runs a set of task coroutines under an explicit schedule."""

    def __init__(self):
        self.tasks = []
        self.done = []
        self.blocked = []       # the Lock a task waits for, or None
        self.errors = []
        self.current = None
        self.cancelled = []
        self.started = []

    def add(self, coro):
        self.started.append(False)
        self.tasks.append(coro)
        self.done.append(False)
        self.blocked.append(None)
        self.errors.append(None)
        self.cancelled.append(False)
        return len(self.tasks) - 1

    def runnable(self):
        return [i for i in range(len(self.tasks)) if not self.done[i] and not (self.blocked[i] is not None and self.blocked[i].held)]

    def cancellable(self):
        # a task that never ran has nothing to cancel (its body, including cleanup clauses, would never execute)
        return [i for i in range(len(self.tasks)) if not self.done[i] and self.started[i]]

    def _after(self, i, ev):
        self.blocked[i] = ev.tag[1] if isinstance(getattr(ev, "tag", None), tuple) and ev.tag[0] == "lockwait" else None

    def run(self, i):
        self.current = i
        self.started[i] = True
        try:
            ev = self.tasks[i].send(None)
            self._after(i, ev)
        except StopIteration:
            self.done[i] = True
        except Cancelled:
            self.done[i] = True
        except BaseException as e:  # noqa
            self.done[i] = True
            self.errors[i] = e
        self.current = None

    def cancel(self, i):
        self.current = i
        self.cancelled[i] = True
        try:
            ev = self.tasks[i].throw(Cancelled())
            self._after(i, ev)
        except StopIteration:
            self.done[i] = True
        except Cancelled:
            self.done[i] = True
        except BaseException as e:  # noqa
            self.done[i] = True
            self.errors[i] = e
        self.current = None


def explore(build, max_runs=100000, on_step=None):
    """Stateless DFS over all schedules. build() -> (sched, finish) creates a fresh system; finish(sched, actions, snaps)
    is called at the end of every complete run. Returns number of runs."""
    stack = [[]]
    runs = 0
    while stack:
        prefix = stack.pop()
        runs += 1
        if runs > max_runs:
            return runs - 1, True
        sched, finish = build()
        actions = []
        snaps = []
        pos = 0
        while True:
            r = sched.runnable()
            if not r:
                break
            if pos < len(prefix):
                c = prefix[pos]
            else:
                c = r[0]
                for alt in r[1:]:
                    stack.append(actions[:pos] + [alt])
            pos += 1
            sched.run(c)
            actions.append(c)
            if on_step:
                snaps.append(on_step(sched))
        finish(sched, [("run", a_) for a_ in actions], snaps)
    return runs, False
