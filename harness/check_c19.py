"""C19: asynctools adapters normalise every async shape to the same plain result."""
import builtins
import functools
import itertools
import random

from common import Report, proof_stage, coq_eval_files, parse_nat_list
from gencalc import Obj, coq_val, drive
import asyncstdlib as a

HEADER = """From Coq Require Import List ZArith NArith Bool.
Import ListNotations.
Require Import V.Kernel.Values V.Model.Adapters.
Local Open Scope nat_scope.
"""


def mk_items(n):
    return [Obj(i + 1, i % 3) for i in range(n)]


class LogIter:
    def __init__(self, log, items):
        self.log, self.items, self.k = log, list(items), 0

    def __iter__(self):
        return self

    def __next__(self):
        self.log.append(("pull", self.k))
        if not self.items:
            self.log.append(("end",))
            raise StopIteration
        self.k += 1
        return self.items.pop(0)


class LogList(list):
    def __init__(self, log, items):
        super().__init__(items)
        self._log = log

    def __iter__(self):
        return LogIter(self._log, list.__iter__(self))


class LogAsync:
    def __init__(self, log, items):
        self.log, self.items, self.k, self.closed = log, list(items), 0, 0

    def __aiter__(self):
        return self

    async def __anext__(self):
        self.log.append(("pull", self.k))
        if self.closed or not self.items:
            self.log.append(("end",))
            raise StopAsyncIteration
        self.k += 1
        return self.items.pop(0)

    async def aclose(self):
        self.closed += 1
        self.log.append(("closesrc",))


class LogAsyncIterable:
    """an async iterable that is not its own iterator: __aiter__ hands out a separate cursor"""

    def __init__(self, log, items):
        self.cursor = LogAsync(log, items)

    def __aiter__(self):
        return self.cursor


def wrap_items(log, items, awaitable):
    if not awaitable:
        return list(items)

    def aw(k, v):
        async def c():
            log.append(("awaititem", k))
            return v
        return c()
    return [aw(k, v) for k, v in enumerate(items)]


def build(log, outer, cont, items_aw, items):
    its = wrap_items(log, items, items_aw)
    c = {"list": lambda: LogList(log, its), "iter": lambda: LogIter(log, its), "async": lambda: LogAsync(log, its),
         "aiterable": lambda: LogAsyncIterable(log, its)}[cont]()
    if not outer:
        return c, its

    async def o():
        log.append(("awaitouter",))
        return c
    return o(), its


async def take_n(it, n, log):
    got = []
    if n == 0:
        await it.aclose()
        return got
    try:
        while len(got) < n:
            v = await it.__anext__()
            log.append(("yield", v))
            got.append(v)
    except StopAsyncIteration:
        return got
    await it.aclose()
    return got


def close_unawaited(objs):
    for o in objs:
        if hasattr(o, "close") and hasattr(o, "cr_frame"):
            o.close()


def coq_ev(e):
    k = e[0]
    if k in ("pull", "awaititem", "awaitarg", "awaitkw"):
        return "%s %d" % ({"pull": "APull", "awaititem": "AAwaitItem", "awaitarg": "AAwaitArg", "awaitkw": "AAwaitKw"}[k], e[1])
    if k == "yield":
        return "AYield %s" % coq_val(e[1])
    if k == "call":
        return "ACall [%s] [%s]" % ("; ".join(coq_val(v) for v in e[1]), "; ".join(coq_val(v) for v in e[2]))
    return {"awaitouter": "AAwaitOuter", "end": "AEnd", "closesrc": "ACloseSrc"}[k]


def run(tier, seed):
    rep = Report("C19", tier, seed)
    proofs_ok = proof_stage(rep, "C19")
    rng = random.Random(seed)
    texts, fails = [], 0
    # ---- any_iter: all 12 shapes x lengths 0..6 x every number of consumer steps
    for n in range(0, 7):
        base = mk_items(n)
        for outer, cont, iaw in itertools.product([False, True], ["list", "iter", "async", "aiterable"], [False, True]):
            results = []
            for take in range(0, n + 2):
                log = []
                obj, its = build(log, outer, cont, iaw, base)
                try:
                    got = drive(take_n(a.any_iter(obj), take, log))
                    err = None
                except BaseException as e:  # noqa
                    got, err = None, e
                close_unawaited(its + [obj])
                rep.count(("any_iter", n, outer, cont, iaw, take), n > 0 and take > 0, sample={"op": "any_iter", "outer_awaitable": outer, "container": cont, "items_awaitable": iaw, "n": n, "take": take})
                want = base[:take]
                if err is not None or len(got) != len(want) or builtins.any(x is not y for x, y in builtins.zip(got, want)):
                    fails += 1
                    rep.violation("adapters:any_iter", {"shape": [outer, cont, iaw], "items": n, "take": take,
                                                       "why": "any_iter yielded %r, expected the first %d of the %d items (%r)" % (got, take, n, err)})
                    continue
                # laziness: item k is only awaited once the consumer asked for it
                awaited = [e[1] for e in log if e[0] == "awaititem"]
                if iaw and awaited != list(range(builtins.min(take, n))):
                    fails += 1
                    rep.violation("adapters:any_iter-lazy", {"shape": [outer, cont, iaw], "items": n, "take": take, "why": "items awaited: %r" % (awaited,)})
                    continue
                texts.append("CAnyIter (mkShape %s %s %s) [%s] %d [%s]" % (
                    "true" if outer else "false", {"list": "CList", "iter": "CIter", "async": "CAsync", "aiterable": "CAsync"}[cont], "true" if iaw else "false",
                    "; ".join(coq_val(x) for x in base), take, "; ".join(coq_ev(e) for e in log)))
    # ---- any_iter, further shapes (results only; the model covers the 12 shapes above): an iterable that only offers the
    # sequence protocol (__getitem__ from 0 until IndexError), and awaitable items that are no coroutines (objects with
    # __await__, like futures) -- from every kind of container, given directly or through an awaitable
    class GetItemSeq:
        def __init__(self, items):
            self._items = list(items)

        def __getitem__(self, i):
            return self._items[i]

    class AwItem:
        def __init__(self, log, k, v):
            self.log, self.k, self.v = log, k, v

        def __await__(self):
            self.log.append(("awaititem", self.k))
            return self.v
            yield
    for n in (0, 1, 4):
        base = mk_items(n)
        for outer, cont, kind in itertools.product([False, True], ["list", "iter", "async", "aiterable", "getitem"], ["plain", "coroutine", "awaitobj", "mixed"]):
            for take in sorted({0, 1, n, n + 1}):
                log = []
                if kind == "plain":
                    its = list(base)
                elif kind == "coroutine":
                    its = wrap_items(log, base, True)
                elif kind == "awaitobj":
                    its = [AwItem(log, k, v) for k, v in enumerate(base)]
                else:
                    its = [AwItem(log, k, v) if k % 2 else v for k, v in enumerate(base)]
                c = {"list": lambda: LogList(log, its), "iter": lambda: LogIter(log, its), "async": lambda: LogAsync(log, its),
                     "aiterable": lambda: LogAsyncIterable(log, its), "getitem": lambda: GetItemSeq(its)}[cont]()
                obj = c
                if outer:
                    async def o(c=c):
                        return c
                    obj = o()
                try:
                    got = drive(take_n(a.any_iter(obj), take, log))
                    err = None
                except BaseException as e:  # noqa
                    got, err = None, e
                close_unawaited(its + [obj])
                rep.count(("any_iter-shapes", n, outer, cont, kind, take), n > 0 and take > 0)
                want = base[:take]
                if err is not None or len(got) != len(want) or builtins.any(x is not y for x, y in builtins.zip(got, want)):
                    fails += 1
                    rep.violation("adapters:any_iter", {"shape": [outer, cont, kind], "items": n, "take": take,
                                                       "why": "any_iter over a %s container%s with %s items yielded %r, expected the first %d of the %d items (%r)"
                                                       % (cont, " given through an awaitable" if outer else "", kind, got, take, n, err)})
                    break
    # ---- any_iter over a caller-owned regular generator that the consumer leaves early: what was not asked for is still the
    # caller's (the generator is neither closed nor read ahead), given directly or through an awaitable
    for n in (1, 2, 5):
        base = mk_items(n)
        for outer in (False, True):
            for take in range(0, n + 1):
                def gen_of(xs):
                    for x in xs:
                        yield x
                g = gen_of(base)
                obj = g
                if outer:
                    async def o(g=g):
                        return g
                    obj = o()
                try:
                    got = drive(take_n(a.any_iter(obj), take, []))
                    rest = list(g)
                    err = None
                except BaseException as e:  # noqa
                    got, rest, err = None, None, e
                rep.count(("any_iter-owned-generator", n, outer, take), True)
                if err is not None or len(got) != take or rest is None or len(rest) != n - take or builtins.any(x is not y for x, y in builtins.zip(rest, base[take:])):
                    fails += 1
                    rep.violation("adapters:any_iter", {"shape": [outer, "generator", "plain"], "items": n, "take": take,
                                                       "why": "any_iter over a regular generator%s, closed after %d of %d items: yielded %r, the generator then still holds %r (expected the remaining %d items) (%r)"
                                                       % (" given through an awaitable" if outer else "", take, n, got, rest, n - take, err)})
                    break
    # ---- any_iter: plain items are passed through whatever they are -- also *classes* whose instances are awaitable (the
    # class object itself is not an awaitable), and sync() of a class whose instances have an async __call__ (calling the
    # class is a synchronous call that gives an instance)
    import asyncio as _asyncio

    class Job:
        def __await__(self):
            return 1
            yield

    class Handler:
        def __init__(self, x):
            self.x = x

        async def __call__(self):
            return self.x
    plain_classes = [Job, _asyncio.Future, int, Handler]
    for cont in ("list", "iter", "async", "aiterable"):
        for outer in (False, True):
            log = []
            c = {"list": lambda: LogList(log, plain_classes), "iter": lambda: LogIter(log, plain_classes), "async": lambda: LogAsync(log, plain_classes),
                 "aiterable": lambda: LogAsyncIterable(log, plain_classes)}[cont]()
            obj = c
            if outer:
                async def o(c=c):
                    return c
                obj = o()
            try:
                got = drive(take_n(a.any_iter(obj), 5, log))
                why = None if len(got) == 4 and builtins.all(x is y for x, y in builtins.zip(got, plain_classes)) else "yielded %r" % (got,)
            except BaseException as e:  # noqa
                why = "failed with %r" % (e,)
            rep.count(("any_iter-class-items", cont, outer), True)
            if why:
                fails += 1
                rep.violation("adapters:any_iter", {"shape": [outer, cont, "class objects"], "why": "any_iter over plain items that are classes (of awaitables, of callables, int): " + why})
    try:
        inst = drive(a.sync(Handler)(5))
        why = None if isinstance(inst, Handler) and inst.x == 5 else "await sync(Handler)(5) gave %r" % (inst,)
    except BaseException as e:  # noqa
        why = "await sync(Handler)(5) failed with %r" % (e,)
    rep.count(("sync-class-with-async-call",), True)
    if why:
        fails += 1
        rep.violation("adapters:sync", {"callable": "a class whose instances define async __call__", "why": why + " (calling the class is a synchronous call that returns an instance)"})
    # ---- await_each
    for n in range(0, 7):
        base = mk_items(n)
        for take in range(0, n + 2):
            log = []
            its = wrap_items(log, base, True)
            got = drive(take_n(a.await_each(LogIter(log, its)), take, log))
            close_unawaited(its)
            rep.count(("await_each", n, take), n > 0 and take > 0)
            awaited = [e[1] for e in log if e[0] == "awaititem"]
            # lazily: the k-th awaitable is taken from the source only when the consumer asks for the k-th result
            seq = [(e[0], e[1]) for e in log if e[0] in ("pull", "awaititem")]
            m_ = builtins.min(take, n)
            want_seq = [ev for i in range(m_) for ev in (("pull", i), ("awaititem", i))] + ([("pull", n)] if take > n else [])
            if seq != want_seq:
                fails += 1
                rep.violation("adapters:await_each", {"items": n, "take": take, "why": "taking from the source and awaiting interleave as %r, expected %r" % (seq, want_seq)})
                continue
            if builtins.any(x is not y for x, y in builtins.zip(got, base)) or len(got) != builtins.min(take, n) or awaited != list(range(builtins.min(take, n))):
                fails += 1
                rep.violation("adapters:await_each", {"items": n, "take": take, "why": "got %r, awaited %r: awaitables must be awaited one at a time, in order, only when asked" % (got, awaited)})
                continue
            texts.append("CAwaitEach [%s] %d [%s]" % ("; ".join(coq_val(x) for x in base), take, "; ".join(coq_ev(e) for e in log)))
    # ---- apply: all positional / keyword splits up to 4 arguments
    for na in range(0, 5):
        for nk in range(0, 5 - na):
            vals = mk_items(na + nk)
            log = []

            def aw(kind, k, v):
                async def c():
                    log.append((kind, k))
                    return v
                return c()
            names = ["k%d" % i for i in range(nk)]

            def f(*args, **kw):
                log.append(("call", list(args), [kw[nm] for nm in names]))
                return ("result", args, tuple(kw[nm] for nm in names))
            res = drive(a.apply(f, *[aw("awaitarg", i, vals[i]) for i in range(na)], **{names[i]: aw("awaitkw", i, vals[na + i]) for i in range(nk)}))
            rep.count(("apply", na, nk), na + nk > 1, sample={"op": "apply", "positional": na, "keyword": nk})
            if res != ("result", tuple(vals[:na]), tuple(vals[na:])) or builtins.any(x is not y for x, y in builtins.zip(res[1] + res[2], vals)):
                fails += 1
                rep.violation("adapters:apply", {"positional": na, "keyword": nk, "why": "apply returned %r" % (res,)})
                continue
            # the arguments are awaited like a call evaluates them: positional ones left to right, then the keywords in
            # the order given, then the function is called once
            order = [e[:2] for e in log]
            want = [("awaitarg", i) for i in range(na)] + [("awaitkw", i) for i in range(nk)] + [("call", list(vals[:na]))]
            if order != want:
                fails += 1
                rep.violation("adapters:apply", {"positional": na, "keyword": nk, "why": "order of awaiting the arguments and calling: %r, expected %r" % (order, want)})
                continue
            texts.append("CApply [%s] [%s] [%s]" % ("; ".join(coq_val(x) for x in vals[:na]), "; ".join(coq_val(x) for x in vals[na:]), "; ".join(coq_ev(e) for e in log)))
    # apply awaits every argument it is given, each one individually: awaitable *objects* that compare equal to each other
    # (value objects) or that are unhashable are arguments like any other
    class _ValAw:
        def __init__(self, name, v):
            self.name, self.v = name, v

        def __await__(self):
            return self.v
            yield

        def __eq__(self, other):
            return isinstance(other, _ValAw) and self.name == other.name

        def __hash__(self):
            return hash(self.name)

    class _UnhashAw(_ValAw):
        __hash__ = None
    for cls_ in (_ValAw, _UnhashAw):
        for npos in range(0, 4):
            vals = [cls_("q", i + 1) for i in range(3)]
            kw = {"k%d" % i: v for i, v in enumerate(vals[npos:])}
            try:
                got = drive(a.apply(lambda *p, **k: (p, tuple(sorted(k.items()))), *vals[:npos], **kw))
                want = (tuple(v.v for v in vals[:npos]), tuple(sorted((k_, v.v) for k_, v in kw.items())))
                why = None if got == want else "apply called the function with %r, expected %r" % (got, want)
            except BaseException as e:  # noqa
                why = "apply failed with %r" % (e,)
            rep.count(("apply-value-awaitables", cls_.__name__, npos), True)
            if why:
                fails += 1
                rep.violation("adapters:apply", {"awaitables": "equal-but-distinct" if cls_ is _ValAw else "unhashable", "positional": npos, "keyword": 3 - npos, "why": why})
                break
    # ---- sync: same result / exception; coroutine functions returned unchanged
    class Boom(TypeError):       # (a TypeError, which an adapter might be tempted to handle for its own purposes)
        pass

    async def coro_fn(x):
        if x < 0:
            raise Boom()
        return x + 1

    def plain(x):
        if x < 0:
            raise Boom()
        return x + 1

    class CallObj:
        def __call__(self, x):
            return coro_fn(x)

    class FutureLike:
        def __init__(self, x):
            self.x = x

        def __await__(self):
            if self.x < 0:
                raise Boom()
            return self.x + 1
            yield

    # decorated callables: what counts is the callable itself, not what its __wrapped__ chain leads to
    @functools.wraps(coro_fn)
    def plain_front_of_async(x):          # a plain function carrying __wrapped__ = an async def
        return plain(x)

    @functools.wraps(plain)
    async def async_front_of_plain(x):    # an async def carrying __wrapped__ = a plain function
        return plain(x)

    cases = [("def wrapping (functools.wraps) an async def", plain_front_of_async, False),
             ("async def wrapping (functools.wraps) a def", async_front_of_plain, True),
             ("sync(sync(def))", a.sync(plain), True),
             ("async def", coro_fn, True), ("def", plain, False), ("partial(async def)", functools.partial(coro_fn), None), ("callable object", CallObj(), False),
             ("lambda returning awaitable object", lambda x: FutureLike(x), False), ("lambda returning coroutine", lambda x: coro_fn(x), False)]
    for name, fn, unchanged in cases:
        s = a.sync(fn)
        rep.count(("sync", name), True, sample={"op": "sync", "input": name})
        why = None
        if unchanged is True and s is not fn:
            why = "a coroutine function must be returned unchanged"
        for x in (1, -1):
            try:
                r = ("ok", drive(s(x)))
            except Boom:
                r = ("boom",)
            except BaseException as e:  # noqa
                r = ("other", repr(e))
            want = ("ok", x + 1) if x >= 0 else ("boom",)
            if r != want and why is None:
                why = "sync(%s)(%d) gave %r, expected %r" % (name, x, r, want)
        if why:
            fails += 1
            rep.violation("adapters:sync", {"input": name, "why": why})
    # callable objects that compare equal (and hash alike) but behave differently, and unhashable ones: each gets its own wrapper
    class Offset:
        def __init__(self, name, by):
            self.name, self.by = name, by

        def __eq__(self, other):
            return isinstance(other, Offset) and other.name == self.name

        def __hash__(self):
            return hash(self.name)

        def __call__(self, x):
            return x + self.by

    class Unhashable:
        __hash__ = None

        def __call__(self, x):
            return x * 3
    try:
        got_eq = [drive(a.sync(Offset("shift", 1))(5)), drive(a.sync(Offset("shift", 100))(5)), drive(a.sync(Unhashable())(5))]
        why_eq = None if got_eq == [6, 105, 15] else "results %r, expected [6, 105, 15]" % (got_eq,)
    except BaseException as e:  # noqa
        why_eq = "failed with %r" % (e,)
    rep.count(("sync-equal-callables",), True)
    if why_eq:
        fails += 1
        rep.violation("adapters:sync", {"input": "equal-but-distinct and unhashable callable objects", "why": why_eq})
    # apply hands back what the function returned -- also when that is itself an awaitable (it is the function's result)

    class Deferred:
        def __init__(self):
            self.started = False

        def __await__(self):
            self.started = True
            return 6
            yield

    async def _one():
        return 1
    d_ = Deferred()
    try:
        r_ = drive(a.apply(lambda x, y=0: d_, _one(), y=_one()))
        why_ap = None if r_ is d_ and not d_.started else "apply returned %r (the function's awaitable result was %s)" % (r_, "awaited" if d_.started else "not returned")
    except BaseException as e:  # noqa
        why_ap = "failed with %r" % (e,)
    rep.count(("apply-awaitable-result",), True)
    if why_ap:
        fails += 1
        rep.violation("adapters:apply", {"why": why_ap})
    # a callable whose results are sometimes plain and sometimes awaitable: every call individually gives the result
    for first_plain in (True, False):
        seq = [first_plain, not first_plain, not first_plain, first_plain]

        def mixed(i):
            return (i + 1) * 5 if seq[i] else coro_fn((i + 1) * 5 - 1)
        s = a.sync(mixed)
        got = []
        for i in range(4):
            try:
                got.append(drive(s(i)))
            except BaseException as e:  # noqa
                got.append(repr(e))
        rep.count(("sync-mixed", first_plain), True)
        if got != [5, 10, 15, 20]:
            fails += 1
            rep.violation("adapters:sync", {"input": "callable returning plain values on some calls and awaitables on others", "why": "results %r, expected [5, 10, 15, 20]" % (got,)})
    # any_iter of an awaitable that is also iterable (like asyncio.Future / Task, whose __iter__ is __await__)
    class FutureOfIterable:
        def __init__(self, value):
            self.value = value

        def __await__(self):
            return self.value
            yield

        __iter__ = __await__
    for cont in ("list", "async"):
        base = mk_items(3)
        log = []
        c = LogList(log, base) if cont == "list" else LogAsync(log, base)
        try:
            got = drive(take_n(a.any_iter(FutureOfIterable(c)), 5, log))
        except BaseException as e:  # noqa
            got = repr(e)
        rep.count(("any_iter-future", cont), True)
        if not (isinstance(got, list) and len(got) == 3 and builtins.all(x is y for x, y in builtins.zip(got, base))):
            fails += 1
            rep.violation("adapters:any_iter", {"shape": "an awaitable that also defines __iter__ (Future-like) resolving to a %s" % cont, "why": "any_iter yielded %r" % (got,)})
    if not callable(a.sync) or _raises(lambda: a.sync(3)) is not TypeError:
        fails += 1
        rep.violation("adapters:sync", {"why": "sync(non-callable) must raise TypeError"})
    shards = [texts[i:i + 400] for i in range(0, len(texts), 400)]
    outs = coq_eval_files("c19", [HEADER + "Definition cases : list acase := [\n" + ";\n".join(sh) + "\n].\nEval vm_compute in (afailing cases).\n" for sh in shards])
    mism = 0
    for sh, (rc, out) in builtins.zip(shards, outs):
        f = parse_nat_list(out) if rc == 0 else None
        if f is None:
            rep.violation("coq-eval", {"broken": "correspondence evaluation failed", "log": out[-1500:]}, no_input=True)
            break
        mism += len(f)
        for j in f[:2]:
            rep.violation("adapters:model-mismatch", {"broken": "correspondence impl<->Model/Adapters.v", "case": sh[j][:3000]}, no_input=not rep.has_failing_input())
    rep.cov["traces_validated_against_impl"] = len(texts)
    rep.cov["exhaustive"] = True
    rep.notes["model_mismatches"] = mism
    import kwprobe
    kwprobe.probe(rep, "apply", "adapters:kwargs")
    kwprobe.probe(rep, "sync", "adapters:kwargs")
    if not proofs_ok:
        rep.violation("proof-broken", {"broken": rep.notes.get("broken_file", "?"), "log": rep.notes.get("build_log_tail", "")[-1500:]}, no_input=True)
    return rep.finish()


def _raises(f):
    try:
        f()
    except BaseException as e:  # noqa
        return type(e)
    return None
