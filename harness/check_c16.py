"""C16: groupby vs itertools.groupby under every pattern of consuming groups."""
import builtins
import itertools
import random

import common
from common import Report, proof_stage, coq_eval_files, parse_nat_list
import gencalc as G
from gencalc import Obj, coq_val, coq_fn, coq_opt, apply_fn, drive
import asyncstdlib as a

HEADER = """From Coq Require Import List ZArith NArith Bool.
Import ListNotations.
Require Import V.Kernel.Values V.Kernel.Fn V.Model.GroupBy V.Model.GroupByCase.
Local Open Scope nat_scope.
"""
KEYS = [None, ("KeyDiv", 2), ("KeyDiv", 1), ("TruthMod", 2, 0), ("NegKey",), ("NoneIfMod", 2, 0), ("NoneIfMod", 3, 1), ("Const", None)]


class CountSrc:
    def __init__(self, items):
        self.items = list(items)
        self.pulls = 0
        self.closes = 0

    def __aiter__(self):
        return self

    async def __anext__(self):
        self.pulls += 1
        if self.closes or not self.items:
            raise StopAsyncIteration
        return self.items.pop(0)

    async def aclose(self):
        self.closes += 1


def keyfun(spec, flavour):
    if spec is None:
        return None
    if flavour == "async":
        async def k(x):
            return apply_fn(spec, [x])
        return k
    return lambda x: apply_fn(spec, [x])


def run_impl(items, key, flavour, ops):
    src = CountSrc(items)
    gb = a.groupby(src, key=keyfun(key, flavour)) if key is not None else a.groupby(src)
    groups = []
    obs = []

    async def go():
        for op in ops:
            try:
                if op[0] == "adv":
                    k, g = await gb.__anext__()
                    groups.append(g)
                    obs.append(("new", k, len(groups) - 1))
                elif op[0] == "grp":
                    if op[1] < len(groups):
                        obs.append(("item", await groups[op[1]].__anext__()))
                    else:
                        obs.append(("stop",))
                elif op[0] == "gclose":
                    if op[1] < len(groups):
                        await groups[op[1]].aclose()
                    obs.append(("done",))
                elif op[0] == "close":
                    await gb.aclose()
                    obs.append(("done",))
            except StopAsyncIteration:
                obs.append(("stop",))
            except BaseException as e:  # noqa
                obs.append(("error", type(e).__name__, str(e)))
    drive(go())
    return obs, src.pulls, src.closes


def run_std(items, key, ops):
    gb = itertools.groupby(list(items), key=(lambda x: apply_fn(key, [x])) if key is not None else None)
    groups = []
    obs = []
    for op in ops:
        try:
            if op[0] == "adv":
                k, g = next(gb)
                groups.append(g)
                obs.append(("new", k, len(groups) - 1))
            elif op[0] == "grp":
                if op[1] < len(groups):
                    obs.append(("item", next(groups[op[1]])))
                else:
                    obs.append(("stop",))
        except StopIteration:
            obs.append(("stop",))
    return obs


class KeyFault(Exception):
    pass


FAULT_TYPES = [KeyFault, AttributeError, KeyError, TypeError, ValueError, LookupError]


def fault_run(items, ops, where, k, exc):
    """C06 for groupby: the source (where='src') or the key function (where='key') raises `exc` at its k-th use;
    the operation during which that happens must raise that very object; before it asyncstdlib and itertools agree"""
    def mk(lib):
        n = {"src": 0, "key": 0}

        def use(kind):
            n[kind] += 1
            if kind == where and n[kind] == k:
                raise exc
        if lib == "asl":
            class S:
                def __init__(s):
                    s.items = list(items)

                def __aiter__(s):
                    return s

                async def __anext__(s):
                    use("src")
                    if not s.items:
                        raise StopAsyncIteration
                    return s.items.pop(0)

            async def key(x):
                use("key")
                return x.key // 2
            return a.groupby(S(), key=key)

        def gen():
            for x in list(items):
                use("src")
                yield x
            use("src")

        def key(x):
            use("key")
            return x.key // 2
        return itertools.groupby(gen(), key=key)

    def drive_ops(lib):
        gb = mk(lib)
        groups, obs = [], []

        async def go():
            for op in ops:
                try:
                    if op[0] == "adv":
                        kk, g = (await gb.__anext__()) if lib == "asl" else next(gb)
                        groups.append(g)
                        obs.append(("new", kk, len(groups) - 1))
                    elif op[1] < len(groups):
                        obs.append(("item", (await groups[op[1]].__anext__()) if lib == "asl" else next(groups[op[1]])))
                    else:
                        obs.append(("stop",))
                except (StopAsyncIteration, StopIteration):
                    obs.append(("stop",))
                except BaseException as e:  # noqa
                    obs.append(("raise", e is exc, type(e).__name__))
                    return
        drive(go())
        return obs
    return drive_ops("asl"), drive_ops("std")


def coq_obs(o):
    if o[0] == "new":
        return "ONewGroup %s %d" % (coq_val(o[1]), o[2])
    if o[0] == "item":
        return "OItem %s" % coq_val(o[1])
    if o[0] == "stop":
        return "OStop"
    if o[0] == "done":
        return "ODone"
    raise ValueError(o)


def coq_op(op):
    return {"adv": "GAdv", "close": "GClose"}.get(op[0]) or ("GGroup %d" % op[1] if op[0] == "grp" else "GGroupClose %d" % op[1])


def same_obs(x, y):
    if x[0] != y[0] or len(x) != len(y):
        return False
    return builtins.all(G.same_val(p, q) if not isinstance(p, (int, str)) or isinstance(p, bool) else p == q for p, q in builtins.zip(x[1:], y[1:]))


def gen_case(rng, tier, with_close):
    n = rng.randrange(0, 11)
    nk = rng.choice([2, 3, 4])
    items = [Obj(i + 1, rng.randrange(nk)) for i in range(n)]
    # runs of equal keys are what matters: sometimes sort-ish blocks
    if rng.random() < 0.5:
        keys = []
        while len(keys) < n:
            keys += [rng.randrange(nk)] * rng.randrange(1, 4)
        items = [Obj(i + 1, keys[i]) for i in range(n)]
    key = rng.choice(KEYS)
    nops = rng.randrange(1, 16)
    ops = []
    created = 0
    for _ in range(nops):
        r = rng.random()
        if r < 0.4 or created == 0 and r < 0.8:
            ops.append(("adv",))
            created += 1
        elif r < 0.93 or not with_close:
            # mostly the newest group, sometimes a stale one, rarely one that does not exist yet
            i = created - 1 if rng.random() < 0.6 else rng.randrange(0, created + 1)
            ops.append(("grp", builtins.max(i, 0)))
        elif r < 0.97:
            ops.append(("gclose", rng.randrange(0, created + 1)))
        else:
            ops.append(("close",))
    return items, key, ops


def exhaustive_ops(maxlen):
    """all operation sequences up to maxlen over {adv, grp 0..2}"""
    alphabet = [("adv",), ("grp", 0), ("grp", 1), ("grp", 2)]
    for n in range(1, maxlen + 1):
        for seq in itertools.product(alphabet, repeat=n):
            yield list(seq)


def run(tier, seed):
    rep = Report("C16", tier, seed)
    proofs_ok = proof_stage(rep, "C16")
    rng = random.Random(seed)
    cases = []
    # corpus: the unstarted-close defect fixed in /repo, and stale-group patterns
    A = [Obj(1, 1), Obj(2, 1), Obj(3, 2), Obj(4, 1), Obj(5, 1)]
    cases.append((A, None, [("close",)]))
    cases.append((A, None, [("adv",), ("adv",), ("adv",), ("grp", 0), ("grp", 2), ("grp", 2), ("grp", 2)]))
    cases.append((A[:3], None, [("adv",), ("adv",), ("adv",), ("grp", 0), ("grp", 1)]))
    cases.append((A, ("KeyDiv", 2), [("adv",), ("grp", 0), ("adv",), ("grp", 0), ("grp", 1), ("adv",), ("grp", 1)]))
    nrand = 1500 * common.scale(rep) if tier == "quick" else 40000
    for _ in range(nrand):
        cases.append(gen_case(rng, tier, with_close=rng.random() < 0.3))
    small = [[Obj(i + 1, k) for i, k in enumerate(ks)] for n in range(0, 5) for ks in itertools.product(range(2), repeat=n)]
    for ops in exhaustive_ops(4 if tier == "quick" else 6):
        items = small[rng.randrange(len(small))] if tier == "quick" else None
        if items is not None:
            cases.append((items, None, ops))
        else:
            for it in small[::3]:
                cases.append((it, None, ops))
    texts = []
    fails = 0
    lens = {}
    for items, key, ops in cases:
        flavour = rng.choice(["sync", "async"])
        obs, pulls, closes = run_impl(items, key, flavour, ops)
        adv_only = builtins.all(o[0] in ("adv", "grp") for o in ops)
        std = run_std(items, key, ops) if adv_only else None
        lens[len(ops)] = lens.get(len(ops), 0) + 1
        rep.count((repr(items), key, tuple(ops)), len(items) > 1 and len(ops) > 2,
                  sample={"items": repr(items), "key": key, "ops": ops, "obs": repr(obs)})
        bad = None
        if builtins.any(o[0] == "error" for o in obs):
            bad = "operation failed: %r" % ([o for o in obs if o[0] == "error"][:1],)
        elif std is not None and not (len(std) == len(obs) and builtins.all(same_obs(x, y) for x, y in builtins.zip(obs, std))):
            bad = "differs from itertools.groupby: impl %r std %r" % (obs, std)
        elif ops and ops[-1][0] == "close" and closes < 1:
            bad = "aclose did not close the source"
        if bad:
            fails += 1
            rep.violation("groupby:%s" % ("error" if "failed" in bad else "values"),
                          {"items": repr(items), "key": key, "ops": ops, "why": bad})
            continue
        texts.append("(mkGC [%s] %s [%s] [%s] %d %d %s)" % (
            "; ".join(coq_val(x) for x in items), coq_opt(key, coq_fn), "; ".join(coq_op(o) for o in ops),
            "; ".join(coq_obs(o) for o in obs), pulls, closes,
            "None" if std is None else "(Some [%s])" % "; ".join(coq_obs(o) for o in std)))
    # errors from the source or the key function surface unchanged where itertools.groupby would raise (C06 for groupby)
    for _ in range(300 * common.scale(rep) if tier == "quick" else 6000):
        items, key, ops = gen_case(rng, tier, with_close=False)
        where = rng.choice(["src", "key"])
        k = rng.randrange(1, len(items) + 3)
        exc = rng.choice(FAULT_TYPES)("injected")
        oa, os_ = fault_run(items, ops, where, k, exc)
        rep.count(("fault", repr(items), tuple(ops), where, k, type(exc).__name__), True)
        bad = None
        fired_std = os_ and os_[-1][0] == "raise"
        if fired_std:
            if not (oa and oa[-1][0] == "raise" and oa[-1][1]) or len(oa) != len(os_):
                bad = "itertools.groupby raises the injected %s at operation %d; asyncstdlib: %r" % (type(exc).__name__, len(os_) - 1, oa[-2:])
            elif not builtins.all(same_obs(x, y) for x, y in builtins.zip(oa[:-1], os_[:-1])):
                bad = "observations before the fault differ: %r vs %r" % (oa, os_)
        elif oa and oa[-1][0] == "raise" and not oa[-1][1]:
            bad = "asyncstdlib raised a different exception: %r" % (oa[-1],)
        if bad:
            fails += 1
            rep.violation("groupby:fault", {"items": repr(items), "ops": ops, "fault": [where, k, type(exc).__name__], "why": bad})
    rep.notes["ops_length_distribution"] = lens
    shards = [texts[i:i + 500] for i in range(0, len(texts), 500)]
    outs = coq_eval_files("c16", [HEADER + "Definition cases : list gcase := [\n" + ";\n".join(sh) + "\n].\nEval vm_compute in (gfailing cases).\n" for sh in shards])
    mism = 0
    for si, (sh, (rc, out)) in enumerate(builtins.zip(shards, outs)):
        f = parse_nat_list(out) if rc == 0 else None
        if f is None:
            rep.violation("coq-eval", {"broken": "correspondence evaluation failed", "log": out[-1500:]}, no_input=True)
            break
        mism += len(f)
        for j in f[:2]:
            rep.violation("groupby:model-mismatch", {"broken": "correspondence impl<->Model/GroupBy.v (or itertools<->spec)", "case": sh[j]}, no_input=not fails)
    rep.cov["traces_validated_against_impl"] = len(texts)
    rep.notes["model_mismatches"] = mism
    if not proofs_ok:
        rep.violation("proof-broken", {"broken": rep.notes.get("broken_file", "?"), "log": rep.notes.get("build_log_tail", "")[-1500:]}, no_input=True)
    return rep.finish()
