"""C16: groupby vs itertools.groupby under every pattern of consuming groups."""
import builtins
import itertools
import random

import common
from common import Report, proof_stage, coq_eval_files, parse_nat_list
import gencalc as G
from gencalc import Obj, coq_val, coq_fn, coq_opt, apply_fn, drive
import asyncstdlib as a

HEADER = """From Coq Require Import List ZArith NArith Bool.
Import ListNotations.
Require Import V.Kernel.Values V.Kernel.Fn V.Model.GroupBy V.Model.GroupByCase.
Local Open Scope nat_scope.
"""
KEYS = [None, ("KeyDiv", 2), ("KeyDiv", 1), ("TruthMod", 2, 0), ("NegKey",), ("NoneIfMod", 2, 0), ("NoneIfMod", 3, 1), ("Const", None)]


class CountSrc:
    def __init__(self, items):
        self.items = list(items)
        self.pulls = 0
        self.closes = 0

    def __aiter__(self):
        return self

    async def __anext__(self):
        self.pulls += 1
        if self.closes or not self.items:
            raise StopAsyncIteration
        return self.items.pop(0)

    async def aclose(self):
        self.closes += 1


class CountProxy:
    """only the iteration protocol is defined on the class; aclose and the counters come through __getattr__"""

    def __init__(self, inner):
        self.__dict__["_inner"] = inner

    def __aiter__(self):
        return self

    def __anext__(self):
        return self._inner.__anext__()

    def __getattr__(self, name):
        return getattr(self.__dict__["_inner"], name)


def keyfun(spec, flavour):
    if spec is None:
        return None
    if flavour in ("async", "lambda-coro", "object", "awaitobj", "object-equal"):
        async def k(x):
            return apply_fn(spec, [x])
        if flavour == "awaitobj":
            class _Aw:                             # an awaitable that is no coroutine (like a Future)
                def __init__(self, v):
                    self.v = v

                def __await__(self):
                    return self.v
                    yield
            return lambda x: _Aw(apply_fn(spec, [x]))
        if flavour == "object-equal":
            class KE:                              # value-like callable objects: all equal, same hash, different behaviour
                async def __call__(self, x):
                    return apply_fn(spec, [x])

                def __eq__(self, other):
                    return type(other).__name__ == "KE"

                def __hash__(self):
                    return 3
            return KE()
        if flavour == "lambda-coro":
            return lambda x: k(x)                  # a plain function handing out a coroutine
        if flavour == "object":
            class K:
                async def __call__(self, x):       # an object whose __call__ is async
                    return apply_fn(spec, [x])
            return K()
        return k
    return lambda x: apply_fn(spec, [x])


def run_impl(items, key, flavour, ops):
    src = CountSrc(items)
    if (len(items) + len(ops)) % 3 == 2:
        src = CountProxy(src)
    gb = a.groupby(src, key=keyfun(key, flavour)) if key is not None else a.groupby(src)
    holder = [gb]
    del gb
    groups = []
    obs = []

    async def go():
        for op in ops:
            try:
                if obs and obs[-1][0] == "new" and not (obs[-1][1] is None or isinstance(obs[-1][1], (int, tuple, bool, Obj))):
                    obs[-1] = ("error", "key-type", "groupby handed out a key of type %s" % type(obs[-1][1]).__name__)
                if op[0] == "drop":
                    # the caller lets go of the groupby object and keeps only the groups it has
                    holder[0] = None
                    import gc
                    gc.collect()
                elif op[0] == "adv":
                    k, g = await holder[0].__anext__()
                    groups.append(g)
                    obs.append(("new", k, len(groups) - 1))
                elif op[0] == "grp":
                    if op[1] < len(groups):
                        got = await groups[op[1]].__anext__()
                        if builtins.any(got is x for x in items):
                            obs.append(("item", got))
                        else:
                            obs.append(("error", "foreign-item", "a group handed out %s, which is not an item of the source" % type(got).__name__))
                    else:
                        obs.append(("stop",))
                elif op[0] == "gclose":
                    if op[1] < len(groups):
                        await groups[op[1]].aclose()
                    obs.append(("done",))
                elif op[0] == "close":
                    await holder[0].aclose()
                    obs.append(("done",))
            except StopAsyncIteration:
                obs.append(("stop",))
            except BaseException as e:  # noqa
                obs.append(("error", type(e).__name__, str(e)))
    drive(go())
    return obs, src.pulls, src.closes


def run_std(items, key, ops):
    gb = itertools.groupby(list(items), key=(lambda x: apply_fn(key, [x])) if key is not None else None)
    groups = []
    obs = []
    for op in ops:
        try:
            if op[0] == "drop":
                gb = None
            elif op[0] == "adv":
                k, g = next(gb)
                groups.append(g)
                obs.append(("new", k, len(groups) - 1))
            elif op[0] == "grp":
                if op[1] < len(groups):
                    obs.append(("item", next(groups[op[1]])))
                else:
                    obs.append(("stop",))
        except StopIteration:
            obs.append(("stop",))
    return obs


class KeyFault(Exception):
    pass


FAULT_TYPES = [KeyFault, AttributeError, KeyError, TypeError, ValueError, LookupError]


def fault_run(items, ops, where, k, exc):
    """C06 for groupby: the source (where='src') or the key function (where='key') raises `exc` at its k-th use;
    the operation during which that happens must raise that very object; before it asyncstdlib and itertools agree"""
    def mk(lib):
        n = {"src": 0, "key": 0}

        def use(kind):
            n[kind] += 1
            if kind == where and n[kind] == k:
                raise exc
        if lib == "asl":
            class S:
                def __init__(s):
                    s.items = list(items)

                def __aiter__(s):
                    return s

                async def __anext__(s):
                    use("src")
                    if not s.items:
                        raise StopAsyncIteration
                    return s.items.pop(0)

            async def key(x):
                use("key")
                return x.key // 2
            return a.groupby(S(), key=key)

        def gen():
            for x in list(items):
                use("src")
                yield x
            use("src")

        def key(x):
            use("key")
            return x.key // 2
        return itertools.groupby(gen(), key=key)

    def drive_ops(lib):
        gb = mk(lib)
        groups, obs = [], []

        async def go():
            for op in ops:
                try:
                    if op[0] == "adv":
                        kk, g = (await gb.__anext__()) if lib == "asl" else next(gb)
                        groups.append(g)
                        obs.append(("new", kk, len(groups) - 1))
                    elif op[1] < len(groups):
                        obs.append(("item", (await groups[op[1]].__anext__()) if lib == "asl" else next(groups[op[1]])))
                    else:
                        obs.append(("stop",))
                except (StopAsyncIteration, StopIteration):
                    obs.append(("stop",))
                except BaseException as e:  # noqa
                    obs.append(("raise", e is exc, type(e).__name__))
                    if where != "key":
                        return
                    # a failing key does not end anything: the consumer may carry on, the item whose key failed is gone
                    # (a source that failed is a different matter: a generator is finished by its own exception)
        drive(go())
        return obs
    return drive_ops("asl"), drive_ops("std")


def lazy_run(items, key, ops):
    """C05 for groupby: after every operation the number of items taken from the source and the number of key
    function calls are those of itertools.groupby (same operations)"""
    def mk(lib):
        n = {"src": 0, "key": 0}
        trace = []
        if lib == "asl":
            class S:
                def __init__(s):
                    s.items = list(items)

                def __aiter__(s):
                    return s

                async def __anext__(s):
                    n["src"] += 1
                    if not s.items:
                        raise StopAsyncIteration
                    return s.items.pop(0)

            async def kf(x):
                n["key"] += 1
                return apply_fn(key, [x]) if key is not None else x.key
            gb = a.groupby(S(), key=kf)
        else:
            class I:       # class-based: a re-poll after exhaustion is counted, as for the async source
                def __init__(s):
                    s.items = list(items)

                def __iter__(s):
                    return s

                def __next__(s):
                    n["src"] += 1
                    if not s.items:
                        raise StopIteration
                    return s.items.pop(0)

            def kf(x):
                n["key"] += 1
                return apply_fn(key, [x]) if key is not None else x.key
            gb = itertools.groupby(I(), key=kf)
        groups = []

        async def go():
            for op in ops:
                try:
                    if op[0] == "adv":
                        kk, g = (await gb.__anext__()) if lib == "asl" else next(gb)
                        groups.append(g)
                    elif op[1] < len(groups):
                        (await groups[op[1]].__anext__()) if lib == "asl" else next(groups[op[1]])
                except (StopAsyncIteration, StopIteration):
                    pass
                except BaseException as e:  # noqa  (an operation that fails is an observation, not a reason to stop checking)
                    trace.append(("failed", type(e).__name__))
                    return
                trace.append((n["src"], n["key"]))
        drive(go())
        return trace
    return mk("asl"), mk("std")


def aspect_lazy(rep, rng, n):
    """called by the C05 check as well"""
    fails = 0
    for _ in range(n):
        items, key, ops = gen_case(rng, "quick", with_close=False)
        ops = [o for o in ops if o[0] != "drop"]
        ta, ts = lazy_run(items, key, ops)
        rep.count(("gb-lazy", repr(items), key, tuple(ops)), len(items) > 1 and len(ops) > 2)
        if ta != ts:
            fails += 1
            rep.violation("groupby:laziness", {"items": repr(items), "key": key, "ops": ops,
                                               "why": "(source pulls, key calls) after each operation: asyncstdlib %r itertools %r" % (ta, ts)})
    return fails


def aspect_faults(rep, rng, n):
    """C06 for groupby (called by the C06 check as well): errors of the source or the key function surface unchanged
    where itertools.groupby would raise"""
    fails = 0
    for _ in range(n):
        items, key, ops = gen_case(rng, "quick", with_close=False)
        ops = [o for o in ops if o[0] != "drop"]
        where = rng.choice(["src", "key"])
        k = rng.randrange(1, len(items) + 3)
        exc = rng.choice(FAULT_TYPES)("injected")
        oa, os_ = fault_run(items, ops, where, k, exc)
        rep.count(("fault", repr(items), tuple(ops), where, k, type(exc).__name__), True)
        bad = None
        fired_std = builtins.any(o[0] == "raise" for o in os_)
        if fired_std:
            if len(oa) != len(os_):
                bad = "itertools.groupby: %r; asyncstdlib: %r" % (os_, oa)
            else:
                for i, (x, y) in enumerate(builtins.zip(oa, os_)):
                    if y[0] == "raise":
                        if not (x[0] == "raise" and x[1]):
                            bad = "itertools.groupby raises the injected %s at operation %d; asyncstdlib: %r" % (type(exc).__name__, i, x)
                            break
                    elif x[0] == "raise" or not same_obs(x, y):
                        bad = "observation %d differs (the key failed at its use %d and the consumer carried on): asyncstdlib %r, itertools %r" % (i, k, oa, os_)
                        break
        elif builtins.any(o[0] == "raise" and not o[1] for o in oa):
            bad = "asyncstdlib raised a different exception: %r" % ([o for o in oa if o[0] == "raise"][:1],)
        if bad:
            fails += 1
            rep.violation("groupby:fault", {"items": repr(items), "ops": ops, "fault": [where, k, type(exc).__name__], "why": bad})
    return fails


class _Tok:
    def __init__(self, t):
        self.t = t

    def __await__(self):
        yield self.t


class _Cancel(BaseException):
    pass


def release_run(items, key, ops, cancel_at):
    """C04/C18 for groupby: the source suspends at every pull and in aclose; the operations run; optionally an
    exception is thrown into the operation in progress at its `cancel_at`-th suspension; then the owner calls
    groupby.aclose(). Returns (suspensions seen, source closes, source open?, error)"""
    class S:
        def __init__(s):
            s.items = list(items)
            s.closes = 0
            s.busy = False

        def __aiter__(s):
            return s

        async def __anext__(s):
            await _Tok("pull")
            if s.closes or not s.items:
                raise StopAsyncIteration
            return s.items.pop(0)

        async def aclose(s):
            await _Tok("close")
            s.closes += 1
    src = S()

    async def kf(x):
        await _Tok("key")
        return apply_fn(key, [x]) if key is not None else x.key
    gb = a.groupby(src, key=kf)
    groups = []
    susp = [0]
    err = [None]

    def run_coro(coro, may_cancel):
        try:
            v = coro.send(None)
            while True:
                susp[0] += 1
                if may_cancel and susp[0] == cancel_at:
                    coro.throw(_Cancel())
                    err[0] = "cancellation swallowed"
                    return "swallowed"
                v = coro.send(None)
        except StopIteration as e:
            return ("ok", e.value)
        except StopAsyncIteration:
            return ("stop",)
        except _Cancel:
            return "cancelled"
        except BaseException as e:  # noqa
            err[0] = "%s: %s" % (type(e).__name__, e)
            return "error"
    for op in ops:
        if op[0] == "adv":
            r = run_coro(gb.__anext__(), True)
            if isinstance(r, tuple) and r[0] == "ok":
                groups.append(r[1][1])
        elif op[0] == "grp" and op[1] < len(groups):
            r = run_coro(groups[op[1]].__anext__(), True)
        elif op[0] == "gclose" and op[1] < len(groups):
            r = run_coro(groups[op[1]].aclose(), True)
        else:
            continue
        if r in ("cancelled", "swallowed", "error"):
            break
    r = run_coro(gb.aclose(), False)
    return susp[0], src.closes, err[0], r


def aspect_release(rep, rng, n, cancel):
    """called by the C04 (cancel=False) and C18 (cancel=True) checks as well"""
    fails = 0
    for _ in range(n):
        items, key, ops = gen_case(rng, "quick", with_close=True)
        ops = [o for o in ops if o[0] != "close"]
        if rng.random() < 0.15:
            ops = ops[:rng.randrange(0, 2)]        # unstarted or barely started
        total, closes, err, r = release_run(items, key, ops, None)
        positions = [None] if not cancel else list(range(1, total + 1))
        if len(positions) > 12:
            positions = rng.sample(positions, 12)
        for pos in positions:
            if pos is not None:
                total, closes, err, r = release_run(items, key, ops, pos)
            rep.count(("gb-release", repr(items), key, tuple(ops), pos), True)
            bad = None
            if err and pos is None:
                bad = "operation failed: %s" % err
            elif err == "cancellation swallowed":
                bad = "an exception thrown at suspension %d did not propagate" % pos
            elif r == "error":
                bad = "groupby.aclose() failed: %s" % err
            elif closes != 1:
                bad = "after groupby.aclose() the source was closed %d times" % closes
            if bad:
                fails += 1
                rep.violation("groupby:release", {"items": repr(items), "key": key, "ops": ops, "cancel_at_suspension": pos, "why": bad})
                break
    return fails


def coq_obs(o):
    if o[0] == "new":
        return "ONewGroup %s %d" % (coq_val(o[1]), o[2])
    if o[0] == "item":
        return "OItem %s" % coq_val(o[1])
    if o[0] == "stop":
        return "OStop"
    if o[0] == "done":
        return "ODone"
    raise ValueError(o)


def coq_op(op):
    return {"adv": "GAdv", "close": "GClose"}.get(op[0]) or ("GGroup %d" % op[1] if op[0] == "grp" else "GGroupClose %d" % op[1])


def same_obs(x, y):
    if x[0] != y[0] or len(x) != len(y):
        return False
    return builtins.all(G.same_val(p, q) if not isinstance(p, (int, str)) or isinstance(p, bool) else p == q for p, q in builtins.zip(x[1:], y[1:]))


def gen_case(rng, tier, with_close, primitives=False):
    n = rng.randrange(0, 11)
    nk = rng.choice([2, 3, 4])
    items = [Obj(i + 1, rng.randrange(nk)) for i in range(n)]
    # runs of equal keys are what matters: sometimes sort-ish blocks
    if rng.random() < 0.5:
        keys = []
        while len(keys) < n:
            keys += [rng.randrange(nk)] * rng.randrange(1, 4)
        items = [Obj(i + 1, keys[i]) for i in range(n)]
    key = rng.choice(KEYS)
    if primitives and rng.random() < 0.35:
        # plain values grouped by themselves, None among them: an item is whatever the source hands out
        key = None
        pool = [None, 0, 1, 2, (), (1,)]
        items = []
        while len(items) < n:
            items += [rng.choice(pool)] * rng.randrange(1, 4)
        items = items[:n]
    nops = rng.randrange(1, 16)
    ops = []
    created = 0
    for _ in range(nops):
        r = rng.random()
        if r < 0.4 or created == 0 and r < 0.8:
            ops.append(("adv",))
            created += 1
        elif r < 0.93 or not with_close:
            # mostly the newest group, sometimes a stale one, rarely one that does not exist yet
            i = created - 1 if rng.random() < 0.6 else rng.randrange(0, created + 1)
            ops.append(("grp", builtins.max(i, 0)))
        elif r < 0.97:
            ops.append(("gclose", rng.randrange(0, created + 1)))
        else:
            ops.append(("close",))
    if not with_close and created and rng.random() < 0.12:
        # from some point on only the groups are kept, the groupby object itself is dropped
        j = rng.randrange(1, len(ops) + 1)
        if builtins.any(o[0] == "adv" for o in ops[:j]):
            ops = ops[:j] + [("drop",)] + [o for o in ops[j:] if o[0] == "grp"]
    return items, key, ops


def exhaustive_ops(maxlen):
    """all operation sequences up to maxlen over {adv, grp 0..2}"""
    alphabet = [("adv",), ("grp", 0), ("grp", 1), ("grp", 2)]
    for n in range(1, maxlen + 1):
        for seq in itertools.product(alphabet, repeat=n):
            yield list(seq)


def run(tier, seed):
    rep = Report("C16", tier, seed)
    proofs_ok = proof_stage(rep, "C16")
    rng = random.Random(seed)
    cases = []
    # corpus: the unstarted-close defect fixed in /repo, and stale-group patterns
    A = [Obj(1, 1), Obj(2, 1), Obj(3, 2), Obj(4, 1), Obj(5, 1)]
    cases.append((A, None, [("close",)]))
    cases.append((A, None, [("adv",), ("adv",), ("adv",), ("grp", 0), ("grp", 2), ("grp", 2), ("grp", 2)]))
    cases.append((A[:3], None, [("adv",), ("adv",), ("adv",), ("grp", 0), ("grp", 1)]))
    cases.append((A, ("KeyDiv", 2), [("adv",), ("grp", 0), ("adv",), ("grp", 0), ("grp", 1), ("adv",), ("grp", 1)]))
    nrand = 1500 * common.scale(rep) if tier == "quick" else 40000
    for _ in range(nrand):
        cases.append(gen_case(rng, tier, with_close=rng.random() < 0.3, primitives=True))
    small = [[Obj(i + 1, k) for i, k in enumerate(ks)] for n in range(0, 5) for ks in itertools.product(range(2), repeat=n)]
    for ops in exhaustive_ops(4 if tier == "quick" else 6):
        items = small[rng.randrange(len(small))] if tier == "quick" else None
        if items is not None:
            cases.append((items, None, ops))
        else:
            for it in small[::3]:
                cases.append((it, None, ops))
    texts = []
    fails = 0
    lens = {}
    for items, key, ops in cases:
        flavour = rng.choice(["sync", "async", "lambda-coro", "object", "awaitobj", "object-equal"])
        obs, pulls, closes = run_impl(items, key, flavour, ops)
        adv_only = builtins.all(o[0] in ("adv", "grp", "drop") for o in ops)
        std = run_std(items, key, ops) if adv_only else None
        std_cmp = None
        if std is None and builtins.all(o[0] in ("adv", "grp", "drop", "gclose") for o in ops):
            # closing a group has no itertools counterpart, but it is the same as abandoning it: itertools runs the history
            # without the closes and without the later reads of closed groups, everything else must agree
            closed_g, keep = set(), []
            for o in ops:
                if o[0] == "gclose":
                    closed_g.add(o[1])
                    keep.append(False)
                else:
                    keep.append(not (o[0] == "grp" and o[1] in closed_g))
            kept_ops = [o for o, k_ in builtins.zip(ops, keep) if k_]
            obs_iter = builtins.iter(obs)
            kept_obs = []
            for o, k_ in builtins.zip(ops, keep):
                if o[0] == "drop":
                    continue
                ob = next(obs_iter, ("missing",))
                if k_:
                    kept_obs.append(ob)
            std_cmp = (kept_obs, run_std(items, key, kept_ops))
        lens[len(ops)] = lens.get(len(ops), 0) + 1
        rep.count((repr(items), key, tuple(ops)), len(items) > 1 and len(ops) > 2,
                  sample={"items": repr(items), "key": key, "ops": ops, "obs": repr(obs)})
        bad = None
        if builtins.any(o[0] == "error" for o in obs):
            bad = "operation failed: %r" % ([o for o in obs if o[0] == "error"][:1],)
        elif std is not None and not (len(std) == len(obs) and builtins.all(same_obs(x, y) for x, y in builtins.zip(obs, std))):
            bad = "differs from itertools.groupby: impl %r std %r" % (obs, std)
        elif ops and ops[-1][0] == "close" and closes < 1:
            bad = "aclose did not close the source"
        elif std_cmp is not None and not (len(std_cmp[0]) == len(std_cmp[1]) and builtins.all(same_obs(x, y) for x, y in builtins.zip(*std_cmp))):
            bad = "differs from itertools.groupby (closed groups = abandoned groups): impl %r std %r" % std_cmp
        if bad:
            fails += 1
            rep.violation("groupby:%s" % ("error" if "failed" in bad else "values"),
                          {"items": repr(items), "key": key, "ops": ops, "why": bad})
            continue
        texts.append("(mkGC [%s] %s [%s] [%s] %d %d %s)" % (
            "; ".join(coq_val(x) for x in items), coq_opt(key, coq_fn), "; ".join(coq_op(o) for o in ops if o[0] != "drop"),
            "; ".join(coq_obs(o) for o in obs), pulls, closes,
            "None" if std is None else "(Some [%s])" % "; ".join(coq_obs(o) for o in std)))
    fails += aspect_faults(rep, rng, 300 * common.scale(rep) if tier == "quick" else 6000)
    fails += aspect_lazy(rep, rng, 300 * common.scale(rep) if tier == "quick" else 6000)
    fails += aspect_release(rep, rng, 150 * common.scale(rep) if tier == "quick" else 2000, cancel=False)
    fails += aspect_release(rep, rng, 100 * common.scale(rep) if tier == "quick" else 1500, cancel=True)
    rep.notes["ops_length_distribution"] = lens
    shards = [texts[i:i + 500] for i in range(0, len(texts), 500)]
    outs = coq_eval_files("c16", [HEADER + "Definition cases : list gcase := [\n" + ";\n".join(sh) + "\n].\nEval vm_compute in (gfailing cases).\n" for sh in shards])
    mism = 0
    for si, (sh, (rc, out)) in enumerate(builtins.zip(shards, outs)):
        f = parse_nat_list(out) if rc == 0 else None
        if f is None:
            rep.violation("coq-eval", {"broken": "correspondence evaluation failed", "log": out[-1500:]}, no_input=True)
            break
        mism += len(f)
        for j in f[:2]:
            rep.violation("groupby:model-mismatch", {"broken": "correspondence impl<->Model/GroupBy.v (or itertools<->spec)", "case": sh[j]}, no_input=not rep.has_failing_input())
    rep.cov["traces_validated_against_impl"] = len(texts)
    rep.notes["model_mismatches"] = mism
    if not proofs_ok:
        rep.violation("proof-broken", {"broken": rep.notes.get("broken_file", "?"), "log": rep.notes.get("build_log_tail", "")[-1500:]}, no_input=True)
    return rep.finish()
