import borrowcheck


def run(tier, seed):
    return borrowcheck.run_prop("C08", tier, seed)
