"""Keyword pass-through probes: wherever the library forwards **kwargs to a user callable (apply, sync, the
contextmanager factory, decorated functions, ExitStack.callback, cached callables), a keyword argument reaches the
user callable whatever its name -- in particular when it is spelled like one of the library's own parameters.
The names are harvested from the current source (gencalc.library_parameter_names)."""
import contextlib
import functools

from gencalc import drive, library_parameter_names
import asyncstdlib as a


async def _val(v):
    return v


def _attempt(f):
    try:
        return ("ok", f())
    except BaseException as e:  # noqa
        return ("exn", type(e).__name__, str(e)[:120])


def probe(rep, what, fails_sig):
    """what: 'apply' | 'sync' | 'factory' | 'decorated' | 'callback'. Returns the number of violations."""
    bad = 0
    for nm in library_parameter_names():
        exp = ("ok", {nm: 1})
        if what == "apply":
            got = _attempt(lambda: drive(a.apply(lambda **kw: kw, **{nm: _val(1)})))
        elif what == "sync":
            got = _attempt(lambda: drive(a.sync(lambda **kw: kw)(**{nm: 1})))
        elif what == "factory":
            def run(lib):
                @lib
                async def ctx(**kw):
                    yield kw

                async def go():
                    async with ctx(**{nm: 1}) as v:
                        return v
                return drive(go())
            got = _attempt(lambda: run(a.contextmanager))
            exp = _attempt(lambda: run(contextlib.asynccontextmanager))
        elif what == "decorated":
            def run(lib):
                @lib
                async def ctx():
                    yield

                @ctx()
                async def fn(**kw):
                    return kw
                return drive(fn(**{nm: 1}))
            got = _attempt(lambda: run(a.contextmanager))
            exp = _attempt(lambda: run(contextlib.asynccontextmanager))
        elif what == "callback":
            def run(std):
                seen = []

                async def cb(**kw):
                    seen.append(kw)

                async def go():
                    if std:
                        async with contextlib.AsyncExitStack() as st:
                            st.push_async_callback(cb, **{nm: 1})
                    else:
                        async with a.ExitStack() as st:
                            st.callback(cb, **{nm: 1})
                    return seen
                return drive(go())
            got = _attempt(lambda: run(False))
            exp = _attempt(lambda: run(True))
        else:
            raise ValueError(what)
        rep.count(("kwname", what, nm), True)
        if got != exp:
            bad += 1
            rep.violation(fails_sig, {"probe": "keyword argument named %r passed through %s" % (nm, what), "asyncstdlib": repr(got), "expected": repr(exp)})
    return bad
