"""C03: async neutrality -- sync and async arguments are interchangeable; every library callable returns an
awaitable, an asynchronous iterator or an asynchronous context manager."""
import builtins
import functools
import inspect
import random

import common
from common import Report, proof_stage, coq_eval_files, parse_nat_list
import gencalc as G
from gencalc import (Case, Ctx, Obj, Src, SrcNC, run_impl, drive, same_val, canon_result, ITER_TOOLS, AGG_TOOLS, consume_async, run_agg)
from gen_cases import draw_case
import asyncstdlib as a
from asyncstdlib import _core

HEADER = """From Coq Require Import List Bool Arith.
Import ListNotations.
Require Import V.Model.Awaitify V.Model.AwaitifyCase.
Local Open Scope nat_scope.
"""
ITER_FLAVOURS = ["list", "getitem", "sync_iter", "async_gen", "async_class", "async_class_noclose"]
CALL_FLAVOURS = ["def", "async", "partial", "object", "awaitobj", "awaitclass"]


class GetItemSeq:
    """iterable only through the sequence protocol (__getitem__ with 0, 1, 2, ...)"""

    def __init__(self, items):
        self._items = list(items)

    def __getitem__(self, i):
        return self._items[i]


def flavoured_source(ctx, idx, items, fl):
    if fl == "list":
        return list(items)
    if fl == "getitem":
        return GetItemSeq(items)
    if fl == "sync_iter":
        return builtins.iter(list(items))
    if fl == "async_class":
        return Src(ctx, idx, items)
    if fl == "async_class_noclose":
        return SrcNC(ctx, idx, items)          # a class-based async iterator that only has __aiter__ / __anext__
    its = list(items)

    async def gen():
        for x in its:
            yield x
    return gen()


def run_flavoured(case, iter_fl, call_fl_seq):
    """run the tool with the given iterable flavours and a sequence of callable flavours; returns (outcome, yields)"""
    ctx = Ctx(None)
    t = case.tool
    seq = list(call_fl_seq)

    def nextfl():
        return seq.pop(0) if seq else "async"
    if t.kind == "script":
        srcs = [list(case.srcs[0])]
        obj = t.impl(ctx, srcs)
    else:
        srcs = [flavoured_source(ctx, i, items, iter_fl[i % len(iter_fl)]) for i, items in enumerate(case.srcs)]
        obj = t.impl(ctx, srcs, flavour=nextfl)
    if t.kind == "agg":
        if not inspect.isawaitable(obj):
            return ("shape", "an aggregation returned %r instead of an awaitable" % (type(obj).__name__,)), []
        res = drive(run_agg(obj))
    else:
        if not hasattr(obj, "__anext__"):
            return ("shape", "an iterator tool returned %r instead of an async iterator" % (type(obj).__name__,)), []
        res = drive(consume_async(ctx, obj))
    ys = [e[1] for e in ctx.log if e[0] == "yield"]
    return res, ys


def norm_outcome(case, o):
    if o[0] == "ok":
        return ("ok", canon_result(case, o[1]))
    if o[0] == "exn":
        return ("exn", o[1])
    return o


def same_outcome(x, y):
    if x[0] != y[0]:
        return False
    if x[0] == "ok":
        return same_val(x[1], y[1])
    return x[1] == y[1]


def awaitify_history(rng):
    fl = rng.choice(["def", "async", "partial", "object", "awaitobj", "syncfail"])
    n = rng.randrange(1, 7)
    reactions = [("value", rng.randrange(5)) if rng.random() < 0.7 else ("raises", rng.randrange(5)) for _ in range(n)]
    return fl, reactions


class Boom(Exception):
    def __init__(self, n):
        self.n = n


def run_awaitify(fl, reactions):
    calls = {"n": 0}
    script = list(reactions)

    def body():
        calls["n"] += 1
        kind, v = script.pop(0)
        if kind == "raises":
            raise Boom(v)
        return v

    async def afn():
        return body()
    if fl == "def":
        fn = body
    elif fl == "async":
        fn = afn
    elif fl == "partial":
        async def afn2(_d):
            return body()
        fn = functools.partial(afn2, None)
    elif fl == "awaitobj":
        class AwObj:
            def __init__(self, c):
                self.c = c

            def __await__(self):
                return self.c.__await__()
        fn = lambda: AwObj(afn())  # noqa
    elif fl == "syncfail":
        # a plain function returning an awaitable; when it fails, it fails at the call itself, before there is an awaitable
        class AwObj2:
            def __init__(self, v):
                self.v = v

            def __await__(self):
                if False:
                    yield
                return self.v

        def fn():
            return AwObj2(body())
    else:
        class O:
            def __call__(self):
                return afn()
        fn = O()
    w = _core.awaitify(fn)
    obs = []
    for _ in reactions:
        before = calls["n"]
        try:
            r = w()
            if not inspect.isawaitable(r):
                obs.append((calls["n"] - before, ("notawaitable",)))
                continue
            v = drive(_aw(r))
            obs.append((calls["n"] - before, ("value", v)))
        except Boom as e:
            obs.append((calls["n"] - before, ("raises", e.n)))
    return obs


async def _aw(x):
    return await x


class XBoom(Exception):
    def __init__(self, i):
        self.i = i


def exitstack_flavours(rep, rng, tier):
    """the same stack of pushed exits and callbacks, each given as def / async def / partial(async def) / callable object"""
    fails = 0
    for _ in range(60 if tier == "quick" else 5000):
        n = rng.randrange(1, 5)
        spec = [(rng.choice(["push", "callback"]), rng.choice(["falsy", "truthy", "raise"])) for _ in range(n)]
        block = rng.choice([None, 7])
        results = {}
        for fl in CALL_FLAVOURS + ["mixed"]:
            log = []

            def mk(i, kind, beh, flv):
                def body(*args):
                    log.append((i, args[1].i if len(args) > 1 and isinstance(args[1], XBoom) else None))
                    if beh == "raise":
                        raise XBoom(100 + i)
                    return beh == "truthy"

                async def abody(*args):
                    return body(*args)
                if flv == "def":
                    return body
                if flv == "async":
                    return abody
                if flv == "partial":
                    async def a2(_d, *args):
                        return body(*args)
                    return functools.partial(a2, None)

                if flv == "awaitobj":
                    class AwObj:
                        def __init__(self, c):
                            self.c = c

                        def __await__(self):
                            return self.c.__await__()
                    return lambda *args: AwObj(abody(*args))

                class O:
                    def __call__(self, *args):
                        return abody(*args)
                return O()

            async def go():
                st = a.ExitStack()
                for i, (kind, beh) in enumerate(spec):
                    flv = fl if fl != "mixed" else CALL_FLAVOURS[(i + len(spec)) % len(CALL_FLAVOURS)]
                    f = mk(i, kind, beh, flv)
                    # both hand their argument back unchanged, whatever its flavour (they are usable as decorators)
                    got = st.push(f) if kind == "push" else st.callback(f)
                    if got is not f:
                        return ("registration of a %s callable returned %s instead of its argument" % (flv, type(got).__name__),)
                try:
                    async with st:
                        if block is not None:
                            raise XBoom(block)
                    return ("normal",)
                except XBoom as e:
                    return ("raises", e.i)
            try:
                out = drive(go())
            except BaseException as e:  # noqa
                out = ("error", repr(e))
            results[fl] = (out, [x[0] for x in log])
        rep.count(("exitstack-flavours", tuple(spec), block), n > 1, sample={"entries": spec, "block": block})
        vals = list(results.values())
        if builtins.any(v != vals[0] for v in vals):
            fails += 1
            rep.violation("neutrality:exitstack-callbacks", {"entries": spec, "block": block, "why": "unwinding depends on the flavour of the exit callables: %r" % (results,)})
    return fails


def api_probes():
    """every public callable with synchronous arguments: the result must be awaitable / async iterator / async CM"""
    L = [3, 1, 2]
    probes = {
        "anext": lambda: a.anext(a.iter(L)), "iter": lambda: a.iter(L), "filter": lambda: a.filter(None, L), "enumerate": lambda: a.enumerate(L),
        "all": lambda: a.all(L), "any": lambda: a.any(L), "max": lambda: a.max(L), "min": lambda: a.min(L), "sum": lambda: a.sum(L), "list": lambda: a.list(L),
        "dict": lambda: a.dict([(1, 2)]), "set": lambda: a.set(L), "tuple": lambda: a.tuple(L), "sorted": lambda: a.sorted(L), "zip": lambda: a.zip(L, L),
        "map": lambda: a.map(lambda x: x, L), "reduce": lambda: a.reduce(lambda x, y: x + y, L), "lru_cache": lambda: a.lru_cache(lambda: 1)(),
        "cache": lambda: a.cache(lambda: 1)(), "cached_property": None, "closing": lambda: a.closing(a.iter(L)), "contextmanager": None,
        "nullcontext": lambda: a.nullcontext(1), "ExitStack": lambda: a.ExitStack(), "accumulate": lambda: a.accumulate(L), "batched": lambda: a.batched(L, 2),
        "cycle": lambda: a.cycle(L), "chain": lambda: a.chain(L, L), "compress": lambda: a.compress(L, L), "dropwhile": lambda: a.dropwhile(bool, L),
        "filterfalse": lambda: a.filterfalse(bool, L), "islice": lambda: a.islice(L, 2), "takewhile": lambda: a.takewhile(bool, L), "starmap": lambda: a.starmap(max, [(1, 2)]),
        "tee": lambda: a.tee(L, 2)[0], "pairwise": lambda: a.pairwise(L), "zip_longest": lambda: a.zip_longest(L, L), "groupby": lambda: a.groupby(L),
        "borrow": lambda: a.borrow(a.iter(L)), "scoped_iter": lambda: a.scoped_iter(L), "await_each": lambda: a.await_each([]), "any_iter": lambda: a.any_iter(L),
        "apply": lambda: a.apply(lambda: 1), "sync": lambda: a.sync(lambda: 1)(), "merge": lambda: a.merge(L, L), "nlargest": lambda: a.nlargest(L, 1), "nsmallest": lambda: a.nsmallest(L, 1),
    }
    return probes


def async_shaped(r):
    return inspect.isawaitable(r) or hasattr(r, "__anext__") or hasattr(r, "__aenter__")


def run(tier, seed):
    rep = Report("C03", tier, seed)
    proofs_ok = proof_stage(rep, "C03")
    rng = random.Random(seed)
    fails = 0
    per = 12 * common.scale(rep) if tier == "quick" else 400
    nassign = 3 if tier == "quick" else 8
    dist = {}
    for name in ITER_TOOLS + AGG_TOOLS:
        for _ in range(per):
            c = draw_case(rng, name, tier, mixed_cls=rng.random() < 0.15)
            if c.plan is not None:
                continue
            base, base_y = run_flavoured(c, ["async_class"], ["async"] * 4)
            for _ in range(nassign):
                ifl = [rng.choice(ITER_FLAVOURS) for _ in range(builtins.max(1, len(c.srcs)))]
                cfl = [rng.choice(CALL_FLAVOURS) for _ in range(4)]
                for f_ in ifl + cfl:
                    dist[f_] = dist.get(f_, 0) + 1
                out, ys = run_flavoured(c, ifl, cfl)
                rep.count((name, repr(c.params), repr(c.srcs), tuple(ifl), tuple(cfl)), builtins.any(len(s) > 1 for s in c.srcs),
                          sample={"tool": name, "params": repr(c.params), "iterables": ifl, "callables": cfl})
                why = None
                if out[0] == "shape":
                    why = out[1]
                elif not same_outcome(norm_outcome(c, base), norm_outcome(c, out)):
                    why = "result/exception differs: all-async %r vs %r" % (norm_outcome(c, base)[:2], norm_outcome(c, out)[:2])
                elif len(ys) != len(base_y) or not builtins.all(same_val(x, y) for x, y in builtins.zip(ys, base_y)):
                    why = "items differ: all-async %r vs %r" % (base_y, ys)
                if why:
                    fails += 1
                    rep.violation("neutrality:%s" % name, {"tool": name, "params": repr(c.params), "srcs": repr(c.srcs), "iterables": ifl, "callables": cfl, "why": why})
                    break
    rep.notes["flavour_distribution"] = dist
    # one-shot iterators of unorderable items (the defect fixed in /repo): same exception as for the list
    for fl in ITER_FLAVOURS:
        items = [Obj(1, 1, 0), Obj(2, 1, 1)]
        c = Case("sorted", {"key": None, "reverse": False}, [items])
        out, _ = run_flavoured(c, [fl], [])
        rep.count(("sorted-unorderable", fl), True)
        if norm_outcome(c, out) != ("exn", ("TypeError",)):
            fails += 1
            rep.violation("neutrality:sorted", {"iterable": fl, "why": "sorted of unorderable items gave %r instead of TypeError" % (norm_outcome(c, out)[:2],)})
    # numeric items outside the modelled item domain (floats, mixed numerics): same result for every iterable flavour
    for data in ([0.1] * 10, [1e16, 1.0, -1e16, 1.0], [2, 1.0, 1, True, 0.5], [3.5, -1, 2, 2.0]):
        for fname, call in (("sum", lambda it: a.sum(it)), ("min", lambda it: a.min(it)), ("max", lambda it: a.max(it)), ("sorted", lambda it: a.sorted(it, reverse=True)),
                            ("list", lambda it: a.list(it)), ("nlargest", lambda it: a.nlargest(it, 2))):
            vals = {}
            for fl in ITER_FLAVOURS:
                try:
                    r = drive(call(flavoured_source(Ctx(None), 0, data, fl)))
                    vals[fl] = (repr(r), [type(x).__name__ for x in r] if isinstance(r, list) else type(r).__name__)
                except BaseException as e:  # noqa
                    vals[fl] = ("exn", type(e).__name__)
            rep.count(("float", fname, repr(data)), True)
            if len(set(map(repr, vals.values()))) != 1:
                fails += 1
                rep.violation("neutrality:%s-numeric" % fname, {"data": repr(data), "why": "%s depends on the flavour of the iterable: %r" % (fname, vals)})
    # exit callbacks / pushed exits of an ExitStack in every callable flavour: same unwinding
    fails += exitstack_flavours(rep, rng, tier)
    # cycle over every flavour of iterable, the input being modified after the first pass: what was seen is replayed
    res = {}
    for fl in ITER_FLAVOURS:
        L = ["a", "b", "c"]
        src = L if fl == "list" else flavoured_source(Ctx(None), 0, L, fl)

        async def cyc(src=src, L=L):
            c = _a2.cycle(src)
            out = []
            for i in range(9):
                if i == 4:
                    L[1] = "B"
                    L.append("d")
                out.append(await c.__anext__())
            return out
        import asyncstdlib as _a2
        try:
            res[fl] = repr(drive(cyc()))
        except BaseException as e:  # noqa
            res[fl] = "raised %r" % (e,)
        rep.count(("cycle-flavour", fl), True)
    if len(set(res.values())) != 1:
        fails += 1
        rep.violation("neutrality:cycle", {"why": "cycle (input modified after the first pass) depends on the flavour of the iterable: %r" % (res,)})
    # a source that fails while it is iterated: the very exception object surfaces, whether the source is a plain generator,
    # a __getitem__ sequence or an async generator, and whatever its type (TypeError, AttributeError, ... included)
    import asyncstdlib as _a2
    for exc_t in (TypeError, AttributeError, KeyError, ValueError, RuntimeError):
        res = {}
        for fl in ("sync generator", "getitem sequence", "async generator"):
            err = exc_t("raised by the source")

            def sgen():
                yield 1
                yield 2
                raise err

            class _Seq:
                def __getitem__(self, i):
                    if i >= 2:
                        raise err
                    return i + 1

            async def agen():
                yield 1
                yield 2
                raise err
            mk_src = {"sync generator": sgen, "getitem sequence": _Seq, "async generator": agen}[fl]
            outs = []
            for tname, tool in (("list", lambda s_: _a2.list(s_)), ("enumerate", lambda s_: _a2.list(_a2.enumerate(s_))), ("map", lambda s_: _a2.list(_a2.map(lambda x: x, s_))),
                                ("zip", lambda s_: _a2.list(_a2.zip(s_, [7, 8, 9]))), ("sum", lambda s_: _a2.sum(s_)), ("sorted", lambda s_: _a2.sorted(s_)),
                                ("takewhile", lambda s_: _a2.list(_a2.takewhile(lambda x: True, s_))), ("chain", lambda s_: _a2.list(_a2.chain(s_)))):
                try:
                    drive(tool(mk_src()))
                    outs.append((tname, "returned"))
                except BaseException as e:  # noqa
                    outs.append((tname, "same object" if e is err else "%s: %s" % (type(e).__name__, e)))
            res[fl] = repr(outs)
            rep.count(("failing-source", exc_t.__name__, fl), True)
        if len(set(res.values())) != 1 or "same object" not in next(iter(res.values())) or "returned" in "".join(res.values()):
            fails += 1
            rep.violation("neutrality:failing-source", {"exception": exc_t.__name__, "why": "a source raising %s after two items: %r" % (exc_t.__name__, res)})
            break
    # iter(callable, sentinel): the callable in every flavour
    res = {}
    for fl in ("def", "async", "partial", "object", "lambda-coro", "awaitclass"):
        vals = [3, 1, 4, 0, 5]
        state = {"i": 0}

        def nxt():
            state["i"] += 1
            return vals[state["i"] - 1]

        async def anxt():
            return nxt()
        if fl == "def":
            fn = nxt
        elif fl == "async":
            fn = anxt
        elif fl == "partial":
            async def anxt2(_d):
                return nxt()
            fn = functools.partial(anxt2, None)
        elif fl == "object":
            class _O:
                def __call__(self):
                    return anxt()
            fn = _O()
        elif fl == "lambda-coro":
            fn = lambda: anxt()  # noqa
        else:
            class _AC:
                def __await__(self):
                    return anxt().__await__()
            fn = _AC

        async def take():
            out = []
            async for v in _a2.iter(fn, 0):
                out.append(v)
                if len(out) > 4:
                    break
            return out
        try:
            res[fl] = repr(drive(take()))
        except BaseException as e:  # noqa
            res[fl] = "raised %r" % (e,)
        rep.count(("iter-callable-flavour", fl), True)
    if len(set(res.values())) != 1 or res["def"] != "[3, 1, 4]":
        fails += 1
        rep.violation("neutrality:iter-callable", {"why": "iter(callable, 0) depends on the flavour of the callable: %r" % (res,)})
    # sync(): a computation that fails with TypeError fails the same way whatever the flavour of the callable
    res = {}

    def _compute(x):
        return 1 + x          # TypeError for a str

    async def _acompute(x):
        return 1 + x

    class _CO:
        def __call__(self, x):
            return _acompute(x)
    for fl, fn in (("def", _compute), ("async", _acompute), ("partial", functools.partial(_acompute)), ("object", _CO()), ("lambda->coroutine", lambda x: _acompute(x))):
        outs = []
        for arg in (2, "s"):
            try:
                outs.append(("ok", drive(_a2.sync(fn)(arg))))
            except TypeError:
                outs.append(("TypeError",))
            except BaseException as e:  # noqa
                outs.append(("other", repr(e)))
        res[fl] = repr([o if o[0] != "ok" or isinstance(o[1], int) else ("ok", type(o[1]).__name__) for o in outs])
        rep.count(("sync-flavour", fl), True)
    if len(set(res.values())) != 1:
        fails += 1
        rep.violation("neutrality:sync", {"why": "sync(f)(x) depends on the flavour of f: %r" % (res,)})
    # scoped_iter / borrow over every flavour of iterable: two successive tools inside one block see consecutive parts
    import asyncstdlib as _a

    def _sep_iterable(items, with_close):
        class It:
            def __init__(self):
                self.items, self.closed = list(items), 0

            def __aiter__(self):
                return self

            async def __anext__(self):
                if self.closed or not self.items:
                    raise StopAsyncIteration
                return self.items.pop(0)
        if with_close:
            async def _ac(self):
                self.closed += 1
            It.aclose = _ac

        class Iterable:
            def __aiter__(self):
                return It()
        return Iterable()
    base = list(range(6))
    res = {}
    for fl in ITER_FLAVOURS + ["separate-iterator", "separate-iterator+aclose"]:
        async def two(fl=fl):
            src = (_sep_iterable(base, fl.endswith("aclose")) if fl.startswith("separate") else flavoured_source(Ctx(None), 0, base, fl))
            async with _a.scoped_iter(src) as it:
                first = [x async for x in _a.islice(it, 2)]
                second = [x async for x in _a.takewhile(lambda x: x < 4, it)]
                rest = [x async for x in it]
            return first, second, rest
        try:
            res[fl] = repr(drive(two()))
        except BaseException as e:  # noqa
            res[fl] = "raised %r" % (e,)
        rep.count(("scoped_iter-flavour", fl), True)
    if len(set(res.values())) != 1 or "raised" in next(iter(res.values())):
        fails += 1
        rep.violation("neutrality:scoped_iter", {"why": "scoped_iter block results depend on the flavour of the iterable: %r" % (res,)})
    # any_iter / await_each: which items are awaited depends on the items (plain, coroutine, an object with __await__),
    # never on whether the container is a regular or an asynchronous iterable
    class _AwItem:
        def __init__(self, v):
            self.v = v

        def __await__(self):
            return self.v
            yield

    def _items(kind):
        async def co(v):
            return v
        return [(co(v) if kind == "coroutine" else _AwItem(v) if kind == "awaitobj" else (_AwItem(v) if v % 2 else v) if kind == "mixed" else v) for v in (1, 2, 3)]
    for tool_name, tool in (("any_iter", a.any_iter), ("await_each", a.await_each)):
        for kind in ("plain", "coroutine", "awaitobj", "mixed"):
            if tool_name == "await_each" and kind in ("plain", "mixed"):
                continue            # await_each takes awaitables only
            res = {}
            # (await_each is documented for a regular iterable of awaitables only)
            for fl in (ITER_FLAVOURS if tool_name == "any_iter" else ["list", "getitem", "sync_iter"]):
                its = _items(kind)

                async def run_it():
                    return [x async for x in tool(flavoured_source(None, 0, its, fl) if not fl.startswith("async_class") else flavoured_source(None, 0, its, "async_gen"))]
                try:
                    res[fl] = repr(drive(run_it()))
                except BaseException as e:  # noqa
                    res[fl] = "raised %r" % (e,)
                for x in its:
                    if inspect.iscoroutine(x):
                        x.close()
                rep.count((tool_name + "-flavour", kind, fl), True)
            if builtins.any(v != "[1, 2, 3]" for v in res.values()):
                fails += 1
                rep.violation("neutrality:%s" % tool_name, {"items": kind, "why": "%s over %s items gives, per flavour of the iterable: %r" % (tool_name, kind, res)})
    # ExitStack.enter_context: a manager whose entering fails is not exited and its exception propagates, the same for a
    # regular and an asynchronous context manager
    res = {}
    for fl in ("sync", "async"):
        log = []

        class _Boom(Exception):
            pass

        class _SCM:
            def __enter__(self):
                log.append("enter")
                raise _Boom()

            def __exit__(self, *exc):
                log.append("exit")
                return True

        class _ACM:
            async def __aenter__(self):
                log.append("enter")
                raise _Boom()

            async def __aexit__(self, *exc):
                log.append("exit")
                return True

        async def enter_fails():
            try:
                async with a.ExitStack() as st:
                    await st.enter_context(_SCM() if fl == "sync" else _ACM())
                return "suppressed"
            except _Boom:
                return "propagated"
        try:
            res[fl] = (drive(enter_fails()), list(log))
        except BaseException as e:  # noqa
            res[fl] = ("raised %r" % (e,), list(log))
        rep.count(("enter_context-fails", fl), True)
    if res["sync"] != res["async"] or res["sync"] != ("propagated", ["enter"]):
        fails += 1
        rep.violation("neutrality:enter_context", {"why": "a context manager whose entering raises, given to ExitStack.enter_context (outcome, calls): %r" % (res,)})
    # lru_cache / cache / cached_property around every flavour of async callable -- an `async def`, a partial of one, a callable
    # object, a function handing out a coroutine --, stored on a class and used through an instance: the same behaviour
    def _cached_members():
        async def method(self, x):
            return (self.tag, x)

        async def getter(self):
            return ("value", self.tag)

        async def two(prefix, self, x=None):
            return (self.tag, x) if x is not None else ("value", self.tag)

        class MethObj:
            def __get__(self, instance, owner=None):       # a callable object that is a descriptor, like a function
                return self if instance is None else functools.partial(self, instance)

            async def __call__(self, inst, x):
                return (inst.tag, x)

        class PlainObj:                                     # a callable object without __get__: the cache binds it all the same
            async def __call__(self, inst, x):
                return (inst.tag, x)

        def returns_coroutine(self, x):
            return method(self, x)

        def getter_returns_coroutine(self):
            return getter(self)

        class GetObj:
            __name__, __qualname__, __doc__, __module__ = "GetObj", "GetObj", None, __name__

            async def __call__(self, inst):
                return ("value", inst.tag)
        out = {}
        for label, deco in (("lru_cache", a.lru_cache), ("lru_cache(maxsize=2)", a.lru_cache(maxsize=2)), ("cache", a.cache), ("lru_cache(None)", a.lru_cache(maxsize=None))):
            for fl, fn in (("async def", method), ("function returning a coroutine", returns_coroutine), ("descriptor object", MethObj()),
                           ("partial", functools.partial(two, "p")), ("callable object", PlainObj())):
                try:
                    class Owner:
                        tag = "t"
                        m = deco(fn)
                    o = Owner()
                    out[(label, fl)] = repr(drive(_two_calls(o)))
                except BaseException as e:  # noqa
                    out[(label, fl)] = "raised %r" % (e,)
        for label, deco in (("cached_property", a.cached_property), ("cached_property(lock)", a.cached_property(a.nullcontext))):
            for fl, fn in (("async def", getter), ("function returning a coroutine", getter_returns_coroutine), ("partial", functools.partial(two, "p")), ("callable object", GetObj())):
                if label == "cached_property" and fl in ("function returning a coroutine", "callable object"):
                    continue      # (the bare decorator form insists on something inspect recognises as a coroutine function)
                try:
                    class OwnerP:
                        tag = "t"
                        data = deco(fn)
                    OwnerP.data.__set_name__(OwnerP, "data") if getattr(OwnerP.data, "attrname", "x") is None else None
                    p_ = OwnerP()
                    out[(label, fl)] = repr(drive(_two_gets(p_)))
                except BaseException as e:  # noqa
                    out[(label, fl)] = "raised %r" % (e,)
        return out

    async def _two_calls(o):
        return [await o.m(1), await o.m(1), await o.m(2)]

    async def _two_gets(o):
        return [await o.data, await o.data]
    members = _cached_members()
    for label in sorted({k[0] for k in members}):
        res = {fl: v for (lb, fl), v in members.items() if lb == label}
        rep.count(("cached-member-flavours", label), True)
        if len(set(res.values())) != 1 or "raised" in next(iter(res.values())):
            fails += 1
            rep.violation("neutrality:cached-members", {"decorator": label, "why": "%s around each flavour of async callable, used through an instance: %r" % (label, res)})
    # every public callable is async-shaped for synchronous arguments
    probes = api_probes()
    for nm in a.__all__:
        if nm not in probes:
            rep.notes.setdefault("public_names_without_probe", []).append(nm)
            continue
        if probes[nm] is None:
            continue
        try:
            r = probes[nm]()
        except BaseException as e:  # noqa
            fails += 1
            rep.violation("neutrality:api-%s" % nm, {"why": "calling %s with synchronous arguments raised %r" % (nm, e)})
            continue
        rep.count(("api", nm), True)
        if not async_shaped(r):
            fails += 1
            rep.violation("neutrality:api-%s" % nm, {"why": "%s returned a plain %s" % (nm, type(r).__name__)})
        if inspect.iscoroutine(r):
            r.close()
    # the awaitify wrapper against Model/Awaitify.v
    texts = []
    for _ in range(300 if tier == "quick" else 20000):
        fl, reactions = awaitify_history(rng)
        obs = run_awaitify(fl, reactions)
        rep.count(("awaitify", fl, tuple(reactions)), len(reactions) > 1)
        bad = [o for o in obs if o[1][0] == "notawaitable"]
        want = [(1, r) for r in reactions]
        if bad or obs != want:
            fails += 1
            rep.violation("neutrality:awaitify", {"flavour": fl, "reactions": reactions, "why": "awaitify wrapper gave %r, the callable itself %r" % (obs, want)})
            continue
        cfl = {"def": "FDef", "async": "FAsyncDef", "partial": "FPartialAsync", "object": "FCallableObject", "awaitobj": "FCallableObject", "syncfail": "FCallableObject"}[fl]
        cr = lambda r: ("RValue %d" if r[0] == "value" else "RRaises %d") % r[1]  # noqa
        texts.append("(mkWC %s [%s] [%s])" % (cfl, "; ".join(cr(r) for r in reactions), "; ".join("(%d, %s)" % (n, cr(r)) for n, r in obs)))
    outs = coq_eval_files("c03", [HEADER + "Definition cases : list wcase := [\n" + ";\n".join(texts) + "\n].\nEval vm_compute in (wfailing cases).\n"])
    rc, out = outs[0]
    f = parse_nat_list(out) if rc == 0 else None
    if f is None:
        rep.violation("coq-eval", {"broken": "correspondence evaluation failed", "log": out[-1500:]}, no_input=True)
        f = []
    for j in f[:2]:
        rep.violation("neutrality:model-mismatch", {"broken": "correspondence impl<->Model/Awaitify.v", "case": texts[j]}, no_input=not rep.has_failing_input())
    rep.cov["traces_validated_against_impl"] = len(texts)
    rep.notes["model_mismatches"] = len(f)
    if not proofs_ok:
        rep.violation("proof-broken", {"broken": rep.notes.get("broken_file", "?"), "log": rep.notes.get("build_log_tail", "")[-1500:]}, no_input=True)
    return rep.finish()
