"""C13: contextmanager vs contextlib.asynccontextmanager for every generator program and block outcome."""
import builtins
import contextlib
import itertools
import random

from common import Report, proof_stage, coq_eval_files, parse_nat_list
from gencalc import drive
import asyncstdlib as a

HEADER = """From Coq Require Import List Bool Arith.
Import ListNotations.
Require Import V.Model.ContextManager.
Local Open Scope nat_scope.
"""


class E(Exception):
    pass


class B(BaseException):
    pass


PRE = ["yield", "raise", "noyield"]
HANDLER = ["none", "finally", "swallow", "reraise", "raise_new", "raise_new_from_none", "raise_same_type", "return", "yield_again", "raise_stopasync",
           "raise_runtime", "raise_runtime_from_none", "raise_runtime_from_exc"]
AFTER = ["stop", "yield", "raise"]
BLOCKS = ["normal", "Exception", "BaseException", "StopIteration", "StopAsyncIteration", "RuntimeError", "GeneratorExit", "KeyboardInterrupt"]
BLOCK_EXC = {"Exception": Exception, "BaseException": BaseException, "StopIteration": StopIteration, "StopAsyncIteration": StopAsyncIteration,
             "RuntimeError": RuntimeError, "GeneratorExit": GeneratorExit, "KeyboardInterrupt": KeyboardInterrupt}


# proper subclasses of the exception types the implementation singles out: classified by isinstance like
# asynccontextmanager does, except GeneratorExit itself (compared with contextlib only, not with the model)
class StopAsyncSub(StopAsyncIteration):
    pass


class StopIterSub(StopIteration):
    pass


class GenExitSub(GeneratorExit):
    pass


class RuntimeSub(RuntimeError):
    pass


class EqError(Exception):
    """all instances compare equal (a dataclass-style error): identity, not equality, tells the block's exception apart"""

    def __eq__(self, other):
        return isinstance(other, EqError)

    def __hash__(self):
        return 1


class EqBaseError(BaseException):
    def __eq__(self, other):
        return isinstance(other, EqBaseError)

    def __hash__(self):
        return 2


class EmptyError(Exception):
    """a falsy exception (an empty collection of errors)"""

    def __len__(self):
        return 0


SUB_BLOCKS = {"StopAsyncIterationSub": StopAsyncSub, "StopIterationSub": StopIterSub, "GeneratorExitSub": GenExitSub, "RuntimeErrorSub": RuntimeSub,
              "EqError": EqError, "EqBaseError": EqBaseError, "EmptyError": EmptyError}
BLOCK_EXC.update(SUB_BLOCKS)


def make_gen(pre, handler, after, nested=False):
    async def gen():
        if pre == "raise":
            raise E("pre")
        if pre == "noyield":
            return
        if handler == "none":
            yield "value"
        elif handler == "finally":
            try:
                yield "value"
            finally:
                pass
        else:
            try:
                yield "value"
            except BaseException as exc:
                if handler == "swallow":
                    pass
                elif handler == "reraise":
                    raise
                elif handler == "raise_new":
                    raise E("new")
                elif handler == "raise_new_from_none":
                    raise E("new") from None
                elif handler == "raise_same_type":
                    raise type(exc)("another")
                elif handler == "return":
                    return
                elif handler == "yield_again":
                    yield              # (a bare yield: what comes back from athrow is None, like the result of aclose)
                elif handler == "raise_stopasync":
                    raise StopAsyncIteration
                elif handler == "raise_runtime":
                    raise RuntimeError("raised by user code")
                elif handler == "raise_runtime_from_none":
                    raise RuntimeError("raised by user code") from None
                elif handler == "raise_runtime_from_exc":
                    raise RuntimeError("raised by user code") from exc     # explicitly chained to what was thrown in
        if after == "yield":
            yield "after"
        elif after == "raise":
            raise E("after")
    return gen


class Proxy:
    """wraps the async generator and counts how it is driven"""

    def __init__(self, gen, counts):
        self.gen, self.counts = gen, counts

    def __anext__(self):
        self.counts["anext"] += 1
        return self.gen.__anext__()

    def athrow(self, *args):
        self.counts["athrow"] += 1
        self.counts.setdefault("thrown", []).extend(args)
        return self.gen.athrow(*args)

    def aclose(self):
        self.counts["aclose"] += 1
        return self.gen.aclose()

    def __aiter__(self):
        return self

    @property
    def ag_frame(self):
        return self.gen.ag_frame


def kind_of(e):
    for cls, k in ((StopAsyncIteration, "KStopAsync"), (StopIteration, "KStopIter"), (RuntimeError, "KRuntime"), (GeneratorExit, "KGenExit"),
                   (KeyboardInterrupt, "KKbd"), (Exception, "KExc"), (BaseException, "KBaseExc")):
        if isinstance(e, cls):
            return k
    return "KBaseExc"


class Ids:
    def __init__(self):
        self.map = {}

    def of(self, e):
        return self.map.setdefault(id(e), len(self.map) + 1)


def observe_response(genf, block, value, ids, use_aclose):
    """what the real generator does when resumed / thrown into / closed after its first yield"""
    g = genf()

    async def go():
        try:
            await g.__anext__()
        except BaseException:  # noqa
            return None
        try:
            if block == "normal":
                await g.__anext__()
            elif use_aclose:
                await g.aclose()
                return ("stop",)
            else:
                await g.athrow(value)
            return ("yield",)
        except StopAsyncIteration:
            return ("stop",)
        except BaseException as e:  # noqa
            return ("raise", kind_of(e), ids.of(e), e.__cause__ is value and value is not None)
    r = drive(go())
    try:
        drive(g.aclose())
    except BaseException:  # noqa
        pass
    return r


def run_cm(factory, genf, block, value, ids):
    counts = {"anext": 0, "athrow": 0, "aclose": 0}
    holder = {}

    def func():
        holder["gen"] = Proxy(genf(), counts)
        return holder["gen"]
    cmf = factory(func)

    async def go():
        try:
            cm = cmf()
            async with cm as v:
                if v != "value":
                    return ("error", "entered with %r" % (v,))
                if block != "normal":
                    raise value
            return ("normal",)
        except BaseException as e:  # noqa
            if isinstance(e, RuntimeError) and e is not value and e.__cause__ is None and str(e).startswith(("generator did", "generator didn't")):
                return ("runtime_lib", str(e))
            return ("raises", kind_of(e), ids.of(e), e)
    out = drive(go())
    closed = holder["gen"].gen.ag_frame is None if "gen" in holder else None
    return out, dict(counts), closed


def coq_ex(kind, i):
    return "(mkEx %s %d)" % (kind, i)


def coq_wout(o):
    if o[0] == "normal":
        return "WNormal"
    if o[0] == "runtime_lib":
        return "WRuntimeLib"
    return "(WRaises %s)" % coq_ex(o[1], o[2])


def run(tier, seed):
    rep = Report("C13", tier, seed)
    proofs_ok = proof_stage(rep, "C13")
    texts, fails = [], 0
    progs = list(itertools.product(PRE, HANDLER, AFTER))
    for (pre, handler, after), block in itertools.product(progs, BLOCKS + sorted(SUB_BLOCKS)):
        genf = make_gen(pre, handler, after)
        ids = Ids()
        value = None if block == "normal" else BLOCK_EXC[block]("block")
        if value is not None:
            ids.of(value)
        out_a, cnt_a, closed_a = run_cm(a.contextmanager, genf, block, value, ids)
        out_s, cnt_s, closed_s = run_cm(contextlib.asynccontextmanager, genf, block, value, ids)
        rep.count((pre, handler, after, block), pre == "yield", sample={"program": [pre, handler, after], "block": block, "asyncstdlib": repr(out_a[:3]), "contextlib": repr(out_s[:3])})
        why = None
        def nrm(o):
            if o[0] == "raises":
                return ("raises", o[1], "the block's exception" if o[3] is value else ("new", type(o[3]).__name__, str(o[3]), type(o[3].__cause__).__name__))
            return o[:1]
        same = nrm(out_a) == nrm(out_s)
        if out_a[0] == "error":
            why = out_a[1]
        elif block == "GeneratorExit" and pre == "yield":
            # deliberate difference: the same GeneratorExit object propagates and the generator is closed, not thrown into
            if cnt_a["athrow"] != 0 or cnt_a["aclose"] != 1:
                why = "generator must be closed, not thrown into, for GeneratorExit: %r" % (cnt_a,)
            elif not (out_a[0] == "raises" and out_a[3] is value):
                # the generator refused to be closed: aclose() itself raised
                refused = observe_response(genf, block, value, Ids(), True)
                if refused is not None and refused[0] == "raise":
                    fails += 1
                    rep.violation("contextmanager:genexit-close-fails", {"program": [pre, handler, after], "block": block,
                                  "why": "the generator does not let itself be closed, aclose() raises %r and that replaces the GeneratorExit" % (out_a[:3],)})
                    continue
                why = "GeneratorExit leaving the block did not propagate as the same object: %r" % (out_a[:3],)
        elif not same:
            why = "outcome differs from asynccontextmanager: asyncstdlib %r contextlib %r" % (nrm(out_a), nrm(out_s))
        elif value is not None and cnt_a.get("athrow") and not builtins.any(x is value for x in cnt_a.get("thrown", [])):
            why = "the generator was thrown %r instead of the very exception object that left the block" % ([type(x).__name__ for x in cnt_a.get("thrown", [])],)
        elif pre == "yield" and (cnt_a["anext"], cnt_a["athrow"]) != (2 if block == "normal" else 1, 0 if block == "normal" else 1) and block != "GeneratorExit":
            why = "generator not resumed/thrown into exactly once: %r" % (cnt_a,)
        if why:
            fails += 1
            rep.violation("contextmanager:%s" % ("genexit" if block == "GeneratorExit" else "outcome"), {"program": [pre, handler, after], "block": block, "why": why})
            continue
        if pre != "yield" or block in SUB_BLOCKS:
            continue                      # the enter phase / subclass outcomes: compared with the oracle above
        use_aclose = block == "GeneratorExit"
        resp = observe_response(genf, block, value, ids, use_aclose)
        if resp is None:
            continue
        cresp = {"yield": "GYield", "stop": "GStop"}.get(resp[0]) or "(GRaise %s %s)" % (coq_ex(resp[1], resp[2]), "true" if resp[3] else "false")
        blk = "None" if value is None else "(Some %s)" % coq_ex(kind_of(value), ids.of(value))
        # exceptions raised by the separately observed generator are different objects than in the runs: align ids by kind/position
        def norm(o):
            if o[0] != "raises":
                return o
            if o[3] is value:
                return ("raises", o[1], ids.of(value))
            return ("raises", o[1], resp[2] if resp[0] == "raise" else 999)
        texts.append("(mkCC %s %s %s %s)" % (blk, cresp, coq_wout(norm(out_a)), coq_wout(norm(out_s))))
    outs = coq_eval_files("c13", [HEADER + "Definition cases : list ccase := [\n" + ";\n".join(texts) + "\n].\nEval vm_compute in (cfailing cases).\n"])
    rc, out = outs[0]
    f = parse_nat_list(out) if rc == 0 else None
    if f is None:
        rep.violation("coq-eval", {"broken": "correspondence evaluation failed", "log": out[-1500:]}, no_input=True)
        f = []
    for j in f[:3]:
        rep.violation("contextmanager:model-mismatch", {"broken": "correspondence impl<->Model/ContextManager.v asl_aexit (or contextlib<->std_aexit)", "case": texts[j]}, no_input=not rep.has_failing_input())
    rep.cov["traces_validated_against_impl"] = len(texts)
    rep.cov["exhaustive"] = True
    rep.notes["model_mismatches"] = len(f)
    rep.notes["programs"] = len(progs)
    rep.notes["block_outcomes"] = len(BLOCKS)
    # the set-up code of the generator (before its yield) fails with an exception of any type -- also of the types the
    # library handles for its own purposes: it propagates out of the entering as the same object, like asynccontextmanager
    for exc_cls in (AttributeError, TypeError, RuntimeError, KeyError, LookupError, ValueError, StopAsyncIteration, StopIteration, AssertionError, KeyboardInterrupt):
        raised = []

        def pre_raiser():
            async def gen():
                e = exc_cls("set-up failed")
                raised.append(e)
                raise e
                yield "value"
            return gen
        outs = []
        for factory in (a.contextmanager, contextlib.asynccontextmanager):
            del raised[:]
            out, cnt, closed = run_cm(factory, pre_raiser(), "normal", None, Ids())
            e = out[3] if out[0] == "raises" else None
            outs.append((out[0], type(e).__name__, str(e), e is not None and builtins.any(e is r for r in raised), type(getattr(e, "__cause__", None)).__name__))
        rep.count(("contextmanager-setup-raises", exc_cls.__name__), True)
        if outs[0] != outs[1]:
            fails += 1
            rep.violation("contextmanager:setup-raises", {"exception": exc_cls.__name__, "why": "the generator raises %s before its yield; (outcome, type, message, same object, cause): "
                                                          "asyncstdlib %r, contextlib %r" % (exc_cls.__name__, outs[0], outs[1])})
    # used as a decorator, the "block" is the call of the decorated function -- including the call expression itself: a call
    # with non-fitting arguments fails inside the context, so the generator sees that TypeError (and may swallow or replace it)
    for handler in ("none", "swallow", "reraise", "raise_new", "finally"):
        def decorated_outcomes(factory):
            counts = []
            genf = make_gen("yield", handler, "stop")

            def func():
                g = genf()
                counts.append(g)
                return g
            cmf = factory(func)

            @cmf()
            async def body(x):
                return x + 1
            outs = []
            for call_args in ((1,), (), (1, 2)):
                try:
                    outs.append(("ok", drive(body(*call_args))))
                except BaseException as e:  # noqa
                    outs.append(("raises", type(e).__name__, str(e)[:20] if not isinstance(e, TypeError) else "call failed"))
            return outs, len(counts), [g.ag_frame is None for g in counts]
        got, want = decorated_outcomes(a.contextmanager), decorated_outcomes(contextlib.asynccontextmanager)
        rep.count(("contextmanager-decorated-bad-call", handler), True)
        if got != want:
            fails += 1
            rep.violation("contextmanager:decorated-call", {"handler": handler, "why": "decorated function called with fitting / missing / surplus arguments (outcomes, generators created, "
                                                            "generators finished): asyncstdlib %r, contextlib %r" % (got, want)})
    # a manager object owns exactly one run of its generator: entering it a second time (after its block ended, or while it
    # is active) is refused, the generator body never runs twice -- as with asynccontextmanager
    for when in ("after",):     # (re-entering while the first block is still active is misuse on which the two libraries differ)
        def reenter(lib):
            steps = []

            @lib
            async def ctx():
                steps.append("start")
                yield 1
                steps.append("end")

            async def go():
                cm = ctx()
                if when == "after":
                    async with cm:
                        pass
                    try:
                        async with cm:
                            steps.append("second block ran")
                    except BaseException as e:  # noqa
                        steps.append("refused")
                else:
                    async with cm:
                        try:
                            async with cm:
                                steps.append("second block ran")
                        except BaseException as e:  # noqa
                            steps.append("refused")
                return steps
            try:
                return drive(go())
            except BaseException as e:  # noqa
                return ["raised %s" % type(e).__name__] + steps
        ra, rs = reenter(a.contextmanager), reenter(contextlib.asynccontextmanager)
        rep.count(("reenter", when), True)
        if ra != rs or ra.count("start") != 1 or "second block ran" in ra:
            rep.violation("contextmanager:reenter", {"when": when, "why": "entering the same manager object a second time (%s the first block): asyncstdlib %r, contextlib %r" % (when, ra, rs)})
    import kwprobe
    kwprobe.probe(rep, "factory", "contextmanager:kwargs")
    if not proofs_ok:
        rep.violation("proof-broken", {"broken": rep.notes.get("broken_file", "?"), "log": rep.notes.get("build_log_tail", "")[-1500:]}, no_input=True)
    return rep.finish()
