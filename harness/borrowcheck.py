"""C07 (borrow) and C08 (scoped_iter): operation histories on real handles over one underlying iterator,
compared with Model/Borrow.v; plus the properties' own predicates and, for C08, the stdlib tools over a shared
synchronous iterator as oracle."""
import builtins
import itertools
import random

import common
from common import Report, proof_stage, coq_eval_files, parse_nat_list
import gencalc as G
from gencalc import Obj, coq_val, drive
from gen_cases import draw_case
import asyncstdlib as a

HEADER = """From Coq Require Import List ZArith NArith Bool.
Import ListNotations.
Require Import V.Kernel.Values V.Model.Borrow.
Local Open Scope nat_scope.
"""


class U:
    """class-based underlying iterator; capabilities chosen per case"""

    def __init__(self, items):
        self.items = list(items)
        self.closed = 0

    def __aiter__(self):
        return self

    async def __anext__(self):
        if self.closed or not self.items:
            raise StopAsyncIteration
        return self.items.pop(0)


class UClose(U):
    async def aclose(self):
        self.closed += 1


class UGetattr(U):
    """aclose exists, but only dynamically: provided through __getattr__ (a delegating proxy)"""

    def __getattr__(self, name):
        if name == "aclose":
            return self._do_close
        raise AttributeError(name)

    async def _do_close(self):
        self.closed += 1


class USend(UClose):
    async def asend(self, value):
        return await self.__anext__()

    async def athrow(self, *a_):
        raise a_[0]


class USendNoClose(U):
    async def asend(self, value):
        return await self.__anext__()


class GenU:
    """async-generator underlying iterator: closing is observed through its finally clause"""

    def __init__(self, items):
        self.items = list(items)
        self.closed = 0
        self.left = len(items)
        st = self

        async def gen():
            try:
                while st.items:
                    x = st.items.pop(0)
                    st.left = len(st.items)
                    yield x
            finally:
                pass
        self.g = gen()

    @property
    def remaining(self):
        return len(self.items)


def make_u(kind, items):
    if kind == "gen":
        return GenU(items)
    return {"close": UClose, "close_ga": UGetattr, "send": USend, "plain": U, "send_noclose": USendNoClose}[kind](items)


def caps(kind):
    return {"gen": (True, True), "close": (True, False), "close_ga": (True, False), "send": (True, True), "plain": (False, False), "send_noclose": (False, True)}[kind]


TOOLS = [("enumerate", lambda h: a.enumerate(h), lambda v: v[1]), ("map", lambda h: a.map(lambda x: x, h), lambda v: v),
         ("zip", lambda h: a.zip(h), lambda v: v[0]), ("chain", lambda h: a.chain(h), lambda v: v), ("islice", lambda h: a.islice(h, None), lambda v: v),
         ("filter", lambda h: a.filter(lambda x: True, h), lambda v: v), ("takewhile", lambda h: a.takewhile(lambda x: True, h), lambda v: v),
         ("starmap", lambda h: a.starmap(lambda x: x, a.map(lambda x: (x,), h)), lambda v: v), ("iter", lambda h: a.iter(h), lambda v: v)]


def run_history(kind, items, ops, rng_tools):
    """returns (observations, closed count, items left in U, error)"""
    u = make_u(kind, items)
    real = u.g if kind == "gen" else u
    handles = []
    scopes = []      # (context manager, handle index or None)
    obs = []

    def par(p):
        return real if p == "U" else handles[p]

    async def go():
        for op in ops:
            k = op[0]
            try:
                if k == "borrow":
                    handles.append(a.borrow(par(op[1])))
                    obs.append(("new", len(handles) - 1))
                elif k == "next":
                    obs.append(("item", await handles[op[1]].__anext__()))
                elif k == "send":
                    h = handles[op[1]]
                    if not hasattr(h, "asend"):
                        obs.append(("stop",))
                    else:
                        obs.append(("item", await h.asend(None)))
                elif k == "nextu":
                    obs.append(("item", await real.__anext__()))
                elif k == "close":
                    h = handles[op[1]]
                    if op[2] == "iter":
                        await a.iter(h).aclose()
                    elif op[2] == "aiter":
                        await h.__aiter__().aclose()
                    else:
                        await h.aclose()
                    obs.append(("done",))
                elif k == "tool":
                    name, mk, proj = TOOLS[op[3] % len(TOOLS)]
                    t = mk(handles[op[1]])
                    got = []
                    for _ in range(op[2]):
                        try:
                            got.append(proj(await t.__anext__()))
                        except StopAsyncIteration:
                            break
                    await t.aclose()
                    obs.append(("items", got))
                elif k == "enter":
                    cm = a.scoped_iter(par(op[1]))
                    v = await cm.__aenter__()
                    if v is real:
                        scopes.append((cm, None))
                        obs.append(("noscope",))
                    else:
                        handles.append(v)
                        scopes.append((cm, len(handles) - 1))
                        obs.append(("new", len(handles) - 1))
                elif k == "exit":
                    if op[1] < len(scopes):
                        cm, h = scopes[op[1]]
                        how = op[2]
                        if how == "normal":
                            await cm.__aexit__(None, None, None)
                        else:
                            e = ValueError("x") if how == "exception" else G.InjBase(1)
                            await cm.__aexit__(type(e), e, None)
                    obs.append(("done",))
            except StopAsyncIteration:
                obs.append(("stop",))
            except BaseException as e:  # noqa
                obs.append(("error", type(e).__name__, str(e)))
    drive(go())
    if kind == "gen":
        closed = 1 if (real.ag_frame is None and u.items) else 0      # finished early = closed
        closed = 1 if real.ag_frame is None and (u.items or _gen_was_closed(real)) else closed
        left = len(u.items)
    else:
        closed, left = u.closed, len(u.items)
    return obs, closed, left


def _gen_was_closed(g):
    return False


def coq_parent(p):
    return "PU" if p == "U" else "(PH %d)" % p


def coq_op(op, nscopes_map):
    k = op[0]
    if k == "borrow":
        return "BBorrow %s" % coq_parent(op[1])
    if k == "next":
        return "BNext %d" % op[1]
    if k == "send":
        return "BSend %d" % op[1]
    if k == "nextu":
        return "BNextU"
    if k == "close":
        return "BClose %d" % op[1]
    if k == "tool":
        return "BTool %d %d" % (op[1], op[2])
    if k == "enter":
        return "BEnter %s" % coq_parent(op[1])
    if k == "exit":
        return "BExit %d" % nscopes_map.get(op[1], 99)
    raise ValueError(op)


def coq_obs(o):
    k = o[0]
    if k == "item":
        return "BItem %s" % coq_val(o[1])
    if k == "items":
        return "BItems [%s]" % "; ".join(coq_val(v) for v in o[1])
    if k == "new":
        return "BNew %d" % o[1]
    return {"stop": "BStop", "done": "BDone", "noscope": "BNoScope"}[k]


def directed_ops(rng, prop, kind):
    """multi-step scenarios around closing: re-borrowing, sending after close, nested scopes"""
    t = rng.randrange(6)
    j = rng.randrange(1, 3)
    if prop == "C07" or t < 2:
        if t % 3 == 0:
            return [("borrow", "U"), ("next", 0)] * 1 + [("close", 0, rng.choice(["direct", "iter", "aiter"])), ("send", 0), ("next", 0), ("nextu",)]
        if t % 3 == 1:
            return [("borrow", "U"), ("borrow", 0), ("next", 1), ("close", 0, "direct"), ("next", 1), ("send", 1), ("nextu",)]
        return [("borrow", "U"), ("tool", 0, j, rng.randrange(100)), ("next", 0), ("send", 0), ("borrow", 0), ("next", 1), ("nextu",)]
    if t == 2:
        return [("enter", "U"), ("enter", 0), ("next", 1), ("exit", 1, "normal"), ("send", 1), ("next", 1), ("next", 0), ("exit", 0, "normal"), ("next", 0), ("send", 0)]
    if t == 3:
        return [("borrow", "U"), ("enter", 0), ("next", 1), ("exit", 0, rng.choice(["normal", "exception", "cancel"])), ("next", 0), ("next", 1), ("nextu",)]
    if t == 4:
        return [("enter", "U"), ("tool", 0, j, rng.randrange(100)), ("tool", 0, j, rng.randrange(100)), ("close", 0, "direct"), ("next", 0), ("exit", 0, "cancel"), ("next", 0), ("nextu",)]
    return [("enter", "U"), ("enter", 0), ("enter", 1), ("exit", 2, "normal"), ("next", 2), ("exit", 1, "exception"), ("next", 0), ("exit", 0, "normal"), ("send", 2), ("nextu",)]


def gen_ops(rng, prop, kind):
    if rng.random() < 0.25 and (prop == "C07" or caps(kind)[0]):
        return directed_ops(rng, prop, kind)
    ops = []
    nh = 0
    nsc = 0
    scoped_real = 0
    n = rng.randrange(2, 11)
    for _ in range(n):
        r = rng.random()
        if nh == 0 or r < 0.15:
            p = "U" if nh == 0 or rng.random() < 0.5 else rng.randrange(nh)
            if prop == "C08" and rng.random() < 0.7:
                ops.append(("enter", p))
                nsc += 1
                # a neutral context (no aclose) hands out U itself: no handle is created
                if not (p == "U" and not caps(kind)[0]):
                    nh += 1
            else:
                ops.append(("borrow", p))
                nh += 1
        elif r < 0.45:
            ops.append(("next", rng.randrange(nh)))
        elif r < 0.52:
            ops.append(("send", rng.randrange(nh)))
        elif r < 0.62:
            ops.append(("nextu",))
        elif r < 0.75:
            ops.append(("close", rng.randrange(nh), rng.choice(["direct", "iter", "aiter"])))
        elif r < 0.9 or nsc == 0:
            ops.append(("tool", rng.randrange(nh), rng.randrange(1, 4), rng.randrange(100)))   # a tool that was advanced at least once
        else:
            ops.append(("exit", rng.randrange(nsc), rng.choice(["normal", "exception", "cancel"])))
    return ops


def check_predicates(prop, kind, items, ops, obs, closed, left):
    if builtins.any(o[0] == "error" for o in obs):
        return "error", "an operation failed: %r" % ([o for o in obs if o[0] == "error"][:1],)
    delivered = []
    for o in obs:
        if o[0] == "item":
            delivered.append(o[1])
        elif o[0] == "items":
            delivered.extend(o[1])
    # everything delivered (through any handle or to the owner) is a prefix of U's items, each exactly once, in order
    if len(delivered) > len(items) or builtins.any(x is not y for x, y in builtins.zip(delivered, items)):
        return "order", "delivered %r is not a prefix of %r" % (delivered, items)
    if len(delivered) + left != len(items):
        return "lost-items", "delivered %d + left %d != %d" % (len(delivered), left, len(items))
    # after a handle is closed (directly, through iter(), by a tool that closes its input, or by leaving its scope)
    # it yields nothing more; a handle borrowed from it ends as well; a scope closes the iterator it was given
    parent, scoped, closed_h, scope_of = {}, {}, set(), []
    u_closed = False
    nh = 0
    for op, o in builtins.zip(ops, obs):
        k = op[0]
        if k == "borrow":
            parent[nh], scoped[nh] = op[1], False
            nh += 1
        elif k == "enter":
            if o[0] == "new":
                parent[nh], scoped[nh] = op[1], True
                scope_of.append((nh, op[1]))
                nh += 1
            else:
                scope_of.append((None, op[1]))
        elif k in ("close", "tool"):
            if not scoped.get(op[1], False):
                closed_h.add(op[1])
        elif k == "exit":
            if op[1] < len(scope_of):
                h, p = scope_of[op[1]]
                if h is not None:
                    closed_h.add(h)
                    if p == "U":
                        u_closed = True
                    elif not scoped.get(p, False):
                        closed_h.add(p)
        elif k in ("next", "send"):
            h = op[1]
            dead = h in closed_h
            if k == "next":
                q = h
                while q != "U" and q is not None:
                    if q in closed_h:
                        dead = True
                    q = parent.get(q)
                if q == "U" and u_closed:
                    dead = True
            if dead and o[0] == "item":
                return "closed-handle-yields", "%s on handle %d yielded %r although it (or what it was borrowed from) had been closed" % (k, h, o[1])
        elif k == "nextu":
            if u_closed and o[0] == "item":
                return "closed-underlying-yields", "the underlying iterator yielded after the scope closed it"
    exits_on_u = 0
    entered = []
    for op in ops:
        if op[0] == "enter":
            entered.append(op[1])
    seen_exit = set()
    for op in ops:
        if op[0] == "exit" and op[1] < len(entered) and op[1] not in seen_exit:
            seen_exit.add(op[1])
            if entered[op[1]] == "U" and caps(kind)[0]:
                exits_on_u += 1
    # nothing but leaving a scope opened directly on U may close U
    if kind != "gen" and closed != builtins.sum(1 for op in ops if op[0] == "exit" and op[1] < len(entered) and entered[op[1]] == "U" and caps(kind)[0]):
        return "closed-underlying", "underlying iterator closed %d times; scopes on it left: %d" % (closed, exits_on_u)
    return None


def run_prop(prop, tier, seed):
    rep = Report(prop, tier, seed)
    proofs_ok = proof_stage(rep, prop)
    rng = random.Random(seed)
    texts, fails = [], 0
    n = 1500 * common.scale(rep) if tier == "quick" else 150000
    kinds = ["gen", "close", "close_ga", "send", "plain", "send_noclose"]
    dist = {}
    for i in range(n):
        kind = rng.choice(kinds)
        items = [Obj(j + 1, j) for j in range(rng.randrange(0, 7))]
        ops = gen_ops(rng, prop, kind)
        obs, closed, left = run_history(kind, items, ops, rng)
        dist[kind] = dist.get(kind, 0) + 1
        rep.count((kind, len(items), repr(ops)), len(ops) > 3, sample={"underlying": kind, "items": len(items), "ops": ops[:8]})
        bad = check_predicates(prop, kind, items, ops, obs, closed, left)
        if bad:
            fails += 1
            rep.violation("%s:%s" % ("borrow" if prop == "C07" else "scoped", bad[0]), {"underlying": kind, "items": len(items), "ops": ops, "why": bad[1], "obs": repr(obs)})
            continue
        if kind == "gen":
            # closing an async generator is observable only as "finished early"; compare items and left with the model, not the count
            pass
        # scope numbering: the model numbers only real scopes (a neutral context is BNoScope and not recorded)
        smap, k = {}, 0
        idx = 0
        for op, o in builtins.zip(ops, obs):
            if op[0] == "enter":
                if o[0] == "new":
                    smap[idx] = k
                    k += 1
                idx += 1
        acl, asend = caps(kind)
        texts.append("(mkBC [%s] %s %s [%s] [%s] %d %d)" % (
            "; ".join(coq_val(x) for x in items), "true" if acl else "false", "true" if asend else "false",
            "; ".join(coq_op(o, smap) for o in ops), "; ".join(coq_obs(o) for o in obs),
            closed if kind != "gen" else -1, left))
    rep.notes["underlying_kind_distribution"] = dist
    # generator-based underlying iterators: the close count is not observable -> patch the expected count from the model side
    gen_cases = [t for t in texts if " -1 " in t]
    texts = [t for t in texts if " -1 " not in t]
    shards = [texts[i:i + 400] for i in range(0, len(texts), 400)]
    outs = coq_eval_files(prop.lower(), [HEADER + "Definition cases : list bcase := [\n" + ";\n".join(sh) + "\n].\nEval vm_compute in (bfailing cases).\n" for sh in shards])
    mism = 0
    for sh, (rc, out) in builtins.zip(shards, outs):
        f = parse_nat_list(out) if rc == 0 else None
        if f is None:
            rep.violation("coq-eval", {"broken": "correspondence evaluation failed", "log": out[-1500:]}, no_input=True)
            break
        mism += len(f)
        for j in f[:2]:
            rep.violation("%s:model-mismatch" % ("borrow" if prop == "C07" else "scoped"), {"broken": "correspondence impl<->Model/Borrow.v (b_run)", "case": sh[j][:4000]}, no_input=not rep.has_failing_input())
    rep.cov["traces_validated_against_impl"] = len(texts)
    rep.notes["model_mismatches"] = mism
    rep.notes["generator_underlying_histories_checked_by_predicates_only"] = len(gen_cases)
    if prop == "C07":
        fails += transient_error_probes(rep)
        fails += failing_tool_probe(rep)
        fails += athrow_only_probe(rep)
        fails += tool_closes_handle_probe(rep)
        fails += concurrent_close_probe(rep)
        fails += scope_over_handle_probe(rep)
    if prop == "C08":
        fails += shared_iterator_oracle(rep, rng, tier)
        fails += scope_object_probes(rep)
        fails += shared_consumption_probe(rep)
        fails += athrow_only_probe(rep)
        fails += scope_over_handle_probe(rep)
    if not proofs_ok:
        rep.violation("proof-broken", {"broken": rep.notes.get("broken_file", "?"), "log": rep.notes.get("build_log_tail", "")[-1500:]}, no_input=True)
    return rep.finish()


def transient_error_probes(rep):
    """C07, directed: an error of the underlying iterator passes through the borrowed handle (the underlying survives it:
    class-based); the handle is then closed -- directly, through iter(), or by a closing tool -- and must be dead for
    __anext__, asend and athrow alike, the underlying open, its remaining items going to the owner in order"""
    fails = 0

    class Flaky(USend):
        fail = False

        async def __anext__(self):
            if self.fail:
                self.fail = False
                raise KeyError("transient")
            return await USend.__anext__(self)
    for how in ("direct", "iter", "tool"):
        for via in ("anext", "asend", "athrow"):
            u = Flaky([Obj(j + 1, j) for j in range(6)])
            got = {}

            async def go():
                h = a.borrow(u)
                got["first"] = (await h.__anext__()).id
                u.fail = True
                try:
                    await h.__anext__()
                    got["transient"] = "not raised"
                except KeyError:
                    got["transient"] = "raised"
                if how == "direct":
                    await h.aclose()
                elif how == "iter":
                    await a.iter(h).aclose()
                else:
                    t = a.enumerate(h)
                    try:
                        await t.__anext__()      # (a tool that was never advanced does not touch its input at all)
                    except StopAsyncIteration:
                        pass
                    await t.aclose()
                try:
                    if via == "anext":
                        x = await h.__anext__()
                    elif via == "asend":
                        x = await h.asend(None)
                    else:
                        x = await h.athrow(ValueError("thrown into a closed handle"))
                    # (athrow into a finished async generator just returns None on some interpreter versions: nothing delivered)
                    got["after"] = ("item", x.id) if isinstance(x, Obj) else ("dead", "returned %r" % (x,))
                except (StopAsyncIteration, ValueError, RuntimeError, AttributeError) as e:
                    got["after"] = ("dead", type(e).__name__)
                got["owner"] = [(await u.__anext__()).id for _ in range(2)]
            try:
                drive(go())
                why = None
                if got.get("transient") != "raised":
                    why = "the underlying iterator's error did not surface through the handle"
                elif got["after"][0] != "dead":
                    why = "a closed handle delivered %r through %s" % (got["after"], via)
                elif u.closed:
                    why = "the underlying iterator was closed"
                elif got["owner"] != [2, 3]:
                    why = "the owner received %r, expected items 2, 3" % (got["owner"],)
            except BaseException as e:  # noqa
                why = "failed with %r (%r)" % (e, got)
            rep.count(("transient-error", how, via), True)
            if why:
                fails += 1
                rep.violation("borrow:transient-error", {"closed": how, "then": via, "why": why})
    return fails


def failing_tool_probe(rep):
    """C07, directed: a borrowed handle is given to a tool whose callable (or whose consumer) fails part-way.  The tool
    cleans up its input -- the handle --, never the iterator the handle was borrowed from: the underlying iterator (an async
    generator with asend/athrow, or a class-based one) stays open, sees no exception, and hands its remaining items to
    the owner in order."""
    fails = 0

    class Boom(Exception):
        pass

    def failing(n):
        calls = []

        async def f(*args):
            calls.append(args)
            if len(calls) > n:
                raise Boom(n)
            return args[-1]
        return f
    tools = {
        "reduce": lambda h, f: a.reduce(f, h),
        "map": lambda h, f: a.list(a.map(f, h)),
        "filter": lambda h, f: a.list(a.filter(f, h)),
        "min(key)": lambda h, f: a.min(h, key=f),
        "sorted(key)": lambda h, f: a.sorted(h, key=f),
        "accumulate": lambda h, f: a.list(a.accumulate(h, f)),
        "takewhile": lambda h, f: a.list(a.takewhile(f, h)),
        "starmap": lambda h, f: a.list(a.starmap(f, a.map(lambda x: (x,), h))),
        "groupby(key)": lambda h, f: a.list(a.groupby(h, key=f)),
        "dropwhile": lambda h, f: a.list(a.dropwhile(f, h)),
    }
    for kind in ("generator", "class"):
        for name, tool in tools.items():
            seen = []

            async def agen():
                try:
                    for i in range(1, 9):
                        yield i
                except BaseException as e:  # noqa
                    seen.append(type(e).__name__)
                    raise
            got = {}

            async def go():
                u = agen() if kind == "generator" else USend([Obj(j + 1, j + 1) for j in range(8)])
                h = a.borrow(u)
                try:
                    await tool(h, failing(2))
                    got["tool"] = "returned"
                except Boom:
                    got["tool"] = "raised"
                nxt = await u.__anext__()
                got["owner"] = nxt if kind == "generator" else nxt.id
                got["closed"] = (u.ag_frame is None) if kind == "generator" else bool(u.closed)
            try:
                drive(go())
                why = None
                if got.get("tool") != "raised":
                    why = "the callable's exception did not propagate (%r)" % (got.get("tool"),)
                elif seen:
                    why = "the underlying generator was thrown %r" % (seen,)
                elif got["closed"]:
                    why = "the underlying iterator was closed"
                elif not isinstance(got["owner"], int) or not 3 <= got["owner"] <= 5:
                    why = "the owner's next item is %r" % (got["owner"],)
            except BaseException as e:  # noqa
                why = "failed with %r (underlying saw %r)" % (e, seen)
            rep.count(("borrow-failing-tool", kind, name), True)
            if why:
                fails += 1
                rep.violation("borrow:failing-tool", {"underlying": kind, "tool": name, "why": "borrow(u) given to %s whose callable raises at its third call: %s" % (name, why)})
    return fails


def athrow_only_probe(rep):
    """C07/C08, directed: an underlying iterator that offers athrow (and asend) but no aclose is not closeable, so nothing the
    library does on behalf of a borrower may shut it down some other way: tools finishing or being closed over a
    scoped_iter / borrow handle of it never call its athrow, and the owner gets the remaining items"""
    fails = 0

    class AthrowOnly(U):
        def __init__(self, items):
            U.__init__(self, items)
            self.thrown = []

        async def asend(self, value):
            return await self.__anext__()

        async def athrow(self, *a_):
            self.thrown.append(getattr(a_[0], "__name__", type(a_[0]).__name__))
            self.closed += 1
            raise a_[0] if not isinstance(a_[0], type) else a_[0]()
    for via in ("scoped_iter", "borrow"):
        for name, tool, _ in TOOLS:
            for early in (False, True):
                u = AthrowOnly([Obj(j + 1, j) for j in range(6)])
                got = {}

                async def use(h):
                    t = tool(a.islice(a.borrow(h), 2) if not early else h)
                    if early:
                        await t.__anext__()
                        if hasattr(t, "aclose"):       # (iter() of an uncloseable iterator is that iterator)
                            await t.aclose()
                    else:
                        got["items"] = len([x async for x in t])

                async def go():
                    if via == "scoped_iter":
                        async with a.scoped_iter(u) as h:
                            await use(h)
                            got["in_block"] = (await h.__anext__()).id
                    else:
                        await use(a.borrow(u))
                    got["owner"] = (await u.__anext__()).id
                try:
                    drive(go())
                    why = None
                    if u.thrown:
                        why = "the underlying iterator was thrown %r" % (u.thrown,)
                    elif not isinstance(got.get("owner"), int):
                        why = "the owner got %r afterwards" % (got.get("owner"),)
                except BaseException as e:  # noqa
                    why = "failed with %r (thrown into the underlying iterator: %r)" % (e, u.thrown)
                rep.count(("athrow-only", via, name, early), True)
                if why:
                    fails += 1
                    rep.violation("borrow:athrow-only", {"via": via, "tool": name, "closed_early": early, "why": "an iterator with athrow but without aclose, handed to %s through %s: %s" % (name, via, why)})
    return fails


def tool_closes_handle_probe(rep):
    """C07, directed: a tool that was given a borrowed handle closes that handle when the tool itself is closed -- in whatever
    argument position the handle sits (also behind an input that cannot be closed), and in whatever state the tool is (a
    groupby before its first group, or after the current group was closed).  Afterwards the handle yields nothing more and
    does not advance the underlying iterator, which stays open for its owner."""
    fails = 0

    def noclose(n):
        return U([Obj(100 + j, j) for j in range(n)])
    shapes = {
        "zip(uncloseable, handle)": (lambda h: a.zip(noclose(5), h), 1),
        "zip(handle, uncloseable)": (lambda h: a.zip(h, noclose(5)), 1),
        "map(f, uncloseable, handle)": (lambda h: a.map(lambda x, y: y, noclose(5), h), 1),
        "zip_longest(uncloseable, handle)": (lambda h: a.zip_longest(noclose(5), h), 1),
        "merge(uncloseable, handle)": (lambda h: a.merge(noclose(5), h, key=lambda x: 0), 1),
        "zip(uncloseable, uncloseable, handle)": (lambda h: a.zip(noclose(5), noclose(5), h), 1),
        "groupby(handle), closed before the first group": (lambda h: a.groupby(h, key=lambda x: 0), 0),
        "groupby(handle), closed after the first group was handed out": (lambda h: a.groupby(h, key=lambda x: 0), 1),
        "groupby(handle), closed after its current group was closed": (lambda h: a.groupby(h, key=lambda x: 0), "close-group"),
        "enumerate(handle)": (lambda h: a.enumerate(h), 1),
        "chain(handle)": (lambda h: a.chain(h), 1),
    }
    for kind in ("close", "gen"):
        for name, (mk, steps) in shapes.items():
            u = make_u(kind, [Obj(j + 1, j) for j in range(8)])
            real = u.g if kind == "gen" else u
            got = {}

            async def go():
                h = a.borrow(real)
                t = mk(h)
                if steps == "close-group":
                    k, g = await t.__anext__()
                    await g.__anext__()
                    await g.aclose()
                else:
                    for _ in range(steps):
                        await t.__anext__()
                await t.aclose()
                left_before = len(u.items)
                try:
                    x = await h.__anext__()
                    got["handle"] = "yielded item %r" % (getattr(x, "id", x),)
                except StopAsyncIteration:
                    got["handle"] = "dead"
                got["advanced"] = len(u.items) != left_before
                try:
                    got["owner"] = (await real.__anext__()).id
                except StopAsyncIteration:
                    got["owner"] = "stop"
            try:
                drive(go())
                why = None
                if got.get("handle") != "dead":
                    why = "after the tool was closed the handle %s" % (got.get("handle"),)
                elif got.get("advanced"):
                    why = "the closed handle advanced the underlying iterator"
                elif not isinstance(got.get("owner"), int):
                    why = "the underlying iterator gave its owner %r afterwards" % (got.get("owner"),)
            except BaseException as e:  # noqa
                why = "failed with %r (%r)" % (e, got)
            rep.count(("tool-closes-handle", kind, name), True)
            if why:
                fails += 1
                rep.violation("borrow:tool-closes-handle", {"underlying": kind, "tool": name, "why": "borrow(u) given to %s, the tool then closed: %s" % (name, why)})
    return fails


def concurrent_close_probe(rep):
    """C07, directed: one task is suspended inside anext(handle) while another closes the handle. Either the close is
    refused (RuntimeError: the generator is running; then the handle is simply not closed), or it succeeds -- and then the
    handle is dead once the pending item has been delivered, and never advances the underlying iterator again"""
    fails = 0

    class Tick:
        def __await__(self):
            yield "tick"

    class Slow(USend):
        async def __anext__(self):
            await Tick()
            return await USend.__anext__(self)
    for reborrow in (False, True):
        u = Slow([Obj(j + 1, j) for j in range(6)])
        h = a.borrow(u)
        target = a.borrow(h) if reborrow else h
        pending = target.__anext__()
        got = {}
        try:
            assert pending.send(None) == "tick"
            try:
                drive(target.aclose())
                got["closed"] = True
            except RuntimeError:
                got["closed"] = False
            try:
                pending.send(None)
                got["pending"] = "still suspended"
            except StopIteration as e:
                got["pending"] = e.value.id
            except StopAsyncIteration:
                got["pending"] = "stop"
            nxt = target.__anext__()
            try:
                nxt.send(None)
                got["after"] = "advanced the underlying iterator"
                nxt.close()
            except StopAsyncIteration:
                got["after"] = "dead"
            except StopIteration as e:
                got["after"] = ("item", e.value.id)
            why = None
            if got["closed"] and got["after"] != "dead":
                why = "the close reported success, yet afterwards the handle %s" % (got["after"],)
            elif u.closed:
                why = "the underlying iterator was closed"
        except BaseException as e:  # noqa
            why = "failed with %r (%r)" % (e, got)
        rep.count(("concurrent-close", reborrow), True)
        if why:
            fails += 1
            rep.violation("borrow:concurrent-close", {"reborrowed": reborrow, "observed": repr(got), "why": why})
    return fails


def shared_consumption_probe(rep):
    """C08, directed and exhaustive over small parameters: inside one scoped_iter block a tool that stops early leaves the
    shared iterator exactly where its itertools namesake leaves a shared synchronous iterator (islice with every small
    start/stop/step, compress with selectors shorter/longer than the data, takewhile, zip with a shorter partner)"""
    import itertools as it_
    fails = 0
    N = 9

    def both(name, asl, std):
        nonlocal fails

        async def run_a():
            async with a.scoped_iter(list(range(N))) as h:
                first = [x async for x in asl(h)]
                rest = [x async for x in h]
            return first, rest
        try:
            got = drive(run_a())
        except BaseException as e:  # noqa
            got = "raised %r" % (e,)
        shared = iter(range(N))
        want = (list(std(shared)), list(shared))
        rep.count(("shared-consumption", name), True)
        if got != want:
            fails += 1
            rep.violation("scoped:shared-consumption", {"tool": name, "why": "(items, what is left for the next tool): asyncstdlib %r, itertools on a shared iterator %r" % (got, want)})
    for start in range(0, 4):
        for stop in [None] + list(range(0, 9)):
            for step in range(1, 5):
                both("islice(%r, %r, %r)" % (start, stop, step), lambda h: a.islice(h, start, stop, step), lambda s_: it_.islice(s_, start, stop, step))
    for sel in ([1, 0, 1], [0, 0], [], [1] * 12):
        both("compress(handle, %r)" % (sel,), lambda h: a.compress(h, sel), lambda s_: it_.compress(s_, sel))
        both("compress(%r, handle)" % (sel,), lambda h: a.compress(sel, h), lambda s_: it_.compress(sel, s_))
    def strict_zip(mk_zip, *iterables):
        async def gen(z):
            try:
                async for row in z:
                    yield row
            except ValueError:
                yield "ValueError"
        return lambda h: gen(mk_zip(*[h if x is None else x for x in iterables]))

    def strict_zip_std(*iterables):
        def run(s_):
            try:
                for row in zip(*[s_ if x is None else x for x in iterables], strict=True):
                    yield row
            except ValueError:
                yield "ValueError"
        return run
    for shape in (([], ["x"], None), ([], None, ["x"]), ([1], ["x", "y"], None), (None, [], ["x"]), ([], [], None), ([1, 2], None, ["x"]), ([], ["x"], ["y"], None)):
        both("zip(strict=True) with the handle at the position of None in %r" % (shape,),
             strict_zip(lambda *its: a.zip(*its, strict=True), *shape), strict_zip_std(*shape))
    for k in (0, 3, 20):
        both("takewhile(< %d)" % k, lambda h: a.takewhile(lambda x: x < k, h), lambda s_: it_.takewhile(lambda x: x < k, s_))
        both("dropwhile(< %d) then 1" % k, lambda h: a.islice(a.dropwhile(lambda x: x < k, h), 1), lambda s_: it_.islice(it_.dropwhile(lambda x: x < k, s_), 1))
        both("zip(handle, range(%d))" % k, lambda h: a.zip(h, range(k)), lambda s_: zip(s_, range(k)))
        both("zip(range(%d), handle)" % k, lambda h: a.zip(range(k), h), lambda s_: zip(range(k), s_))
        both("batched(2) first %d" % k, lambda h: a.islice(a.batched(h, 2), k), lambda s_: it_.islice(it_.batched(s_, 2), k))
        both("pairwise first %d" % k, lambda h: a.islice(a.pairwise(h), k), lambda s_: it_.islice(it_.pairwise(s_), k))
        import heapq as hq_
        both("merge(handle, [100..]) first %d" % k, lambda h: a.islice(a.merge(h, [100, 101, 102]), k), lambda s_: it_.islice(hq_.merge(s_, [100, 101, 102]), k))
        both("merge([2, 5], handle) first %d" % k, lambda h: a.islice(a.merge([2, 5], h), k), lambda s_: it_.islice(hq_.merge([2, 5], s_), k))
        both("accumulate first %d" % k, lambda h: a.islice(a.accumulate(h), k), lambda s_: it_.islice(it_.accumulate(s_), k))
        both("enumerate first %d" % k, lambda h: a.islice(a.enumerate(h), k), lambda s_: it_.islice(enumerate(s_), k))
        both("filter first %d" % k, lambda h: a.islice(a.filter(lambda x: x % 2, h), k), lambda s_: it_.islice(filter(lambda x: x % 2, s_), k))
        both("starmap first %d" % k, lambda h: a.islice(a.starmap(lambda x: x, a.map(lambda x: (x,), h)), k), lambda s_: it_.islice(it_.starmap(lambda x: x, map(lambda x: (x,), s_)), k))
        both("zip_longest(handle, range(2)) first %d" % k, lambda h: a.islice(a.zip_longest(h, range(2)), k), lambda s_: it_.islice(it_.zip_longest(s_, range(2)), k))
    # groupby on the shared handle: advance to a later group, poll an earlier (stale) group, read some of the live one:
    # the next tool continues exactly where itertools.groupby leaves a shared iterator

    def keyf(x):
        return x // 2
    for script in ([("adv",), ("adv",), ("grp", 0)], [("adv",), ("grp", 0), ("adv",), ("grp", 0), ("grp", 1)], [("adv",), ("adv",), ("adv",), ("grp", 1), ("grp", 0)],
                   [("adv",), ("grp", 0), ("grp", 0), ("grp", 0)], [("adv",), ("adv",), ("grp", 1), ("grp", 0), ("grp", 1)],
                   [("adv",), ("adv",), ("grp", 1), ("grp", 0)], [("adv",), ("adv",), ("grp", 1), ("grp", 1), ("grp", 0), ("grp", 0)],
                   [("adv",), ("grp", 0), ("adv",), ("grp", 1), ("grp", 0), ("adv",), ("grp", 1)]):
        async def run_a(script=script):
            async with a.scoped_iter(list(range(N))) as h:
                gb = a.groupby(h, key=keyf)
                groups, obs = [], []
                for op in script:
                    try:
                        if op[0] == "adv":
                            k_, g = await gb.__anext__()
                            groups.append(g)
                            obs.append(("key", k_))
                        else:
                            obs.append(("item", await groups[op[1]].__anext__()))
                    except StopAsyncIteration:
                        obs.append("stop")
                rest = [x async for x in h]
            return obs, rest

        def run_s(script=script):
            shared = iter(range(N))
            gb = it_.groupby(shared, key=keyf)
            groups, obs = [], []
            for op in script:
                try:
                    if op[0] == "adv":
                        k_, g = next(gb)
                        groups.append(g)
                        obs.append(("key", k_))
                    else:
                        obs.append(("item", next(groups[op[1]])))
                except StopIteration:
                    obs.append("stop")
            return obs, list(shared)
        try:
            got = drive(run_a())
        except BaseException as e:  # noqa
            got = "raised %r" % (e,)
        want = run_s()
        rep.count(("shared-consumption", "groupby", repr(script)), True)
        if got != want:
            fails += 1
            rep.violation("scoped:shared-consumption", {"tool": "groupby %r" % (script,), "why": "(observations, what is left for the next tool): asyncstdlib %r, itertools on a shared iterator %r" % (got, want)})
    return fails


def scope_over_handle_probe(rep):
    """C07/C08, directed: a scope over a *borrowed handle* protects that handle like any other iterator: closing the scoped
    iterator (directly, via iter(), by a closing tool) inside the block does not close the handle it was made from; leaving
    the block closes neither the handle's owner nor -- for a borrowed handle, whose aclose is its own business -- anything
    beyond what the scope took"""
    fails = 0
    for how in ("direct", "iter", "tool", "raise"):
        for kind in ("close", "send", "gen"):
            u = make_u(kind, [Obj(j + 1, j) for j in range(8)])
            real = u.g if kind == "gen" else u
            got = {}

            async def go():
                b = a.borrow(real)
                got["b0"] = (await b.__anext__()).id
                if how == "raise":
                    # the block fails: that is the block's business, the iterator the handle was borrowed from hears nothing of it
                    try:
                        async with a.scoped_iter(b) as s_:
                            got["s0"] = (await s_.__anext__()).id
                            raise KeyError("the block failed")
                    except KeyError:
                        pass
                    try:
                        got["b1"] = (await b.__anext__()).id
                    except StopAsyncIteration:
                        got["b1"] = "stop"
                    try:
                        got["u_after"] = (await real.__anext__()).id
                    except StopAsyncIteration:
                        got["u_after"] = "stop"
                    return
                async with a.scoped_iter(b) as s_:
                    got["s0"] = (await s_.__anext__()).id
                    if how == "direct":
                        await s_.aclose()
                    elif how == "iter":
                        await a.iter(s_).aclose()
                    else:
                        got["tool"] = [x.id async for x in a.islice(s_, 1)]
                    try:
                        got["b1"] = (await b.__anext__()).id      # the handle the scope was made from is still alive
                    except StopAsyncIteration:
                        got["b1"] = "stop"
                try:
                    got["u_after"] = (await real.__anext__()).id  # and so is the underlying iterator, for its owner
                except StopAsyncIteration:
                    got["u_after"] = "stop"
            try:
                drive(go())
                nxt = 3 + (1 if how == "tool" else 0)
                why = None
                if how == "raise":
                    # (leaving the block closes the handle the scope was given -- its own business --, never what is beneath it)
                    if got.get("u_after") != 3:
                        why = "after a failing block over a borrowed handle the underlying iterator gave its owner %r, expected item 3" % (got.get("u_after"),)
                elif got.get("b1") != nxt:
                    why = "after closing the scoped iterator (%s) the borrowed handle it was made from gave %r, expected item %d" % (how, got.get("b1"), nxt)
                elif got.get("u_after") != nxt + 1:
                    why = "the underlying iterator gave its owner %r afterwards, expected item %d" % (got.get("u_after"), nxt + 1)
            except BaseException as e:  # noqa
                why = "failed with %r (%r)" % (e, got)
            rep.count(("scope-over-handle", how, kind), True)
            if why:
                fails += 1
                rep.violation("borrow:scope-over-handle", {"closed": how, "underlying": kind, "observed": repr(got), "why": why})
    return fails


def scope_object_probes(rep):
    """directed: (1) a scope object whose block has ended is entered again: whatever that does (the library refuses it),
    the underlying iterator is closed exactly once and nothing more is taken from it; (2) the underlying iterator's
    aclose fails at exit: the error surfaces and the handle is dead all the same"""
    fails = 0
    for kind in ("close", "close_ga", "send"):
        u = make_u(kind, [Obj(j + 1, j) for j in range(6)])
        got2 = []

        async def reenter():
            ctx = a.scoped_iter(u)
            async with ctx as h:
                await h.__anext__()
            try:
                async with ctx as h2:
                    try:
                        got2.append(await h2.__anext__())
                    except StopAsyncIteration:
                        pass
            except RuntimeError:
                pass
        try:
            drive(reenter())
            why = None
            if u.closed != 1:
                why = "underlying iterator closed %d times" % u.closed
            elif got2:
                why = "a block entered after the scope had ended received items %r" % (got2,)
        except BaseException as e:  # noqa
            why = "re-entering an ended scope failed with %r" % (e,)
        rep.count(("scope-reenter", kind), True)
        if why:
            fails += 1
            rep.violation("scoped:reenter", {"underlying": kind, "why": why})

    class FailingClose(UClose):
        async def aclose(self):
            self.closed += 1
            if self.closed == 1:
                raise KeyError("close failed")
    u = FailingClose([Obj(j + 1, j) for j in range(6)])
    state = {}

    async def failing():
        try:
            async with a.scoped_iter(u) as h:
                state["h"] = h
                await h.__anext__()
        except KeyError:
            state["raised"] = True
        u.closed = 0          # the iterator object itself would go on (it is class-based): the handle must not
        try:
            state["after"] = await state["h"].__anext__()
        except StopAsyncIteration:
            state["after"] = None
    try:
        drive(failing())
        why = None
        if not state.get("raised"):
            why = "the error of the underlying aclose() did not surface"
        elif state.get("after") is not None:
            why = "the handle still yields %r after its scope was left (underlying aclose() had failed)" % (state["after"],)
    except BaseException as e:  # noqa
        why = "failed with %r" % (e,)
    # (3) an iterable that is not its own iterator, whose iterator has no aclose (neutral context): the block still works on
    # ONE iterator -- successive tools continue where the previous one stopped
    for with_close in (False, True):
        class It:
            def __init__(self, items):
                self.items, self.closed = list(items), 0

            def __aiter__(self):
                return self

            async def __anext__(self):
                if self.closed or not self.items:
                    raise StopAsyncIteration
                return self.items.pop(0)
        if with_close:
            async def _ac(self):
                self.closed += 1
            It.aclose = _ac

        class Iterable:
            def __aiter__(self):
                return It(range(5))

        async def two_tools():
            async with a.scoped_iter(Iterable()) as it:
                first = [x async for x in a.islice(it, 2)]
                rest = [x async for x in it]
            return first, rest
        try:
            got = drive(two_tools())
            why3 = None if got == ([0, 1], [2, 3, 4]) else "islice(it, 2) then the rest gave %r, expected ([0, 1], [2, 3, 4])" % (got,)
        except BaseException as e:  # noqa
            why3 = "failed with %r" % (e,)
        rep.count(("scope-separate-iterator", with_close), True)
        if why3:
            fails += 1
            rep.violation("scoped:separate-iterator", {"iterator_has_aclose": with_close, "why": why3})
    # (4) the block sits inside an async generator that is closed while suspended at a yield inside the block (GeneratorExit
    # leaves the block): the underlying iterator is closed exactly once all the same
    for kind in ("close", "close_ga", "send"):
        u4 = make_u(kind, [Obj(j + 1, j) for j in range(6)])

        async def head_tail():
            async with a.scoped_iter(u4) as h:
                yield await h.__anext__()
                yield await h.__anext__()

        async def close_early():
            g = head_tail()
            await g.__anext__()
            await g.aclose()
        try:
            drive(close_early())
            why4 = None if u4.closed == 1 else "a generator holding the block was closed at a yield: the underlying iterator was closed %d times" % u4.closed
        except BaseException as e:  # noqa
            why4 = "failed with %r" % (e,)
        rep.count(("scope-generator-exit", kind), True)
        if why4:
            fails += 1
            rep.violation("scoped:generator-exit", {"underlying": kind, "why": why4})
    rep.count(("scope-failing-close",), True)
    if why:
        fails += 1
        rep.violation("scoped:failing-close", {"why": why})
    return fails


SEQ_TOOLS = ["islice", "takewhile", "dropwhile", "enumerate", "zip", "map", "filter", "pairwise", "batched", "accumulate", "compress", "zip_longest", "chain", "min", "sum", "list", "any", "all", "nlargest"]


def shared_iterator_oracle(rep, rng, tier):
    """Inside a scoped_iter block successive tools see consecutive suffixes, exactly as a shared synchronous
    iterator with the stdlib tools; at exit the underlying iterator is closed exactly once."""
    fails = 0
    n = 300 * common.scale(rep) if tier == "quick" else 20000
    for _ in range(n):
        items = [Obj(j + 1, rng.randrange(3)) for j in range(rng.randrange(0, 12))]
        apps = []
        for _ in range(rng.randrange(1, 5)):
            name = rng.choice(SEQ_TOOLS)
            c = draw_case(rng, name, tier)
            if c.tool.nsrc < 1 or c.tool.kind == "script":
                continue
            take = rng.choice([None, 0, 1, 2, 3])
            apps.append((c, take, rng.random() < 0.5))
        if not apps:
            continue
        depth = rng.choice([1, 1, 2, 3])
        how = rng.choice(["normal", "exception"])
        src = UClose(items)
        got_a = []

        async def go():
            cms = []
            it = src
            for _ in range(depth):
                cm = a.scoped_iter(it)
                it = await cm.__aenter__()
                cms.append(cm)
            try:
                for c, take, close in apps:
                    ctx = G.Ctx(None)
                    others = [G.Src(ctx, i + 1, s) for i, s in enumerate(c.srcs[1:])]
                    obj = c.tool.impl(ctx, [it] + others)
                    if c.tool.kind == "agg":
                        try:
                            got_a.append(("value", G.canon_result(c, await obj)))
                        except Exception as e:  # noqa
                            got_a.append(("exn", type(e).__name__))
                    else:
                        out = []
                        try:
                            while take is None or len(out) < take:
                                out.append(await obj.__anext__())
                        except StopAsyncIteration:
                            pass
                        except Exception as e:  # noqa
                            out.append(("exn", type(e).__name__))
                        if close:
                            await obj.aclose()
                        got_a.append(("items", out))
                    if src.closed:
                        return "the underlying iterator was closed inside the block by %s" % c.name
                if how == "exception":
                    raise KeyError("leave")
            except KeyError:
                pass
            finally:
                for i, cm in enumerate(reversed(cms)):
                    await cm.__aexit__(None, None, None)
                    if i < len(cms) - 1 and src.closed:
                        return "an inner scope closed the underlying iterator"
            if src.closed != 1:
                return "underlying iterator closed %d times at exit" % src.closed
            try:
                await it.__anext__()
                return "the scoped handle still yields after exit"
            except StopAsyncIteration:
                return None
        try:
            why = drive(go())
        except BaseException as e:  # noqa
            why = "the scoped block (depth %d over a class-based closeable iterator) failed with %r" % (depth, e)
        # the synchronous counterpart
        sit = builtins.iter(list(items))
        got_s = []
        for c, take, close in apps:
            ctx = G.Ctx(None)
            others = [G.SSrc(ctx, i + 1, s) for i, s in enumerate(c.srcs[1:])]
            if c.tool.kind == "agg":
                try:
                    got_s.append(("value", G.canon_result(c, c.tool.std(ctx, [sit] + others))))
                except Exception as e:  # noqa
                    got_s.append(("exn", type(e).__name__))
            else:
                out = []
                try:
                    obj = c.tool.std(ctx, [sit] + others)
                    while take is None or len(out) < take:
                        out.append(next(obj))
                except StopIteration:
                    pass
                except Exception as e:  # noqa
                    out.append(("exn", type(e).__name__))
                got_s.append(("items", out))
        rep.count(("shared", repr(items), repr([(c.name, repr(c.params), t) for c, t, _ in apps])), len(apps) > 1)
        if why is None and len(got_a) == len(got_s):
            for (c, take, close), x, y in builtins.zip(apps, got_a, got_s):
                if c.name == "batched" and x != y:
                    continue
                if c.name == "accumulate" and x == ("items", [("exn", "TypeError")]) and y == ("items", []):
                    continue      # documented deviation: accumulate of an empty iterable without initial raises TypeError      # known finding (C05): one poll less at the end, shifts nothing but the end detection
                if x[0] != y[0] or not G.same_val(x[1] if not isinstance(x[1], list) else x[1], y[1]):
                    why = "tool %s saw %r where the stdlib tool on a shared iterator sees %r" % (c.name, x, y)
                    break
        if why:
            fails += 1
            rep.violation("scoped:shared-iterator", {"items": len(items), "tools": [(c.name, repr(c.params), t, cl) for c, t, cl in apps], "depth": depth, "why": why})
    rep.notes["shared_iterator_blocks"] = n
    return fails
