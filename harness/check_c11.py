"""C11: lru_cache under overlapping calls and cancellation. Interleavings enumerated by the hand-driven scheduler;
the implementation's cache state is compared with Model/LruConc.v after every action, and the property's
invariants are evaluated directly."""
import builtins
import random

import common
from common import Report, proof_stage, coq_eval_files, parse_nat_list
from sched import Sched, Susp, Cancelled
import asyncstdlib as a

HEADER = """From Coq Require Import List ZArith NArith Bool.
Import ListNotations.
Require Import V.Model.LruConc.
Local Open Scope nat_scope.
"""


class Boom(KeyError):       # (the library handles KeyError of its own dictionary lookups: the user's must pass through)
    pass


class System:
    def __init__(self, cfg):
        self.cfg = cfg
        self.sched = Sched()
        self.invoked = []
        susp = cfg["susp"]
        sysm = self

        async def wrapped(key, fails=False):
            n = len(sysm.invoked)
            sysm.invoked.append(key)
            for _ in range(susp):
                await Susp("fn")
            if fails:
                raise Boom()
            return n
        self.cached = a.lru_cache(maxsize=cfg["maxsize"])(wrapped)
        self.results = [[] for _ in cfg["scripts"]]
        for i, sc in enumerate(cfg["scripts"]):
            self.sched.add(self.task(i, sc))
            if not sc:
                self.sched.run(i)

    async def task(self, i, script):
        res = self.results[i]
        try:
            for k, op in enumerate(script):
                if op[0] == "call":
                    before = len(self.invoked)
                    mine = {"n": None}
                    try:
                        # fails is a keyword so that it is part of the call pattern identically for equal keys
                        v = await (self.cached(op[1]) if not op[2] else self.cached(op[1], fails=True))
                        res.append(("ret", v, v < before))
                    except Boom:
                        res.append(("raised",))
                elif op[0] == "clear":
                    self.cached.cache_clear()
                    res.append(("done",))
                else:
                    self.cached.cache_discard(op[1])
                    res.append(("done",))
                if k + 1 < len(script):
                    await Susp("between")
        except Cancelled:
            res.append(("cancelled",))
            raise

    def keys(self):
        for name in ("_CachedLRUAsyncCallable__cache", "_MemoizedLRUAsyncCallable__cache"):
            c = getattr(self.cached, name, None)
            if c is not None:
                out = []
                for k in c.keys():
                    if isinstance(k, int):
                        out.append(k)
                    else:      # CallKey for calls with the fails keyword: (key, sentinel, ('fails', True))
                        vals = getattr(k, "values", None)
                        out.append(vals[0] if vals else -1)
                return out
        return []

    def snapshot(self):
        info = self.cached.cache_info()
        return {"hits": info.hits, "misses": info.misses, "currsize": info.currsize, "maxsize": info.maxsize, "inv": len(self.invoked), "keys": self.keys()}

    def act(self, action):
        if action[0] == "run":
            self.sched.run(action[1])
        else:
            self.sched.cancel(action[1])


def run_schedule(cfg, actions):
    sysm = System(cfg)
    snaps = []
    for a_ in actions:
        sysm.act(a_)
        snaps.append(sysm.snapshot())
    return sysm, snaps


def all_schedules(cfg, cap):
    stack = [[]]
    n = 0
    while stack and n < cap:
        prefix = stack.pop()
        sysm = System(cfg)
        actions = []
        pos = 0
        while True:
            r = sysm.sched.runnable()
            if not r:
                break
            if pos < len(prefix):
                c = prefix[pos]
            else:
                c = r[0]
                for alt in r[1:]:
                    stack.append(actions[:pos] + [alt])
            pos += 1
            sysm.sched.run(c)
            actions.append(c)
        n += 1
        yield [("run", c) for c in actions]


def random_schedule(cfg, rng, cancel_prob):
    sysm = System(cfg)
    actions = []
    cancelled = False
    while sysm.sched.runnable() and len(actions) < 300:
        if not cancelled and rng.random() < cancel_prob and sysm.sched.cancellable():
            act = ("cancel", rng.choice(sysm.sched.cancellable()))
            cancelled = True
        else:
            act = ("run", rng.choice(sysm.sched.runnable()))
        sysm.act(act)
        actions.append(act)
    return actions


def oracle(cfg, actions, sysm, snaps):
    if builtins.any(e is not None for e in sysm.sched.errors):
        return "task-error", "a task failed: %r" % ([e for e in sysm.sched.errors if e is not None][:1],)
    ms = cfg["maxsize"]
    eff = None if ms is None else builtins.max(ms, 0)
    ncalls_started = 0
    for sn in snaps:
        if eff is not None and sn["currsize"] > eff:
            return "overfull", "currsize %d exceeds maxsize %r" % (sn["currsize"], ms)
        if len(set(sn["keys"])) != len(sn["keys"]):
            return "duplicate-keys", "two entries for one key: %r" % (sn["keys"],)
    # every returned value was produced by the wrapped function for an equal key
    for i, (res, sc) in enumerate(builtins.zip(sysm.results, cfg["scripts"])):
        calls = [op for op in sc if op[0] == "call"]
        ci = 0
        k = 0
        for op in sc:
            if k >= len(res):
                break
            r = res[k]
            if r[0] == "cancelled":
                break
            if op[0] == "call" and r[0] == "ret":
                n = r[1]
                if not (0 <= n < len(sysm.invoked)) or sysm.invoked[n] != op[1]:
                    return "foreign-value", "task %d got the value of invocation %r for key %r (invocations %r)" % (i, n, op[1], sysm.invoked)
            k += 1
    # statistics: without clear, hits + misses = calls started and misses = invocations, at every moment
    has_clear = builtins.any(op[0] == "clear" for sc in cfg["scripts"] for op in sc)
    if not has_clear:
        for sn in snaps:
            if sn["misses"] != sn["inv"]:
                return "misses-vs-invocations", "misses %d != invocations %d" % (sn["misses"], sn["inv"])
        last = snaps[-1] if snaps else None
        if last is not None and builtins.all(sysm.sched.done):
            started = 0
            for res, sc in builtins.zip(sysm.results, cfg["scripts"]):
                cancelled_at = next((j for j, r in enumerate(res) if r[0] == "cancelled"), None)
                ops_done = len(res) if cancelled_at is None else cancelled_at
                started += len([op for op in sc[:ops_done] if op[0] == "call"])
            # a call cancelled in flight has been started as well
            inflight_cancel = last["hits"] + last["misses"] - started
            if inflight_cancel not in (0, 1):
                return "hits-plus-misses", "hits %d + misses %d vs calls completed %d" % (last["hits"], last["misses"], started)
    # the cache stays usable: a fresh sequential call afterwards behaves (hit or miss, value for its key)
    if builtins.all(sysm.sched.done):
        from gencalc import drive_tokens
        before = len(sysm.invoked)
        info0 = sysm.cached.cache_info()
        try:
            v, _ = drive_tokens(sysm.cached(0))
            v2, _ = drive_tokens(sysm.cached(0))
        except BaseException as e:  # noqa
            return "poisoned", "a call after the run failed: %r" % (e,)
        if sysm.invoked[v] != 0 or (eff != 0 and v2 != v):
            return "poisoned", "follow-up calls returned %r, %r" % (v, v2)
    return None


def cancelled_call_probe(rep):
    """directed (C11, also run by C18): a full bounded cache; a call for a new key is cancelled -- or fails -- while the
    wrapped function is suspended: nothing was stored, so nothing was evicted either: the old entries are still hits"""
    fails = 0

    class Tick:
        def __await__(self):
            yield "tick"
    for maxsize in (1, 2, 3):
        for how in ("cancel", "fail"):
            calls = []

            @a.lru_cache(maxsize=maxsize)
            async def f(x):
                calls.append(x)
                await Tick()
                if x == 99 and how == "fail":
                    raise KeyError(x)
                return x * x

            def run(coro, throw=None):
                try:
                    coro.send(None)
                    if throw is not None:
                        coro.throw(throw)
                    else:
                        coro.send(None)
                except StopIteration as e:
                    return ("ok", e.value)
                except BaseException as e:  # noqa
                    return ("exn", type(e).__name__)
                return ("still suspended",)
            for k in range(maxsize):
                run(f(k))
            before = f.cache_info()
            out = run(f(99), throw=Cancelled() if how == "cancel" else None)
            after = f.cache_info()
            ncalls = len(calls)
            again = [run(f(k)) for k in range(maxsize)]
            why = None
            if out[0] != "exn":
                why = "the interrupted call ended with %r" % (out,)
            elif after.currsize != before.currsize:
                why = "currsize went from %d to %d although the %s call stored nothing" % (before.currsize, after.currsize, "cancelled" if how == "cancel" else "failing")
            elif len(calls) != ncalls:
                why = "entries present before the interrupted call were recomputed afterwards (invocations %r)" % (calls[ncalls:],)
            elif again != [("ok", k * k) for k in range(maxsize)]:
                why = "results afterwards %r" % (again,)
            rep.count(("interrupted-call", maxsize, how), True)
            if why:
                fails += 1
                rep.violation("lru-conc:interrupted-call", {"maxsize": maxsize, "interruption": how, "why": why})
    return fails


def coq_cfg(cfg):
    def op(o):
        if o[0] == "call":
            return "QCall %d %s" % (o[1], "true" if o[2] else "false")
        return "QClear" if o[0] == "clear" else "QDiscard %d" % o[1]
    ms = cfg["maxsize"]
    return "(mkQCfg %s %d [%s])" % ("None" if ms is None else "(Some %d)" % builtins.max(ms, 0), cfg["susp"],
                                    "; ".join("[%s]" % "; ".join(op(o) for o in sc) for sc in cfg["scripts"]))


def coq_res(r):
    if r[0] == "ret":
        return "QRet %d %s" % (r[1], "true" if r[2] else "false")
    return {"raised": "QRaised", "cancelled": "QCancelled", "done": "QDone"}[r[0]]


def coq_case(cfg, actions, sysm, snaps):
    return "(mkQC %s [%s] [%s] [%s])" % (
        coq_cfg(cfg), "; ".join(("QRun %d" if k == "run" else "QCancel %d") % i for k, i in actions),
        "; ".join("(mkQS %d %d %d [%s])" % (s["hits"], s["misses"], s["inv"], "; ".join(str(k) for k in s["keys"])) for s in snaps),
        "; ".join("[%s]" % "; ".join(coq_res(r) for r in res) for res in sysm.results))


def gen_cfg(rng, small=False):
    ntasks = rng.choice([2, 2, 3]) if small else rng.choice([2, 3, 3, 4])
    nkeys = rng.choice([1, 2, 3])
    scripts = []
    for _ in range(ntasks):
        sc = []
        for _ in range(rng.randrange(1, 3 if small else 4)):
            r = rng.random()
            if r < 0.8:
                k = rng.randrange(nkeys)
                sc.append(("call", k, False))
            elif r < 0.87:
                sc.append(("call", 7, True))          # a failing pattern
            elif r < 0.94:
                sc.append(("clear",))
            else:
                sc.append(("discard", rng.randrange(nkeys)))
        scripts.append(sc)
    return {"maxsize": rng.choice([None, 1, 2, 2, 0]), "susp": rng.choice([1, 1, 2]), "scripts": scripts}


def run(tier, seed):
    rep = Report("C11", tier, seed)
    proofs_ok = proof_stage(rep, "C11")
    rng = random.Random(seed)
    texts, fails = [], 0
    nexh = 0

    def handle(cfg, actions):
        nonlocal fails
        sysm, snaps = run_schedule(cfg, actions)
        rep.count((repr(cfg), tuple(actions)), len(actions) > 3, sample={"config": cfg, "schedule": actions[:12]})
        bad = oracle(cfg, actions, sysm, snaps)
        if bad:
            fails += 1
            rep.violation("lru-conc:%s" % bad[0], {"config": cfg, "schedule": actions, "why": bad[1]})
            return
        texts.append(coq_case(cfg, actions, sysm, snaps))

    fixed = [
        {"maxsize": 1, "susp": 1, "scripts": [[("call", 0, False)], [("call", 1, False)]]},
        {"maxsize": 2, "susp": 1, "scripts": [[("call", 0, False), ("call", 1, False)], [("call", 0, False), ("call", 2, False)]]},
        {"maxsize": None, "susp": 1, "scripts": [[("call", 0, False), ("call", 0, False)], [("call", 0, False)], [("clear",)]]},
        {"maxsize": 1, "susp": 1, "scripts": [[("call", 0, False)], [("clear",), ("call", 1, False)], [("discard", 0)]]},
        {"maxsize": 2, "susp": 2, "scripts": [[("call", 7, True), ("call", 0, False)], [("call", 0, False)]]},
    ]
    ncfg = 6 if tier == "quick" else 60
    cfgs = fixed + [gen_cfg(rng, small=True) for _ in range(ncfg)]
    cap = 400 * common.scale(rep) if tier == "quick" else 8000
    for cfg in cfgs:
        for actions in all_schedules(cfg, cap):
            nexh += 1
            handle(cfg, actions)
            if rng.random() < 0.2 and actions:
                k = rng.randrange(len(actions))
                sysm, _ = run_schedule(cfg, actions[:k])
                cand = sysm.sched.cancellable()
                if cand:
                    pre = actions[:k] + [("cancel", rng.choice(cand))]
                    sysm2, _ = run_schedule(cfg, pre)
                    tail = []
                    while sysm2.sched.runnable() and len(tail) < 200:
                        t = sysm2.sched.runnable()[0]
                        sysm2.sched.run(t)
                        tail.append(("run", t))
                    handle(cfg, pre + tail)
    rep.notes["exhaustively_enumerated_schedules"] = nexh
    for _ in range(500 if tier == "quick" else 20000):
        cfg = gen_cfg(rng)
        handle(cfg, random_schedule(cfg, rng, 0.08))
    shards = [texts[i:i + 300] for i in range(0, len(texts), 300)]
    outs = coq_eval_files("c11", [HEADER + "Definition cases : list qcase := [\n" + ";\n".join(sh) + "\n].\nEval vm_compute in (qfailing cases).\n" for sh in shards])
    mism = 0
    for sh, (rc, out) in builtins.zip(shards, outs):
        f = parse_nat_list(out) if rc == 0 else None
        if f is None:
            rep.violation("coq-eval", {"broken": "correspondence evaluation failed", "log": out[-1500:]}, no_input=True)
            break
        mism += len(f)
        for j in f[:2]:
            rep.violation("lru-conc:model-mismatch", {"broken": "correspondence impl<->Model/LruConc.v (qtrace), per-action snapshots", "case": sh[j][:4000]}, no_input=not rep.has_failing_input())
    rep.cov["traces_validated_against_impl"] = len(texts)
    rep.notes["model_mismatches"] = mism
    cancelled_call_probe(rep)
    if not proofs_ok:
        rep.violation("proof-broken", {"broken": rep.notes.get("broken_file", "?"), "log": rep.notes.get("build_log_tail", "")[-1500:]}, no_input=True)
    return rep.finish()
