"""Instrumented sources / callables / consumer for the generator-calculus tools, the tool registry
(implementation builder, CPython counterpart, Coq term), and serialisation to Coq literals."""
import builtins
import functools
import heapq
import itertools
import sys

sys.path.insert(0, "/repo")
import asyncstdlib as a  # noqa: E402
from asyncstdlib import asynctools  # noqa: E402,F401


# ------------------------------------------------------------------ values
class Obj:
    """A user item: identity, ordering key, comparison class (objects of different classes are unorderable)."""
    __slots__ = ("id", "key", "cls", "__weakref__")

    def __init__(self, id, key, cls=0):
        self.id, self.key, self.cls = id, key, cls

    def _k(self, o):
        if isinstance(o, Obj) and o.cls == self.cls:
            return o.key
        return None

    def __lt__(self, o):
        k = self._k(o)
        return NotImplemented if k is None else self.key < k

    def __gt__(self, o):
        k = self._k(o)
        return NotImplemented if k is None else self.key > k

    def __le__(self, o):
        k = self._k(o)
        return NotImplemented if k is None else self.key <= k

    def __ge__(self, o):
        k = self._k(o)
        return NotImplemented if k is None else self.key >= k

    def __eq__(self, o):
        k = self._k(o)
        return False if k is None else self.key == k

    def __ne__(self, o):
        return not self.__eq__(o)

    def __hash__(self):
        return hash((self.cls, self.key))

    def __bool__(self):
        return self.key != 0

    def __add__(self, o):
        if isinstance(o, Obj):
            return self.key + o.key
        if type(o) is int:
            return self.key + o
        return NotImplemented

    def __radd__(self, o):
        if type(o) is int:
            return o + self.key
        return NotImplemented

    def __repr__(self):
        return "O%d:%d%s" % (self.id, self.key, "" if self.cls == 0 else "c%d" % self.cls)


class _Fill:
    def __repr__(self):
        return "FILL"


FILL = _Fill()


def key_of(v):
    if isinstance(v, Obj):
        return v.key
    if v is True:
        return 1
    if type(v) is int:
        return v
    return 0


def coq_z(z):
    return "(%d)%%Z" % z


def coq_val(v):
    if isinstance(v, Obj):
        return "(VObj %d%%N %s %d%%N)" % (v.id, coq_z(v.key), v.cls)
    if v is None:
        return "VNone"
    if v is FILL:
        return "VFill"
    if v is True or v is False:
        return "(VBool %s)" % ("true" if v else "false")
    if type(v) is int:
        return "(VInt %s)" % coq_z(v)
    if type(v) is tuple:
        return "(VTup [%s])" % "; ".join(coq_val(x) for x in v)
    if type(v) is list:
        return "(VList [%s])" % "; ".join(coq_val(x) for x in v)
    raise ValueError("cannot serialise %r" % (v,))


def coq_opt(x, f):
    return "None" if x is None else "(Some %s)" % f(x)


def coq_bool(b):
    return "true" if b else "false"


def same_val(x, y):
    """identity-level comparison of results (Obj by identity, containers structurally)."""
    if isinstance(x, Obj) or isinstance(y, Obj):
        return x is y
    if type(x) is not type(y):
        return False
    if type(x) in (tuple, list):
        return len(x) == len(y) and builtins.all(same_val(p, q) for p, q in builtins.zip(x, y))
    return x == y


# ------------------------------------------------------------------ callable language (mirror of Kernel/Fn.v)
def apply_fn(spec, args):
    kind = spec[0]
    if kind == "TruthMod":
        return (key_of(args[0]) % spec[1]) == spec[2] if len(args) == 1 else None
    if kind == "Ident":
        return args[0] if len(args) == 1 else None
    if kind == "KeyDiv":
        return key_of(args[0]) // spec[1] if len(args) == 1 else None
    if kind == "NegKey":
        return -key_of(args[0]) if len(args) == 1 else None
    if kind == "Sum":
        return builtins.sum(key_of(x) for x in args)
    if kind == "Tuple":
        return tuple(args)
    if kind == "Nth":
        return args[spec[1]] if spec[1] < len(args) else None
    if kind == "MaxKey":
        if not args:
            return None
        best = args[0]
        for x in args[1:]:
            if key_of(best) < key_of(x):
                best = x
        return best
    if kind == "Const":
        return spec[1]
    if kind == "NoneIfMod":
        return None if len(args) == 1 and key_of(args[0]) % spec[1] == spec[2] else (key_of(args[0]) if len(args) == 1 else None)
    raise ValueError(spec)


def coq_fn(spec):
    kind = spec[0]
    if kind == "TruthMod":
        return "(FTruthMod %s %s)" % (coq_z(spec[1]), coq_z(spec[2]))
    if kind == "KeyDiv":
        return "(FKeyDiv %s)" % coq_z(spec[1])
    if kind == "Nth":
        return "(FNth %d)" % spec[1]
    if kind == "Const":
        return "(FConst %s)" % coq_val(spec[1])
    if kind == "NoneIfMod":
        return "(FNoneIfMod %s %s)" % (coq_z(spec[1]), coq_z(spec[2]))
    return {"Ident": "FIdent", "NegKey": "FNegKey", "Sum": "FSum", "Tuple": "FTuple", "MaxKey": "FMaxKey"}[kind]


# ------------------------------------------------------------------ fault plan / context
class Inj(Exception):
    def __init__(self, id):
        self.id = id


class InjBase(BaseException):
    def __init__(self, id):
        self.id = id


class Runaway(BaseException):
    """The run did not terminate within the watchdog's bounds."""


class CloseNow(BaseException):
    """Marker in a fault plan: the consumer closes the iterator at this yield."""


class Ctx:
    def __init__(self, plan=None):
        self.log = []           # events as tuples
        self.uses = 0
        self.plan = plan        # (k, exception instance) or None
        self.fired = False

    def ev(self, *e):
        self.log.append(e)

    async def suspend(self, label):
        """a user awaitable suspends once: it hands a unique token to the event loop and records what the loop
        sends or throws back (C17: both must pass through the library unchanged)"""
        if not hasattr(self, "issued"):
            self.issued, self.replies, self.thrown = [], [], []
        tok = ("tok", len(self.issued), label)
        self.issued.append(tok)
        try:
            reply = await Tok(tok)
        except BaseException as e:  # noqa
            self.thrown.append((tok, e))
            raise
        self.replies.append((tok, reply))

    def use(self):
        n = self.uses
        self.uses += 1
        if n > 4000:
            raise Runaway("more than 4000 uses")
        if self.plan is not None and n == self.plan[0]:
            exc = self.plan[1]
            self.plan = None
            self.fired = True
            raise exc


class Tok:
    """An awaitable that suspends once (used when sources/callables are asked to suspend)."""
    __slots__ = ("t",)

    def __init__(self, t):
        self.t = t

    def __await__(self):
        return (yield self.t)


class Src:
    """Class-based async iterator with aclose; fully observable."""

    def __init__(self, ctx, idx, items, suspend=False):
        self.ctx, self.idx, self.items = ctx, idx, list(items)
        self.exh = False
        self.closing = 0
        self.closed = 0
        self.suspend = suspend

    def __aiter__(self):
        return self

    async def __anext__(self):
        self.ctx.ev("pull", self.idx)
        if self.suspend:
            await self.ctx.suspend(("pull", self.idx))
        self.ctx.use()
        if self.closed > 0 or self.exh:
            self.ctx.ev("end", self.idx)
            raise StopAsyncIteration
        if not self.items:
            self.exh = True
            self.ctx.ev("end", self.idx)
            raise StopAsyncIteration
        x = self.items.pop(0)
        self.ctx.ev("item", self.idx, x)
        return x

    close_result = None      # what aclose() returns: must be irrelevant to the library
    falsy = False            # whether the source object itself is falsy: must be irrelevant to the library as well

    def __bool__(self):
        return not Src.falsy

    async def aclose(self):
        self.ctx.ev("close", self.idx)
        self.closing += 1
        if self.suspend:
            await self.ctx.suspend(("close", self.idx))
        self.ctx.use()
        self.closed += 1
        return self.close_result

    def state(self):
        return (self.exh, self.closing, self.closed)

    def released(self):
        return self.exh or self.closing > 0


class SrcNoClose(Src):
    aclose = None

    def released(self):
        return True


del SrcNoClose.aclose  # type: ignore


class SrcNC(Src):
    """class-based async iterator without aclose"""

    def __getattribute__(self, name):
        if name == "aclose":
            raise AttributeError(name)
        return object.__getattribute__(self, name)

    def released(self):
        return True


class SrcGA:
    """proxy around a Src: only __aiter__/__anext__ are defined on the class, everything else -- aclose included --
    is provided dynamically through __getattr__ (an instrumentation wrapper, a remote handle)"""

    def __init__(self, ctx, idx, items, suspend=False):
        self.__dict__["_inner"] = Src(ctx, idx, items, suspend=suspend)

    def __aiter__(self):
        return self

    def __anext__(self):
        return self._inner.__anext__()

    def __getattr__(self, name):
        return getattr(self.__dict__["_inner"], name)

    def __setattr__(self, name, value):
        setattr(self.__dict__["_inner"], name, value)


class _AwaitObj:
    """an awaitable that is not a coroutine: what a class-based iterator may hand back from __anext__ / aclose"""

    def __init__(self, coro):
        self.coro = coro

    def __await__(self):
        return self.coro.__await__()


class SrcAwaitObj(Src):
    """__anext__ and aclose are plain methods returning awaitable objects instead of coroutine functions"""

    def __anext__(self):
        return _AwaitObj(Src.__anext__(self))

    def aclose(self):
        return _AwaitObj(Src.aclose(self))


AWAITABLE_OBJECT_SOURCES = {"on": False}


def src_class(acl, i, items, nsrc):
    """which flavour of class-based source: a function of the case only, so that replays are exact"""
    if AWAITABLE_OBJECT_SOURCES["on"] and acl:
        return SrcAwaitObj
    if not acl:
        return SrcNC
    return SrcGA if (len(items) + i + nsrc) % 4 == 3 else Src


class SSrc:
    """Synchronous twin for the CPython counterpart."""

    def __init__(self, ctx, idx, items):
        self.ctx, self.idx, self.items = ctx, idx, list(items)
        self.exh = False

    def __iter__(self):
        return self

    def __next__(self):
        self.ctx.ev("pull", self.idx)
        self.ctx.use()
        if self.exh or not self.items:
            self.exh = True
            self.ctx.ev("end", self.idx)
            raise StopIteration
        x = self.items.pop(0)
        self.ctx.ev("item", self.idx, x)
        return x


def mkfn(ctx, idx, spec, asynchronous=True, suspend=False, flavour=None):
    """flavour (C03): None/'async' = async def; 'def'; 'partial' = functools.partial(async def); 'object' = an object whose
    __call__ returns a coroutine; a callable flavour() is asked for each callable it creates"""
    if spec is None:
        return None
    if callable(flavour):
        flavour = flavour()
    if flavour in ("def", "partial", "object", "awaitobj", "awaitclass", "object-unhashable", "object-equal") and asynchronous:
        async def af(*args):
            ctx.ev("call", idx, args)
            if suspend:
                await ctx.suspend(("call", idx))
            ctx.use()
            return apply_fn(spec, list(args))
        if flavour == "def":
            def f(*args):
                ctx.ev("call", idx, args)
                ctx.use()
                return apply_fn(spec, list(args))
            return f
        if flavour == "partial":
            import functools as _ft

            async def af2(_dummy, *args):
                return await af(*args)
            return _ft.partial(af2, None)

        if flavour == "awaitclass":
            class _AwClass:       # the callable is a *class*; calling it creates an instance, and the instance is awaitable
                def __init__(self, *args):
                    self.args = args

                def __await__(self):
                    return af(*self.args).__await__()
            return _AwClass

        if flavour == "awaitobj":
            class _AwObj:        # an awaitable that is not a coroutine object (like a Future)
                def __init__(self, c):
                    self.c = c

                def __await__(self):
                    return self.c.__await__()

            def fo(*args):
                return _AwObj(af(*args))
            return fo

        if flavour == "object-unhashable":
            # a callable object of a class with value equality and no hash (like a plain dataclass with __call__)
            class _CallObjUnhashable:
                def __call__(self, *args):
                    return af(*args)

                def __eq__(self, other):
                    return type(other).__name__ == type(self).__name__
                __hash__ = None
            return _CallObjUnhashable()

        if flavour == "object-equal":
            # distinct callable objects that compare and hash equal to each other (value objects) but do different things
            class _CallObjEqual:
                def __call__(self, *args):
                    return af(*args)

                def __eq__(self, other):
                    return type(other).__name__ == type(self).__name__

                def __hash__(self):
                    return 7
            return _CallObjEqual()

        class _CallObj:
            def __call__(self, *args):
                return af(*args)

            def __len__(self):         # a callable container that happens to be empty: falsy, still a callable
                return 0
        return _CallObj()
    if asynchronous:
        async def f(*args):
            ctx.ev("call", idx, args)
            if suspend:
                await ctx.suspend(("call", idx))
            ctx.use()
            return apply_fn(spec, list(args))
    else:
        def f(*args):
            ctx.ev("call", idx, args)
            ctx.use()
            return apply_fn(spec, list(args))
    return f


def mkscript(ctx, items, asynchronous=True, suspend=False):
    """zero-argument callable returning successive items (for iter(callable, sentinel))."""
    items = list(items)

    def step():
        ctx.use()
        if not items:
            raise RuntimeError("script exhausted")
        return items.pop(0)
    if asynchronous:
        async def f():
            ctx.ev("call", 0, ())
            if suspend:
                await ctx.suspend(("call", 0))
            return step()
        return f

    def g():
        ctx.ev("call", 0, ())
        return step()
    return g


# ------------------------------------------------------------------ driving
def drive(coro):
    """Run a coroutine that must not suspend."""
    try:
        coro.send(None)
    except StopIteration as e:
        return e.value
    raise RuntimeError("unexpected suspension")


def drive_tokens(coro, cancel_at=None, cancel_exc=None, reply=False):
    """Run a coroutine to completion, resuming every suspension; optionally throw cancel_exc at the
    cancel_at-th suspension (0-based). With reply=True every token is answered by ("reply", token).
    Returns (value, tokens)."""
    toks = []
    try:
        t = coro.send(None)
        while True:
            toks.append(t)
            if cancel_at is not None and len(toks) - 1 == cancel_at:
                t = coro.throw(cancel_exc)
            else:
                t = coro.send(("reply", t) if reply else None)
    except StopIteration as e:
        return e.value, toks


def classify_exc(e):
    if isinstance(e, Runaway):
        return ("other", "Runaway")
    if isinstance(e, Inj):
        return ("inj", e.id, False)
    if isinstance(e, InjBase):
        return ("inj", e.id, True)
    for cls, name in ((TypeError, "TypeError"), (ValueError, "ValueError"), (RuntimeError, "RuntimeError"),
                      (StopAsyncIteration, "StopAsync"), (StopIteration, "StopAsync"), (AttributeError, "AttributeError"), (KeyError, "KeyError")):
        if isinstance(e, cls):
            return (name,)
    return ("other", type(e).__name__)


async def consume_async(ctx, it, is_handle=False):
    """Advance an async iterator to the end; after each item the consumer performs a use: the plan may
    make it close the iterator (CloseNow) or throw into it. Returns outcome tuple."""
    try:
        while True:
            try:
                v = await it.__anext__()
            except StopAsyncIteration:
                return ("ok", None)
            ctx.ev("yield", v)
            try:
                ctx.use()
            except CloseNow:
                await it.aclose()
                return ("exn", ("GenExit",))
            except (Inj, InjBase) as e:
                if hasattr(it, "athrow"):
                    await it.athrow(e)
                    return ("other", "athrow returned")
                raise
    except BaseException as e:  # noqa
        return ("exn", classify_exc(e), e)


def consume_sync(ctx, it):
    try:
        while True:
            try:
                v = next(it)
            except StopIteration:
                return ("ok", None)
            ctx.ev("yield", v)
            try:
                ctx.use()
            except CloseNow:
                return ("exn", ("GenExit",))
    except BaseException as e:  # noqa
        return ("exn", classify_exc(e), e)


async def run_agg(coro):
    try:
        return ("ok", await coro)
    except BaseException as e:  # noqa
        return ("exn", classify_exc(e), e)


def run_agg_sync(thunk):
    try:
        return ("ok", thunk())
    except BaseException as e:  # noqa
        return ("exn", classify_exc(e), e)


# ------------------------------------------------------------------ coq serialisation of observations
def coq_event(e):
    k = e[0]
    if k == "pull":
        return "EPull %d" % e[1]
    if k == "end":
        return "EEnd %d" % e[1]
    if k == "close":
        return "EClose %d" % e[1]
    if k == "item":
        return "EItem %d %s" % (e[1], coq_val(e[2]))
    if k == "call":
        return "ECall %d [%s]" % (e[1], "; ".join(coq_val(x) for x in e[2]))
    if k == "yield":
        return "EYield %s" % coq_val(e[1])
    raise ValueError(e)


def coq_exn(c):
    if c[0] == "inj":
        return "(XInj %d%%N %s)" % (c[1], coq_bool(c[2]))
    return {"GenExit": "XGenExit", "TypeError": "XTypeError", "ValueError": "XValueError", "RuntimeError": "XRuntimeError",
            "StopAsync": "XStopAsync", "AttributeError": "XAttributeError", "KeyError": "XKeyError"}[c[0]]


def coq_outcome(o):
    if o[0] == "ok":
        return "(OOk %s)" % coq_val(o[1])
    if o[0] == "exn" and o[1][0] != "other":
        return "(OExn %s)" % coq_exn(o[1])
    raise ValueError("unserialisable outcome %r" % (o,))


def coq_plan(plan):
    if plan is None:
        return "None"
    k, kind = plan
    return "(Some (%d, %s))" % (k, coq_exn(kind))


# ------------------------------------------------------------------ tool registry
class Tool:
    """name, kind ('gen'|'agg'|'handle'), nsrc, coq term, impl builder, std builder (or None)."""

    def __init__(self, name, kind, nsrc, coq, impl, std=None, std_poll_slack=False):
        self.name, self.kind, self.nsrc, self.coq, self.impl, self.std = name, kind, nsrc, coq, impl, std


def ofn(spec):
    return coq_opt(spec, coq_fn)


def set_canon(res, order):
    """canonical order of a set/dict result: by first occurrence in the input"""
    pos = {id(x): i for i, x in reversed(list(enumerate(order)))}
    return sorted(res, key=lambda x: pos.get(id(x), 10 ** 6))


def make_tool(name, p):
    """p: dict of parameters (already drawn). Returns Tool. Callables are created per run via ctx."""
    F = lambda ctx, spec, sync=False, **kw: mkfn(ctx, 0, spec, asynchronous=not sync, **kw)  # noqa
    if name == "zip":
        n, strict = p["n"], p["strict"]
        return Tool(name, "gen", n, "(TZip %s %d)" % (coq_bool(strict), n),
                    lambda ctx, s, **kw: a.zip(*s, strict=strict),
                    lambda ctx, s: builtins.zip(*s, strict=strict))
    if name == "map":
        n, f = p["n"], p["f"]
        return Tool(name, "gen", n, "(TMap %s %d)" % (coq_fn(f), n),
                    lambda ctx, s, **kw: a.map(F(ctx, f, **kw), *s),
                    lambda ctx, s: builtins.map(F(ctx, f, True), *s))
    if name == "filter":
        f = p["f"]
        return Tool(name, "gen", 1, "(TFilter %s)" % ofn(f),
                    lambda ctx, s, **kw: a.filter(F(ctx, f, **kw), s[0]),
                    lambda ctx, s: builtins.filter(F(ctx, f, True), s[0]))
    if name == "enumerate":
        st = p["start"]
        return Tool(name, "gen", 1, "(TEnumerate %s)" % coq_z(st),
                    lambda ctx, s, **kw: a.enumerate(s[0], st),
                    lambda ctx, s: builtins.enumerate(s[0], st))
    if name == "iter_sentinel":
        sent = p["sentinel"]
        return Tool(name, "script", 1, "(TIterSentinel %s)" % coq_val(sent),
                    lambda ctx, s, **kw: a.iter(mkscript(ctx, s[0], True, suspend=kw.get("suspend", False)), sent),
                    lambda ctx, s: builtins.iter(mkscript(ctx, s[0], False), sent))
    if name == "all":
        return Tool(name, "agg", 1, "TAll", lambda ctx, s, **kw: a.all(s[0]), lambda ctx, s: builtins.all(s[0]))
    if name == "any":
        return Tool(name, "agg", 1, "TAny", lambda ctx, s, **kw: a.any(s[0]), lambda ctx, s: builtins.any(s[0]))
    if name in ("min", "max"):
        k, d = p["key"], p["default"]
        coq = "(%s %s %s)" % ("TMin" if name == "min" else "TMax", ofn(k), coq_opt(d[0] if d else None, coq_val) if d else "None")
        af = getattr(a, name)
        sf = getattr(builtins, name)

        def impl(ctx, s, **kw):
            kws = {}
            if k is not None:
                kws["key"] = F(ctx, k, **kw)
            if d:
                kws["default"] = d[0]
            return af(s[0], **kws)

        def std(ctx, s):
            kws = {}
            if k is not None:
                kws["key"] = F(ctx, k, True)
            if d:
                kws["default"] = d[0]
            return sf(s[0], **kws)
        return Tool(name, "agg", 1, coq, impl, std)
    if name == "sum":
        st = p["start"]
        return Tool(name, "agg", 1, "(TSum %s)" % coq_val(st), lambda ctx, s, **kw: a.sum(s[0], st), lambda ctx, s: builtins.sum(s[0], st))
    if name == "list":
        return Tool(name, "agg", 1, "TList", lambda ctx, s, **kw: a.list(s[0]), lambda ctx, s: builtins.list(s[0]))
    if name == "tuple":
        return Tool(name, "agg", 1, "TTuple", lambda ctx, s, **kw: a.tuple(s[0]), lambda ctx, s: builtins.tuple(s[0]))
    if name == "set":
        return Tool(name, "agg", 1, "TSet", lambda ctx, s, **kw: a.set(s[0]), lambda ctx, s: builtins.set(s[0]))
    if name == "dict":
        return Tool(name, "agg", 1, "TDict", lambda ctx, s, **kw: a.dict(s[0]), lambda ctx, s: builtins.dict(s[0]))
    if name == "sorted":
        k, r = p["key"], p["reverse"]
        return Tool(name, "agg", 1, "(TSorted %s %s)" % (ofn(k), coq_bool(r)),
                    lambda ctx, s, **kw: a.sorted(s[0], key=F(ctx, k, **kw), reverse=r),
                    lambda ctx, s: builtins.sorted(s[0], key=F(ctx, k, True), reverse=r))
    if name == "cycle":
        return Tool(name, "gen", 1, "(TCycle %d)" % p["passes"],
                    lambda ctx, s, **kw: a.cycle(s[0]), lambda ctx, s: itertools.cycle(s[0]))
    if name == "accumulate":
        f, ini = p["f"], p["initial"]
        coq = "(TAccumulate %s %s)" % (ofn(f), coq_opt(ini[0] if ini else None, coq_val) if ini else "None")

        def impl(ctx, s, **kw):
            args = [s[0]] + ([F(ctx, f, **kw)] if f is not None else [])
            return a.accumulate(*args, **({"initial": ini[0]} if ini else {}))

        def std(ctx, s):
            args = [s[0]] + ([F(ctx, f, True)] if f is not None else [])
            return itertools.accumulate(*args, **({"initial": ini[0]} if ini else {}))
        return Tool(name, "gen", 1, coq, impl, std)
    if name == "batched":
        n, strict = p["n"], p["strict"]
        return Tool(name, "gen", 1, "(TBatched %s %s)" % (coq_z(n), coq_bool(strict)),
                    lambda ctx, s, **kw: a.batched(s[0], n, strict),
                    lambda ctx, s: std_batched(s[0], n, strict))
    if name == "chain":
        n = p["n"]
        return Tool(name, "handle", n, "(TChain %d)" % n, lambda ctx, s, **kw: a.chain(*s), lambda ctx, s: itertools.chain(*s))
    if name == "compress":
        return Tool(name, "gen", 2, "TCompress", lambda ctx, s, **kw: a.compress(s[0], s[1]), lambda ctx, s: itertools.compress(s[0], s[1]))
    if name in ("dropwhile", "takewhile"):
        f = p["f"]
        return Tool(name, "gen", 1, "(%s %s)" % ("TDropwhile" if name == "dropwhile" else "TTakewhile", coq_fn(f)),
                    lambda ctx, s, **kw: getattr(a, name)(F(ctx, f, **kw), s[0]),
                    lambda ctx, s: getattr(itertools, name)(F(ctx, f, True), s[0]))
    if name == "filterfalse":
        f = p["f"]
        return Tool(name, "gen", 1, "(TFilterfalse %s)" % ofn(f),
                    lambda ctx, s, **kw: a.filterfalse(F(ctx, f, **kw), s[0]),
                    lambda ctx, s: itertools.filterfalse(F(ctx, f, True), s[0]))
    if name == "starmap":
        f = p["f"]
        return Tool(name, "gen", 1, "(TStarmap %s)" % coq_fn(f),
                    lambda ctx, s, **kw: a.starmap(F(ctx, f, **kw), s[0]),
                    lambda ctx, s: itertools.starmap(F(ctx, f, True), s[0]))
    if name == "islice":
        args = p["args"]          # the raw python arguments (1..3 of int|None)
        sl = slice(*args)
        start, stop, step = sl.start or 0, sl.stop, sl.step or 1
        return Tool(name, "gen", 1, "(TIslice %s %s %s)" % (coq_z(start), coq_opt(stop, coq_z), coq_z(step)),
                    lambda ctx, s, **kw: a.islice(s[0], *args),
                    lambda ctx, s: itertools.islice(s[0], *args))
    if name == "pairwise":
        return Tool(name, "gen", 1, "TPairwise", lambda ctx, s, **kw: a.pairwise(s[0]), lambda ctx, s: itertools.pairwise(s[0]))
    if name == "zip_longest":
        n, fv = p["n"], p["fill"]
        return Tool(name, "gen", n, "(TZipLongest %d %s)" % (n, coq_val(fv)),
                    lambda ctx, s, **kw: a.zip_longest(*s, fillvalue=fv),
                    lambda ctx, s: itertools.zip_longest(*s, fillvalue=fv))
    if name == "merge":
        n, k, r = p["n"], p["key"], p["reverse"]
        return Tool(name, "gen", n, "(TMerge %d %s %s)" % (n, ofn(k), coq_bool(r)),
                    lambda ctx, s, **kw: a.merge(*s, key=F(ctx, k, **kw), reverse=r),
                    lambda ctx, s: heapq.merge(*s, key=F(ctx, k, True), reverse=r))
    if name in ("nlargest", "nsmallest"):
        n, k = p["n"], p["key"]
        return Tool(name, "agg", 1, "(%s %s %s)" % ("TNlargest" if name == "nlargest" else "TNsmallest", coq_z(n), ofn(k)),
                    lambda ctx, s, **kw: getattr(a, name)(s[0], n, key=F(ctx, k, **kw)),
                    lambda ctx, s: getattr(heapq, name)(n, s[0], key=F(ctx, k, True)))
    if name == "reduce":
        f, ini = p["f"], p["initial"]
        coq = "(TReduce %s %s)" % (coq_fn(f), coq_opt(ini[0] if ini else None, coq_val) if ini else "None")
        return Tool(name, "agg", 1, coq,
                    lambda ctx, s, **kw: a.reduce(F(ctx, f, **kw), s[0], *([ini[0]] if ini else [])),
                    lambda ctx, s: functools.reduce(F(ctx, f, True), s[0], *([ini[0]] if ini else [])))
    raise ValueError(name)


def std_batched(iterable, n, strict):
    """itertools.batched of CPython 3.13 (strict= is not available in 3.12): reference from the docs."""
    if n < 1:
        raise ValueError("n must be at least one")
    it = builtins.iter(iterable)

    def gen():
        while True:
            batch = builtins.tuple(itertools.islice(it, n))
            if not batch:
                return
            if strict and len(batch) != n:
                raise ValueError("batched(): incomplete batch")
            yield batch
    return gen()


ITER_TOOLS = ["zip", "map", "filter", "enumerate", "iter_sentinel", "cycle", "accumulate", "batched", "chain", "compress",
              "dropwhile", "takewhile", "filterfalse", "starmap", "islice", "pairwise", "zip_longest", "merge"]
AGG_TOOLS = ["all", "any", "min", "max", "sum", "list", "tuple", "set", "dict", "sorted", "nlargest", "nsmallest", "reduce"]


# ------------------------------------------------------------------ running one case
class Case:
    """A tool with drawn parameters, source item lists, and a fault plan."""

    def __init__(self, name, params, srcs, plan=None, acl=None):
        self.name, self.params, self.srcs, self.plan = name, params, srcs, plan
        self.acl = acl if acl is not None else [True] * len(srcs)
        self.tool = make_tool(name, params)

    def describe(self):
        return {"tool": self.name, "params": repr(self.params), "srcs": repr(self.srcs), "plan": repr(self.plan), "acl": self.acl}


# the injected user exception also derives from a builtin exception type, chosen by the fault position: library
# code that handles TypeError / AttributeError / LookupError ... for its own purposes must not catch the user's
_INJ_MIX = [None, TypeError, AttributeError, KeyError, ValueError, RuntimeError, LookupError, AssertionError, IndexError, OSError]
_INJ_CLASSES = {}


def inj_class(k):
    base = _INJ_MIX[k % len(_INJ_MIX)]
    if base is None:
        return Inj
    if base not in _INJ_CLASSES:
        _INJ_CLASSES[base] = type("Inj" + base.__name__, (Inj, base), {"__init__": Inj.__init__})
    return _INJ_CLASSES[base]


def plan_exc(kind, k=0):
    if kind is None:
        return None
    if kind[0] == "GenExit":
        return CloseNow()
    if kind[0] == "inj":
        return InjBase(kind[1]) if kind[2] else inj_class(kind[3] if len(kind) > 3 else k)(kind[1])
    raise ValueError(kind)


def _alarm(signum, frame):
    raise Runaway("wall-clock watchdog")


def run_impl(case, suspend=False, cancel_at=None, cancel_id=9, reply=False, flavour=None):
    """Run the asyncstdlib tool under a wall-clock watchdog."""
    import signal
    old = signal.signal(signal.SIGALRM, _alarm)
    signal.setitimer(signal.ITIMER_REAL, 10.0)
    unraisable = []
    oldhook = sys.unraisablehook
    sys.unraisablehook = lambda u: unraisable.append("%s: %s" % (type(u.exc_value).__name__, u.exc_value))
    # like an event loop, take over the finalisation of async generators that are dropped while suspended: their cleanup
    # is deferred (here: never run), so whatever the library leaves to the garbage collector shows up as unreleased
    orphans = []
    oldhooks = sys.get_asyncgen_hooks()
    sys.set_asyncgen_hooks(firstiter=lambda agen: None, finalizer=orphans.append)
    try:
        r = _run_impl(case, suspend, cancel_at, cancel_id, reply, flavour)
        r["unraisable"] = unraisable
        r["orphans"] = ["%s" % getattr(g, "__qualname__", g) for g in orphans]
        return r
    except Runaway as e:
        return {"outcome": ("exn", ("other", "Runaway"), e), "log": [], "states": [], "uses": 0, "srcs": [], "ctx": Ctx(None), "obj": None, "tokens": [], "unraisable": unraisable}
    finally:
        sys.set_asyncgen_hooks(*oldhooks)
        sys.unraisablehook = oldhook
        signal.setitimer(signal.ITIMER_REAL, 0)
        signal.signal(signal.SIGALRM, old)


def _run_impl(case, suspend=False, cancel_at=None, cancel_id=9, reply=False, flavour=None):
    """Run the asyncstdlib tool on instrumented class-based sources. Returns dict(outcome, log, states, uses, srcs)."""
    plan = case.plan
    ctx = Ctx((plan[0], plan_exc(plan[1], plan[0])) if plan else None)
    t = case.tool
    if t.kind == "script":
        srcs = [list(case.srcs[0])]
        script_items = srcs[0]
    else:
        srcs = [src_class(acl, i, items, len(case.srcs))(ctx, i, items, suspend=suspend) for i, (items, acl) in enumerate(builtins.zip(case.srcs, case.acl))]
    obj = t.impl(ctx, srcs, suspend=suspend, flavour=flavour) if flavour else t.impl(ctx, srcs, suspend=suspend)
    if t.kind == "agg":
        coro = run_agg(obj)
    else:
        coro = consume_async(ctx, obj)
    if suspend:
        res, toks = drive_tokens(coro, cancel_at, InjBase(cancel_id) if cancel_at is not None else None, reply=reply)
    else:
        res = drive(coro)
        toks = []
    states = [s.state() for s in srcs] if t.kind != "script" else [(False, 0, 0)]
    return {"outcome": res, "log": list(ctx.log), "states": states, "uses": ctx.uses, "srcs": srcs, "ctx": ctx, "obj": obj, "tokens": toks}


def run_impl_sync_sources(case):
    """the asyncstdlib tool over *synchronous* instrumented sources (plain iterators: no aclose, nothing suspends)"""
    plan = case.plan
    ctx = Ctx((plan[0], plan_exc(plan[1], plan[0])) if plan else None)
    t = case.tool
    srcs = [SSrc(ctx, i, items) for i, items in enumerate(case.srcs)]
    obj = t.impl(ctx, srcs, suspend=False)
    res = drive(run_agg(obj) if t.kind == "agg" else consume_async(ctx, obj))
    return {"outcome": res, "log": list(ctx.log), "uses": ctx.uses, "ctx": ctx}


def run_std(case, steps=None):
    """Run the CPython counterpart on synchronous twins. steps=None: to exhaustion; else advance `steps` times."""
    plan = case.plan
    ctx = Ctx((plan[0], plan_exc(plan[1], plan[0])) if plan else None)
    t = case.tool
    if t.std is None:
        return None
    if t.kind == "script":
        srcs = [list(case.srcs[0])]
    else:
        srcs = [SSrc(ctx, i, items) for i, items in enumerate(case.srcs)]
    if t.kind == "agg":
        res = run_agg_sync(lambda: t.std(ctx, srcs))
    else:
        try:
            it = t.std(ctx, srcs)
        except BaseException as e:  # noqa
            return {"outcome": ("exn", classify_exc(e), e), "log": list(ctx.log), "uses": ctx.uses}
        res = consume_sync(ctx, it)
    return {"outcome": res, "log": list(ctx.log), "uses": ctx.uses}


def use_kinds(log):
    """The kind of each use, in order (every use directly follows its event)."""
    return [e[0] for e in log if e[0] in ("pull", "call", "close", "yield")]


def no_close(log):
    return [e for e in log if e[0] != "close"]


def same_event(x, y):
    if x[0] != y[0] or len(x) != len(y):
        return False
    if x[0] in ("pull", "end", "close"):
        return x[1] == y[1]
    if x[0] == "item":
        return x[1] == y[1] and same_val(x[2], y[2])
    if x[0] == "call":
        return x[1] == y[1] and same_val(tuple(x[2]), tuple(y[2]))
    if x[0] == "yield":
        return same_val(x[1], y[1])
    return False


def same_log(l1, l2):
    return len(l1) == len(l2) and builtins.all(same_event(x, y) for x, y in builtins.zip(l1, l2))


def canon_result(case, res):
    """Canonical python value of an aggregation result for serialisation/comparison."""
    name = case.name
    if name == "set" and isinstance(res, (set, frozenset)):
        return set_canon(res, case.srcs[0])
    if name == "dict" and isinstance(res, dict):
        return [(k, v) for k, v in res.items()]
    return res


def coq_case(case, run):
    """Coq literal of type Tool.case for one implementation run."""
    out = run["outcome"]
    if out[0] == "ok":
        out = ("ok", canon_result(case, out[1]))
    obs = "(mkObs %s [%s] [%s])" % (
        coq_outcome(out),
        "; ".join(coq_event(e) for e in run["log"]),
        "; ".join("(%s, %d, %d)" % (coq_bool(e), c, d) for (e, c, d) in run["states"]))
    return "(mkCase %s [%s] [%s] %s %s)" % (
        case.tool.coq,
        "; ".join("[%s]" % "; ".join(coq_val(x) for x in s) for s in case.srcs),
        "; ".join(coq_bool(b) for b in case.acl),
        coq_plan(case.plan), obs)


COQ_HEADER = """From Coq Require Import List ZArith NArith Bool.
Import ListNotations.
Require Import V.Kernel.Values V.Kernel.Monad V.Kernel.Fn V.Model.Tool.
Local Open Scope nat_scope.
"""


def coq_std_case(case, srun):
    """Coq literal of type SpecTool.std_case for one run of the CPython counterpart."""
    out = srun["outcome"]
    if out[0] == "ok":
        out = ("ok", canon_result(case, out[1]))
    return "(mkStd %s [%s] %s [%s])" % (
        case.tool.coq,
        "; ".join("[%s]" % "; ".join(coq_val(x) for x in s) for s in case.srcs),
        coq_outcome(out),
        "; ".join(coq_event(e) for e in srun["log"]))


def coq_std_file(cases_text):
    return (COQ_HEADER + "Require Import V.Std.SpecTool.\nDefinition cases : list std_case := [\n" + ";\n".join(cases_text)
            + "\n].\nEval vm_compute in (std_failing cases).\n")


def coq_file(cases_text):
    return COQ_HEADER + "Definition cases : list case := [\n" + ";\n".join(cases_text) + "\n].\nEval vm_compute in (failing cases).\n"


def library_parameter_names():
    """every parameter name used by any function of the library (harvested from the current source) plus a few
    classics: a keyword argument of one of these names, meant for a *user* callable that the library forwards
    **kwargs to, must reach that callable like any other keyword"""
    import ast as _ast
    import glob as _glob
    names = {"self", "cls", "func", "function", "callback", "args", "kwargs", "kwds", "key", "instance", "fn", "exit", "cm"}
    import os as _os
    os = _os
    root = os.path.dirname(a.__file__)
    for f in sorted(_glob.glob(os.path.join(root, "*.py"))):
        try:
            tree = _ast.parse(open(f).read())
        except SyntaxError:
            continue
        for n in _ast.walk(tree):
            if isinstance(n, (_ast.FunctionDef, _ast.AsyncFunctionDef)):
                for x in n.args.posonlyargs + n.args.args + n.args.kwonlyargs:
                    names.add(x.arg)
                if n.args.vararg:
                    names.add(n.args.vararg.arg)
                if n.args.kwarg:
                    names.add(n.args.kwarg.arg)
    return sorted(n for n in names if n.isidentifier())
