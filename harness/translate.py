#!/venv/bin/python
"""translate.py: Python AST of the simple loop tools of asyncstdlib -> Gallina terms of the Pyl fragment (Model/Pyl.v).

Writes coq/Gen/PylSrc.v (regenerated from /repo's working tree on every run, never committed): one `fdef` per function,
constructor by constructor from the AST. Fail-closed: whatever is outside the fragment becomes `SUnsupported "<text>"`,
on which the equivalence proofs in Proofs/PylEquiv.v cannot go through.  Nothing here knows what the functions are
supposed to do -- the translation is purely syntactic; the meaning is Model/Pyl.v `exec`/`eval`."""
import ast
import os
import sys

REPO = os.environ.get("VERIF_REPO", "/repo")
OUT = os.path.join(os.path.dirname(os.path.abspath(__file__)), "..", "coq", "Gen", "PylSrc.v")

TARGETS = {
    "builtins.py": ["all", "any", "list", "tuple", "set", "filter", "enumerate"],
    "itertools.py": ["takewhile", "dropwhile", "filterfalse", "starmap", "pairwise"],
}


class Unsupported(Exception):
    pass


def q(s):
    return '"%s"' % s.replace('"', "'")


class Tr:
    def __init__(self, fn):
        self.fn = fn
        # names bound to callables: those passed through _awaitify somewhere in the function
        self.callables = set()
        for n in ast.walk(fn):
            if isinstance(n, ast.Assign) and isinstance(n.value, ast.Call) and isinstance(n.value.func, ast.Name) \
                    and n.value.func.id == "_awaitify":
                for t in n.targets:
                    if isinstance(t, ast.Name):
                        self.callables.add(t.id)

    # ----- expressions -----
    def expr(self, e):
        if isinstance(e, ast.Name):
            if e.id in self.callables:
                raise Unsupported("callable used as a value")
            return "(EVar %s)" % q(e.id)
        if isinstance(e, ast.Constant):
            if e.value is True:
                return "ETrue"
            if e.value is False:
                return "EFalse"
            if e.value is None:
                return "ENone"
            if isinstance(e.value, int):
                return "(EInt (%d)%%Z)" % e.value
            raise Unsupported("constant")
        if isinstance(e, ast.UnaryOp) and isinstance(e.op, ast.Not):
            return "(ENot %s)" % self.expr(e.operand)
        if isinstance(e, ast.Tuple):
            if len(e.elts) == 1 and isinstance(e.elts[0], ast.Starred):
                return "(ETupleOfList %s)" % self.expr(e.elts[0].value)
            if len(e.elts) == 2 and not any(isinstance(x, ast.Starred) for x in e.elts):
                return "(ETuple2 %s %s)" % (self.expr(e.elts[0]), self.expr(e.elts[1]))
            raise Unsupported("tuple shape")
        if isinstance(e, ast.BinOp) and isinstance(e.op, ast.Add):
            return "(EAdd %s %s)" % (self.expr(e.left), self.expr(e.right))
        if isinstance(e, ast.Await) and isinstance(e.value, ast.Call) and isinstance(e.value.func, ast.Name) \
                and e.value.func.id in self.callables and not e.value.keywords:
            f, args = e.value.func.id, e.value.args
            if len(args) == 1 and isinstance(args[0], ast.Starred):
                return "(EAwaitCallStar %s %s)" % (q(f), self.expr(args[0].value))
            if any(isinstance(x, ast.Starred) for x in args):
                raise Unsupported("starred call")
            if len(args) == 1:
                return "(EAwaitCall1 %s %s)" % (q(f), self.expr(args[0]))
            if len(args) == 2:
                return "(EAwaitCall2 %s %s %s)" % (q(f), self.expr(args[0]), self.expr(args[1]))
            raise Unsupported("call arity")
        if isinstance(e, ast.Compare) and len(e.ops) == 1 and isinstance(e.ops[0], ast.Is) \
                and isinstance(e.left, ast.Name) and e.left.id in self.callables \
                and isinstance(e.comparators[0], ast.Constant) and e.comparators[0].value is None:
            return "(EFnIsNone %s)" % q(e.left.id)
        if isinstance(e, (ast.ListComp, ast.SetComp)) and len(e.generators) == 1:
            g = e.generators[0]
            if g.is_async and not g.ifs and isinstance(g.target, ast.Name) and isinstance(e.elt, ast.Name) \
                    and e.elt.id == g.target.id and isinstance(g.iter, ast.Name):
                return "(%s %s)" % ("EListComp" if isinstance(e, ast.ListComp) else "ESetComp", q(g.iter.id))
        raise Unsupported(type(e).__name__)

    # ----- statements -----
    def block(self, stmts):
        out = [self.stmt(s) for s in stmts]
        out = [s for s in out if s is not None]
        if not out:
            return "SSkip"
        r = out[-1]
        for s in reversed(out[:-1]):
            r = "(SSeq %s %s)" % (s, r)
        return r

    def stmt(self, s):
        try:
            return self._stmt(s)
        except Unsupported as e:
            return "(SUnsupported %s)" % q("%s: %s" % (e, ast.unparse(s).splitlines()[0][:80]))

    def _stmt(self, s):
        if isinstance(s, ast.Expr) and isinstance(s.value, ast.Constant) and isinstance(s.value.value, str):
            return None                              # docstring
        if isinstance(s, ast.Expr) and isinstance(s.value, ast.Yield):
            if s.value.value is None:
                raise Unsupported("bare yield")
            return "(SYield %s)" % self.expr(s.value.value)
        if isinstance(s, ast.AnnAssign) and s.value is not None and isinstance(s.target, ast.Name):
            s = ast.Assign(targets=[s.target], value=s.value)
        if isinstance(s, ast.Assign) and len(s.targets) == 1 and isinstance(s.targets[0], ast.Name):
            x, v = s.targets[0].id, s.value
            if isinstance(v, ast.Call) and isinstance(v.func, ast.Name) and v.func.id == "_awaitify":
                if len(v.args) == 1 and isinstance(v.args[0], ast.Name) and v.args[0].id == x and not v.keywords:
                    return "(SAwaitify %s)" % q(x)
                raise Unsupported("awaitify of another name")
            if x in self.callables:
                if isinstance(v, ast.Name) and v.id == "bool":
                    return "(SSetFnBool %s)" % q(x)
                raise Unsupported("callable rebound")
            return "(SAssign %s %s)" % (q(x), self.expr(v))
        if isinstance(s, ast.AugAssign) and isinstance(s.target, ast.Name) and isinstance(s.op, ast.Add):
            return "(SAssign %s (EAdd (EVar %s) %s))" % (q(s.target.id), q(s.target.id), self.expr(s.value))
        if isinstance(s, ast.If):
            return "(SIf %s %s %s)" % (self.expr(s.test), self.block(s.body), self.block(s.orelse))
        if isinstance(s, ast.AsyncWith):
            body = self.block(s.body)
            for item in reversed(s.items):
                c = item.context_expr
                if not (isinstance(c, ast.Call) and isinstance(c.func, ast.Name) and c.func.id == "ScopedIter"
                        and len(c.args) == 1 and isinstance(c.args[0], ast.Name) and not c.keywords
                        and isinstance(item.optional_vars, ast.Name)):
                    raise Unsupported("async with")
                body = "(SWith %s %s %s)" % (q(item.optional_vars.id), q(c.args[0].id), body)
            return body
        if isinstance(s, ast.AsyncFor):
            if not (isinstance(s.target, ast.Name) and isinstance(s.iter, ast.Name)):
                raise Unsupported("async for shape")
            return "(SFor %s %s %s %s)" % (q(s.target.id), q(s.iter.id), self.block(s.body), self.block(s.orelse))
        if isinstance(s, ast.Try):
            if (len(s.body) == 1 and isinstance(s.body[0], ast.Assign) and len(s.body[0].targets) == 1
                    and isinstance(s.body[0].targets[0], ast.Name) and not s.orelse and not s.finalbody
                    and len(s.handlers) == 1 and isinstance(s.handlers[0].type, ast.Name)
                    and s.handlers[0].type.id == "StopAsyncIteration" and s.handlers[0].name is None):
                v = s.body[0].value
                if (isinstance(v, ast.Await) and isinstance(v.value, ast.Call) and isinstance(v.value.func, ast.Name)
                        and v.value.func.id == "anext" and len(v.value.args) == 1 and isinstance(v.value.args[0], ast.Name)
                        and not v.value.keywords):
                    return "(SAnextOr %s %s %s)" % (q(s.body[0].targets[0].id), q(v.value.args[0].id), self.block(s.handlers[0].body))
            raise Unsupported("try shape")
        if isinstance(s, ast.Break):
            return "SBreak"
        if isinstance(s, ast.Return):
            return "(SReturn None)" if s.value is None else "(SReturn (Some %s))" % self.expr(s.value)
        if isinstance(s, ast.Pass):
            return "SSkip"
        raise Unsupported(type(s).__name__)


def translate():
    lines = ["(* GENERATED by harness/translate.py from %s -- do not edit, not committed *)" % REPO,
             "From Coq Require Import List ZArith String.", "Import ListNotations.",
             "Require Import V.Model.Pyl.", "Local Open Scope string_scope.", ""]
    names = []
    for fname, targets in TARGETS.items():
        tree = ast.parse(open(os.path.join(REPO, "asyncstdlib", fname)).read())
        found = {}
        for n in tree.body:
            if isinstance(n, (ast.AsyncFunctionDef, ast.FunctionDef)) and n.name in targets:
                found[n.name] = n        # the last definition wins (overloads come first)
        for t in targets:
            n = found.get(t)
            if n is None or not isinstance(n, ast.AsyncFunctionDef):
                body, params = '(SUnsupported "function not found or not async def")', []
            else:
                a = n.args
                params = [x.arg for x in a.posonlyargs + a.args + a.kwonlyargs]
                if a.vararg or a.kwarg:
                    body = '(SUnsupported "variadic signature")'
                else:
                    body = Tr(n).block(n.body)
            lines.append("Definition src_%s : fdef := mkFn %s [%s]\n  %s." % (t, q(t), "; ".join(q(p) for p in params), body))
            lines.append("")
            names.append(t)
    lines.append("Definition all_sources : list fdef := [%s]." % "; ".join("src_" + t for t in names))
    text = "\n".join(lines) + "\n"
    os.makedirs(os.path.dirname(OUT), exist_ok=True)
    old = open(OUT).read() if os.path.exists(OUT) else None
    if old != text:
        open(OUT, "w").write(text)
    return text


if __name__ == "__main__":
    t = translate()
    if "-v" in sys.argv:
        print(t)
    print("translated %d functions, %d unsupported statements" % (t.count("Definition src_"), t.count("SUnsupported")))
