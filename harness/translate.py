#!/venv/bin/python
"""translate.py: Python AST of the simple loop tools of asyncstdlib -> Gallina terms of the Pyl fragment (Model/Pyl.v).

Writes coq/Gen/PylSrc.v (regenerated from /repo's working tree on every run, never committed): one `fdef` per function,
constructor by constructor from the AST. Fail-closed: whatever is outside the fragment becomes `SUnsupported "<text>"`,
on which the equivalence proofs in Proofs/PylEquivAgg.v and Proofs/PylEquivIter.v cannot go through.  Nothing here knows what the functions are
supposed to do -- the translation is purely syntactic; the meaning is Model/Pyl.v `exec`/`eval`."""
import ast
import os
import sys

REPO = os.environ.get("VERIF_REPO", "/repo")
OUT = os.environ.get("VERIF_PYL_OUT") or os.path.join(os.path.dirname(os.path.abspath(__file__)), "..", "coq", "Gen", "PylSrc.v")

TARGETS = {
    "builtins.py": ["all", "any", "list", "tuple", "set", "filter", "enumerate", "sum", "_min_max", "map", "_zip_inner", "_zip_inner_strict", "zip"],
    "itertools.py": ["takewhile", "dropwhile", "filterfalse", "starmap", "pairwise", "accumulate", "islice", "compress", "batched", "cycle",
                     "chain._chain_iterator"],
    "functools.py": ["reduce"],
}


AGGREGATIONS = ["all", "any", "list", "tuple", "set", "sum", "min_max", "reduce"]


class Unsupported(Exception):
    pass


def q(s):
    return '"%s"' % s.replace('"', "'")


class Tr:
    def __init__(self, fn, markers=()):
        self.fn = fn
        self.markers = set(markers)      # module-level "not given" marker objects (Sentinel(...))
        self.vararg = fn.args.vararg.arg if fn.args.vararg else None
        self.local_markers = set()       # x = object()
        # names bound to callables: those passed through _awaitify somewhere in the function
        self.callables = set()
        for n in ast.walk(fn):
            if isinstance(n, ast.Assign) and isinstance(n.value, ast.Call) and isinstance(n.value.func, ast.Name) \
                    and n.value.func.id == "_awaitify":
                for t in n.targets:
                    if isinstance(t, ast.Name):
                        self.callables.add(t.id)
        # names bound to a tuple of iterables: `async for X in Y` whose loop variable X is itself opened with ScopedIter(X),
        # and what Y is an alias of (`async with ScopedIter(A) as Y`)
        scoped_names = {n.args[0].id for n in ast.walk(fn) if isinstance(n, ast.Call) and isinstance(n.func, ast.Name)
                        and n.func.id == "ScopedIter" and len(n.args) == 1 and isinstance(n.args[0], ast.Name)}
        self.nested = {n.iter.id for n in ast.walk(fn) if isinstance(n, ast.AsyncFor) and isinstance(n.iter, ast.Name)
                       and isinstance(n.target, ast.Name) and n.target.id in scoped_names}
        for n in ast.walk(fn):
            if isinstance(n, ast.AsyncWith):
                for item in n.items:
                    c = item.context_expr
                    if (isinstance(item.optional_vars, ast.Name) and item.optional_vars.id in self.nested and isinstance(c, ast.Call)
                            and isinstance(c.func, ast.Name) and c.func.id == "ScopedIter" and len(c.args) == 1 and isinstance(c.args[0], ast.Name)):
                        self.nested.add(c.args[0].id)

    # ----- expressions -----
    def expr(self, e):
        if isinstance(e, ast.Name):
            if e.id in self.callables:
                raise Unsupported("callable used as a value")
            return "(EVar %s)" % q(e.id)
        if isinstance(e, ast.Constant):
            if e.value is True:
                return "ETrue"
            if e.value is False:
                return "EFalse"
            if e.value is None:
                return "ENone"
            if isinstance(e.value, int):
                return "(EInt (%d)%%Z)" % e.value
            raise Unsupported("constant")
        if isinstance(e, ast.UnaryOp) and isinstance(e.op, ast.Not) and isinstance(e.operand, ast.Name) and e.operand.id == self.vararg:
            return "(EStarEmpty %s)" % q(e.operand.id)
        if isinstance(e, ast.UnaryOp) and isinstance(e.op, ast.Not):
            return "(ENot %s)" % self.expr(e.operand)
        if isinstance(e, ast.BoolOp) and isinstance(e.op, ast.And) and len(e.values) == 2:
            return "(EAnd %s %s)" % (self.expr(e.values[0]), self.expr(e.values[1]))
        if isinstance(e, ast.Call) and isinstance(e.func, ast.Name) and e.func.id == "len" and len(e.args) == 1 and not e.keywords:
            return "(ELen %s)" % self.expr(e.args[0])
        if isinstance(e, ast.Call) and isinstance(e.func, ast.Name) and e.func.id == "tuple" and len(e.args) == 1 and not e.keywords:
            return "(ETupleOfList %s)" % self.expr(e.args[0])
        if isinstance(e, ast.Tuple):
            if len(e.elts) == 1 and isinstance(e.elts[0], ast.Starred):
                return "(ETupleOfList %s)" % self.expr(e.elts[0].value)
            if len(e.elts) == 2 and not any(isinstance(x, ast.Starred) for x in e.elts):
                return "(ETuple2 %s %s)" % (self.expr(e.elts[0]), self.expr(e.elts[1]))
            raise Unsupported("tuple shape")
        if isinstance(e, ast.BinOp) and isinstance(e.op, ast.Add):
            return "(EAdd %s %s)" % (self.expr(e.left), self.expr(e.right))
        if isinstance(e, ast.Await) and isinstance(e.value, ast.Call) and isinstance(e.value.func, ast.Name) \
                and e.value.func.id in self.callables and not e.value.keywords:
            f, args = e.value.func.id, e.value.args
            if len(args) == 1 and isinstance(args[0], ast.Starred):
                return "(EAwaitCallStar %s %s)" % (q(f), self.expr(args[0].value))
            if any(isinstance(x, ast.Starred) for x in args):
                raise Unsupported("starred call")
            if len(args) == 1:
                return "(EAwaitCall1 %s %s)" % (q(f), self.expr(args[0]))
            if len(args) == 2:
                return "(EAwaitCall2 %s %s %s)" % (q(f), self.expr(args[0]), self.expr(args[1]))
            raise Unsupported("call arity")
        if isinstance(e, ast.Compare) and len(e.ops) == 1 and isinstance(e.ops[0], ast.Is) \
                and isinstance(e.left, ast.Name) and e.left.id in self.callables \
                and isinstance(e.comparators[0], ast.Constant) and e.comparators[0].value is None:
            return "(EFnIsNone %s)" % q(e.left.id)
        if isinstance(e, ast.Compare) and len(e.ops) == 1 and isinstance(e.ops[0], (ast.Is, ast.IsNot)) \
                and isinstance(e.left, ast.Name) and e.left.id not in self.callables \
                and isinstance(e.comparators[0], ast.Name) and e.comparators[0].id in self.markers:
            t = "(EIsSentinel %s)" % q(e.left.id)
            return t if isinstance(e.ops[0], ast.Is) else "(ENot %s)" % t
        if isinstance(e, ast.Compare) and len(e.ops) == 1 and isinstance(e.ops[0], ast.Is) and isinstance(e.left, ast.Name) \
                and e.left.id not in self.callables and isinstance(e.comparators[0], ast.Constant) and e.comparators[0].value is None:
            return "(EIsNone %s)" % self.expr(e.left)
        if isinstance(e, ast.Compare) and len(e.ops) == 1 and isinstance(e.ops[0], (ast.Eq, ast.Gt, ast.LtE, ast.GtE)):
            op = {ast.Eq: "CEq", ast.Gt: "CGt", ast.LtE: "CLe", ast.GtE: "CGe"}[type(e.ops[0])]
            return "(EIntCmp %s %s %s)" % (op, self.expr(e.left), self.expr(e.comparators[0]))
        if isinstance(e, ast.BinOp) and isinstance(e.op, (ast.Sub, ast.Mod)):
            return "(%s %s %s)" % ("ESub" if isinstance(e.op, ast.Sub) else "EMod", self.expr(e.left), self.expr(e.right))
        if isinstance(e, ast.Compare) and len(e.ops) == 1 and isinstance(e.ops[0], ast.Lt):
            return "(ELt %s %s)" % (self.expr(e.left), self.expr(e.comparators[0]))
        if isinstance(e, ast.IfExp):
            if self.is_text(e):
                return "EOpaqueStr"
            return "(EIfExp %s %s %s)" % (self.expr(e.test), self.expr(e.body), self.expr(e.orelse))
        if isinstance(e, ast.Call) and isinstance(e.func, ast.Name) and e.func.id == "isinstance" and len(e.args) == 2 and not e.keywords \
                and isinstance(e.args[1], ast.Tuple) and [getattr(x, "id", None) for x in e.args[1].elts] == ["str", "bytes", "bytearray"]:
            return "(EIsStrLike %s)" % self.expr(e.args[0])
        if self.is_text(e):
            return "EOpaqueStr"
        if isinstance(e, (ast.ListComp, ast.SetComp)) and len(e.generators) == 1:
            g = e.generators[0]
            if g.is_async and not g.ifs and isinstance(g.target, ast.Name) and isinstance(e.elt, ast.Name) \
                    and e.elt.id == g.target.id and isinstance(g.iter, ast.Name):
                return "(%s %s)" % ("EListComp" if isinstance(e, ast.ListComp) else "ESetComp", q(g.iter.id))
        raise Unsupported(type(e).__name__)

    def is_text(self, e):
        """an expression that can only produce a string for an error message"""
        if isinstance(e, ast.Constant) and isinstance(e.value, str):
            return True
        if isinstance(e, ast.JoinedStr):
            return True
        if isinstance(e, ast.IfExp):
            return self.is_text(e.body) and self.is_text(e.orelse)
        if isinstance(e, ast.Attribute) and e.attr == "__name__":
            return True
        return False

    # ----- statements -----
    def fuse(self, stmts):
        """r = f(<args>)  immediately followed by  yield (await r): nothing happens in between, so it is `yield (await f(<args>))`;
        s = slice(*args) ; start, stop, step = s.start or 0, s.stop, s.step or 1: the argument normalisation prelude"""
        out, i = [], 0
        stmts = list(stmts)
        while i < len(stmts):
            s0 = stmts[i]
            s1 = stmts[i + 1] if i + 1 < len(stmts) else None
            if (isinstance(s0, ast.Assign) and len(s0.targets) == 1 and isinstance(s0.targets[0], ast.Name) and isinstance(s0.value, ast.Call)
                    and isinstance(s0.value.func, ast.Name) and s0.value.func.id in self.callables
                    and isinstance(s1, ast.Expr) and isinstance(s1.value, ast.Yield) and isinstance(s1.value.value, ast.Await)
                    and isinstance(s1.value.value.value, ast.Name) and s1.value.value.value.id == s0.targets[0].id
                    and sum(1 for n in ast.walk(self.fn) if isinstance(n, ast.Name) and n.id == s0.targets[0].id) == 2):
                out.append(ast.Expr(value=ast.Yield(value=ast.Await(value=s0.value))))
                i += 2
                continue
            if (isinstance(s0, ast.Assign) and len(s0.targets) == 1 and isinstance(s0.targets[0], ast.Name) and isinstance(s0.value, ast.IfExp)
                    and isinstance(s1, ast.AsyncFor) and isinstance(s1.iter, ast.Name) and s1.iter.id == s0.targets[0].id and not s1.orelse
                    and isinstance(s1.target, ast.Name) and len(s1.body) == 1 and isinstance(s1.body[0], ast.Expr)
                    and isinstance(s1.body[0].value, ast.Yield) and isinstance(s1.body[0].value.value, ast.Name)
                    and s1.body[0].value.value.id == s1.target.id):
                def gen_call(c):
                    return (isinstance(c, ast.Call) and isinstance(c.func, ast.Name) and len(c.args) == 1 and isinstance(c.args[0], ast.Name) and not c.keywords)
                ie = s0.value
                if gen_call(ie.body) and gen_call(ie.orelse):
                    # inner = f(star) if <test> else g(star) ; async for x in inner: yield x
                    out.append(("DELEGATE", ie.test, (ie.body.func.id, ie.body.args[0].id), (ie.orelse.func.id, ie.orelse.args[0].id)))
                    i += 2
                    continue
            if (isinstance(s0, ast.Assign) and ast.unparse(s0) == "s = slice(*args)" and s1 is not None
                    and ast.unparse(s1) == "start, stop, step = (s.start or 0, s.stop, s.step or 1)"):
                out.append("SLICE-PRELUDE")
                i += 2
                continue
            out.append(s0)
            i += 1
        return out

    def block(self, stmts):
        out = []
        for s in self.fuse(stmts):
            if s == "SLICE-PRELUDE":
                out.append("SSlicePrelude")
            elif isinstance(s, tuple) and s[0] == "DELEGATE":
                try:
                    out.append("(SIf %s (SDelegate %s %s) (SDelegate %s %s))" % (self.expr(s[1]), q(s[2][0]), q(s[2][1]), q(s[3][0]), q(s[3][1])))
                except Unsupported as e:
                    out.append("(SUnsupported %s)" % q("delegate: %s" % e))
            else:
                out.append(self.stmt(s))
        out = [s for s in out if s is not None]
        if not out:
            return "SSkip"
        r = out[-1]
        for s in reversed(out[:-1]):
            r = "(SSeq %s %s)" % (s, r)
        return r

    def stmt(self, s):
        try:
            return self._stmt(s)
        except Unsupported as e:
            return "(SUnsupported %s)" % q("%s: %s" % (e, ast.unparse(s).splitlines()[0][:80]))

    def _stmt(self, s):
        if isinstance(s, ast.Expr) and isinstance(s.value, ast.Yield) and isinstance(s.value.value, ast.Tuple) and len(s.value.value.elts) == 1 \
                and isinstance(s.value.value.elts[0], ast.Starred) and isinstance(s.value.value.elts[0].value, ast.ListComp):
            lc = s.value.value.elts[0].value
            g = lc.generators[0] if len(lc.generators) == 1 else None
            if (g is not None and not g.is_async and not g.ifs and isinstance(g.target, ast.Name) and isinstance(g.iter, ast.Name)
                    and isinstance(lc.elt, ast.Await) and isinstance(lc.elt.value, ast.Call) and isinstance(lc.elt.value.func, ast.Name)
                    and lc.elt.value.func.id == "anext" and len(lc.elt.value.args) == 1 and isinstance(lc.elt.value.args[0], ast.Name)
                    and lc.elt.value.args[0].id == g.target.id and not lc.elt.value.keywords):
                # yield (*[await anext(it) for it in star],)
                return "(SSeq (SAnextRow %s %s) (SYield (ETupleOfList (EVar %s))))" % (q("$row"), q(g.iter.id), q("$row"))
        if isinstance(s, ast.If) and isinstance(s.test, ast.Compare) and len(s.test.ops) == 1 and isinstance(s.test.ops[0], ast.IsNot) \
                and isinstance(s.test.comparators[0], ast.Name) and s.test.comparators[0].id in self.local_markers \
                and isinstance(s.test.left, ast.Await) and isinstance(s.test.left.value, ast.Call) and isinstance(s.test.left.value.func, ast.Name) \
                and s.test.left.value.func.id == "anext" and len(s.test.left.value.args) == 2 and isinstance(s.test.left.value.args[0], ast.Name) \
                and isinstance(s.test.left.value.args[1], ast.Name) and s.test.left.value.args[1].id == s.test.comparators[0].id:
            return "(SIfAnextGot %s %s %s)" % (q(s.test.left.value.args[0].id), self.block(s.body), self.block(s.orelse))
        if isinstance(s, ast.Expr) and isinstance(s.value, ast.Constant) and isinstance(s.value.value, str):
            return None                              # docstring
        if isinstance(s, ast.Expr) and isinstance(s.value, ast.Yield):
            if s.value.value is None:
                raise Unsupported("bare yield")
            return "(SYield %s)" % self.expr(s.value.value)
        if isinstance(s, ast.AnnAssign) and s.value is not None and isinstance(s.target, ast.Name):
            s = ast.Assign(targets=[s.target], value=s.value)
        if isinstance(s, ast.Assign) and len(s.targets) == 1 and isinstance(s.targets[0], ast.Name):
            x, v = s.targets[0].id, s.value
            if isinstance(v, ast.List) and not v.elts:
                return "(SListNew %s)" % q(x)
            if isinstance(v, ast.Call) and isinstance(v.func, ast.Name) and v.func.id == "object" and not v.args and not v.keywords:
                self.local_markers.add(x)
                return None
            if (isinstance(v, ast.Tuple) and len(v.elts) == 1 and isinstance(v.elts[0], ast.Starred) and isinstance(v.elts[0].value, ast.GeneratorExp)):
                ge = v.elts[0].value
                g = ge.generators[0] if len(ge.generators) == 1 else None
                if (g is not None and not g.is_async and not g.ifs and isinstance(g.target, ast.Name) and isinstance(g.iter, ast.Name)
                        and isinstance(ge.elt, ast.Call) and isinstance(ge.elt.func, ast.Name) and ge.elt.func.id == "aiter"
                        and len(ge.elt.args) == 1 and isinstance(ge.elt.args[0], ast.Name) and ge.elt.args[0].id == g.target.id):
                    return "(SStarAlias %s %s)" % (q(x), q(g.iter.id))
                raise Unsupported("tuple of iterators")
            if isinstance(v, ast.Call) and isinstance(v.func, ast.Name) and v.func.id == "_awaitify":
                if len(v.args) == 1 and isinstance(v.args[0], ast.Name) and v.args[0].id == x and not v.keywords:
                    return "(SAwaitify %s)" % q(x)
                raise Unsupported("awaitify of another name")
            if (isinstance(v, ast.Await) and isinstance(v.value, ast.Call) and isinstance(v.value.func, ast.Name) and v.value.func.id == "anext"
                    and len(v.value.args) == 1 and isinstance(v.value.args[0], ast.Name) and len(v.value.keywords) == 1
                    and v.value.keywords[0].arg == "default" and isinstance(v.value.keywords[0].value, ast.Name)
                    and v.value.keywords[0].value.id in self.markers):
                return "(SAnextDefault %s %s)" % (q(x), q(v.value.args[0].id))
            if x in self.callables:
                if isinstance(v, ast.Name) and v.id == "bool":
                    return "(SSetFnBool %s)" % q(x)
                raise Unsupported("callable rebound")
            return "(SAssign %s %s)" % (q(x), self.expr(v))
        if isinstance(s, ast.AugAssign) and isinstance(s.target, ast.Name) and isinstance(s.op, ast.Add):
            return "(SAssign %s (EAdd (EVar %s) %s))" % (q(s.target.id), q(s.target.id), self.expr(s.value))
        if isinstance(s, ast.If):
            return "(SIf %s %s %s)" % (self.expr(s.test), self.block(s.body), self.block(s.orelse))
        if isinstance(s, ast.AugAssign) and isinstance(s.target, ast.Name) and isinstance(s.op, ast.Sub):
            return "(SAssign %s (ESub (EVar %s) %s))" % (q(s.target.id), q(s.target.id), self.expr(s.value))
        if (isinstance(s, ast.AsyncWith) and len(s.items) == 1 and isinstance(s.items[0].context_expr, ast.Call)
                and isinstance(s.items[0].context_expr.func, ast.Name) and s.items[0].context_expr.func.id == "ScopedIter"
                and len(s.items[0].context_expr.args) == 1 and isinstance(s.items[0].context_expr.args[0], ast.Call)):
            # async with ScopedIter(zip(*star)) as it:  async for x in it: body
            z = s.items[0].context_expr.args[0]
            if (isinstance(z.func, ast.Name) and z.func.id == "zip" and len(z.args) == 1 and isinstance(z.args[0], ast.Starred)
                    and isinstance(z.args[0].value, ast.Name) and not z.keywords and isinstance(s.items[0].optional_vars, ast.Name)
                    and len(s.body) == 1 and isinstance(s.body[0], ast.AsyncFor) and isinstance(s.body[0].iter, ast.Name)
                    and s.body[0].iter.id == s.items[0].optional_vars.id and isinstance(s.body[0].target, ast.Name) and not s.body[0].orelse):
                return "(SForZipOwned %s %s %s)" % (q(s.body[0].target.id), q(z.args[0].value.id), self.block(s.body[0].body))
            raise Unsupported("async with over a library call")
        if isinstance(s, ast.AsyncWith):
            body = self.block(s.body)
            for item in reversed(s.items):
                c = item.context_expr
                if not (isinstance(c, ast.Call) and isinstance(c.func, ast.Name) and c.func.id == "ScopedIter"
                        and len(c.args) == 1 and isinstance(c.args[0], ast.Name) and not c.keywords
                        and isinstance(item.optional_vars, ast.Name)):
                    raise Unsupported("async with")
                body = "(%s %s %s %s)" % ("SWithStar" if c.args[0].id in self.nested else "SWith", q(item.optional_vars.id), q(c.args[0].id), body)
            return body
        if isinstance(s, ast.AsyncFor) and isinstance(s.target, ast.Tuple) and len(s.target.elts) == 2 \
                and builtins_all(isinstance(x, ast.Name) for x in s.target.elts) and isinstance(s.iter, ast.Call) and isinstance(s.iter.func, ast.Name):
            def borrowed(x):
                return (isinstance(x, ast.Call) and isinstance(x.func, ast.Name) and x.func.id == "_borrow" and len(x.args) == 1
                        and isinstance(x.args[0], ast.Name) and not x.keywords)
            c, x = s.target.elts[0].id, s.target.elts[1].id
            it = s.iter
            if (it.func.id == "aenumerate" and len(it.args) == 1 and borrowed(it.args[0]) and len(it.keywords) == 1 and it.keywords[0].arg == "start"):
                return "(SForEnum %s %s %s %s %s %s)" % (q(c), q(x), q(it.args[0].args[0].id), self.expr(it.keywords[0].value), self.block(s.body), self.block(s.orelse))
            if it.func.id == "zip" and len(it.args) == 2 and builtins_all(borrowed(a_) for a_ in it.args) and not it.keywords and not s.orelse:
                return "(SForZipBorrowed %s %s %s %s %s)" % (q(c), q(x), q(it.args[0].args[0].id), q(it.args[1].args[0].id), self.block(s.body))
            raise Unsupported("async for over a library call")
        if isinstance(s, ast.AsyncFor):
            if not (isinstance(s.target, ast.Name) and isinstance(s.iter, ast.Name)):
                raise Unsupported("async for shape")
            if s.iter.id in self.nested:
                if s.orelse:
                    raise Unsupported("async for ... else over a tuple of iterables")
                return "(SForStar %s %s %s)" % (q(s.target.id), q(s.iter.id), self.block(s.body))
            return "(SFor %s %s %s %s)" % (q(s.target.id), q(s.iter.id), self.block(s.body), self.block(s.orelse))
        if isinstance(s, ast.Raise) and isinstance(s.exc, ast.Call) and isinstance(s.exc.func, ast.Name) \
                and s.exc.func.id in ("TypeError", "ValueError") and builtins_all(self.is_text(x) for x in s.exc.args) and not s.exc.keywords \
                and (s.cause is None or (isinstance(s.cause, ast.Constant) and s.cause.value is None)):
            return "(SRaise %s)" % {"TypeError": "XTypeError", "ValueError": "XValueError"}[s.exc.func.id]
        if isinstance(s, ast.Delete) and builtins_all(isinstance(t, ast.Name) for t in s.targets):
            return None                                  # del name: nothing observable
        if isinstance(s, ast.While) and isinstance(s.test, ast.Constant) and s.test.value is True and not s.orelse:
            return "(SWhileTrue %s)" % self.block(s.body)
        if isinstance(s, ast.Try) and not s.handlers and not s.orelse and len(s.finalbody) == 1:
            f = s.finalbody[0]
            if (isinstance(f, ast.Expr) and isinstance(f.value, ast.Await) and isinstance(f.value.value, ast.Call) and isinstance(f.value.value.func, ast.Name)
                    and f.value.value.func.id == "_close_all" and len(f.value.value.args) == 1 and isinstance(f.value.value.args[0], ast.Name)):
                return "(STryFinally %s (SCloseAll %s))" % (self.block(s.body), q(f.value.value.args[0].id))
            raise Unsupported("finally shape")
        if isinstance(s, ast.Expr) and isinstance(s.value, ast.Call) and isinstance(s.value.func, ast.Attribute) and isinstance(s.value.func.value, ast.Name) \
                and not s.value.keywords:
            obj, meth, args = s.value.func.value.id, s.value.func.attr, s.value.args
            if meth == "clear" and not args:
                return "(SListClear %s)" % q(obj)
            if (meth == "append" and len(args) == 1 and isinstance(args[0], ast.Await) and isinstance(args[0].value, ast.Call)
                    and isinstance(args[0].value.func, ast.Name) and args[0].value.func.id == "anext" and len(args[0].value.args) == 1
                    and isinstance(args[0].value.args[0], ast.Name) and not args[0].value.keywords):
                return "(SAppendAnext %s %s)" % (q(obj), q(args[0].value.args[0].id))
            if meth == "append" and len(args) == 1 and not isinstance(args[0], ast.Starred):
                return "(SAppend %s %s)" % (q(obj), self.expr(args[0]))
            raise Unsupported("method call")
        if isinstance(s, ast.For) and not s.orelse and isinstance(s.iter, ast.Name) and isinstance(s.target, ast.Name):
            return "(SForList %s %s %s)" % (q(s.target.id), q(s.iter.id), self.block(s.body))
        if isinstance(s, ast.For) and not s.orelse and isinstance(s.iter, ast.Call) and not s.iter.keywords:
            fn_ = s.iter.func
            fname = fn_.id if isinstance(fn_, ast.Name) else (fn_.attr if isinstance(fn_, ast.Attribute) and isinstance(fn_.value, ast.Name)
                                                               and fn_.value.id == "_sync_builtins" else None)
            if fname == "range" and isinstance(s.target, ast.Name) and len(s.iter.args) == 1:
                return "(SForRange %s %s)" % (self.expr(s.iter.args[0]), self.block(s.body))
            if fname == "enumerate" and isinstance(s.target, ast.Tuple) and len(s.target.elts) == 2 and builtins_all(isinstance(x, ast.Name) for x in s.target.elts):
                a0 = s.iter.args[0]
                start = 0
                if len(s.iter.args) == 2 and isinstance(s.iter.args[1], ast.Constant) and isinstance(s.iter.args[1].value, int):
                    start = s.iter.args[1].value
                elif len(s.iter.args) != 1:
                    raise Unsupported("enumerate arguments")
                frm = 0
                if isinstance(a0, ast.Subscript) and isinstance(a0.slice, ast.Slice) and a0.slice.upper is None and a0.slice.step is None \
                        and isinstance(a0.slice.lower, ast.Constant) and isinstance(a0.slice.lower.value, int) and a0.slice.lower.value >= 0:
                    frm, a0 = a0.slice.lower.value, a0.value
                if isinstance(a0, ast.Name):
                    return "(SForIters %s %s %s %d (%d)%%Z %s)" % (q(s.target.elts[0].id), q(s.target.elts[1].id), q(a0.id), frm, start, self.block(s.body))
            raise Unsupported("for shape")
        if isinstance(s, ast.Try) and len(s.body) == 1 and isinstance(s.body[0], ast.Assign) and isinstance(s.body[0].value, ast.IfExp):
            # try: x = A if <marker test> else await anext(it)  except StopAsyncIteration: H
            # only the anext branch can raise StopAsyncIteration: the try moves into that branch
            a0 = s.body[0]
            ie = a0.value
            inner = ast.Try(body=[ast.Assign(targets=a0.targets, value=ie.orelse)], handlers=s.handlers, orelse=s.orelse, finalbody=s.finalbody)
            if not (isinstance(ie.body, ast.Name) and len(a0.targets) == 1 and isinstance(a0.targets[0], ast.Name)):
                raise Unsupported("try shape")
            test = self.expr(ie.test)
            if "EIsSentinel" not in test:
                raise Unsupported("try shape")
            return "(SIf %s (SAssign %s %s) %s)" % (test, q(a0.targets[0].id), self.expr(ie.body), self._stmt(inner))
        if isinstance(s, ast.Try):
            if (len(s.body) == 1 and isinstance(s.body[0], ast.Assign) and len(s.body[0].targets) == 1
                    and isinstance(s.body[0].targets[0], ast.Name) and not s.orelse and not s.finalbody
                    and len(s.handlers) == 1 and isinstance(s.handlers[0].type, ast.Name)
                    and s.handlers[0].type.id == "StopAsyncIteration" and s.handlers[0].name is None):
                v = s.body[0].value
                if (isinstance(v, ast.Await) and isinstance(v.value, ast.Call) and isinstance(v.value.func, ast.Name)
                        and v.value.func.id == "anext" and len(v.value.args) == 1 and isinstance(v.value.args[0], ast.Name)
                        and not v.value.keywords):
                    return "(SAnextOr %s %s %s)" % (q(s.body[0].targets[0].id), q(v.value.args[0].id), self.block(s.handlers[0].body))
            if (not s.orelse and not s.finalbody and len(s.handlers) == 1 and isinstance(s.handlers[0].type, ast.Name)
                    and s.handlers[0].type.id == "StopAsyncIteration" and s.handlers[0].name is None):
                return "(STryStop %s %s)" % (self.block(s.body), self.block(s.handlers[0].body))
            raise Unsupported("try shape")
        if isinstance(s, ast.Break):
            return "SBreak"
        if isinstance(s, ast.Return):
            return "(SReturn None)" if s.value is None else "(SReturn (Some %s))" % self.expr(s.value)
        if isinstance(s, ast.Pass):
            return "SSkip"
        raise Unsupported(type(s).__name__)


def builtins_all(it):
    for x in it:
        if not x:
            return False
    return True


def translate():
    lines = ["(* GENERATED by harness/translate.py from %s -- do not edit, not committed *)" % REPO,
             "From Coq Require Import List ZArith String.", "Import ListNotations.",
             "Require Import V.Kernel.Values V.Model.Pyl.", "Local Open Scope string_scope.", ""]
    names = []
    for fname, targets in TARGETS.items():
        try:
            tree = ast.parse(open(os.path.join(REPO, "asyncstdlib", fname)).read())
        except (OSError, SyntaxError):
            tree = ast.parse("")
        markers = [t.id for n in tree.body if isinstance(n, ast.Assign) and isinstance(n.value, ast.Call)
                   and isinstance(n.value.func, ast.Name) and n.value.func.id in ("Sentinel", "object")
                   for t in n.targets if isinstance(t, ast.Name)]
        found = {}
        for n in tree.body:
            if isinstance(n, (ast.AsyncFunctionDef, ast.FunctionDef)) and n.name in targets:
                found[n.name] = n        # the last definition wins (overloads come first)
        for n in tree.body:
            if isinstance(n, ast.ClassDef):
                for m in n.body:
                    if isinstance(m, (ast.AsyncFunctionDef, ast.FunctionDef)) and "%s.%s" % (n.name, m.name) in targets:
                        found["%s.%s" % (n.name, m.name)] = m
        for t in targets:
            n = found.get(t)
            if n is None or not isinstance(n, ast.AsyncFunctionDef):
                body, params = '(SUnsupported "function not found or not async def")', []
            else:
                a = n.args
                params = [x.arg for x in a.posonlyargs + a.args]
                if a.kwarg:
                    body = '(SUnsupported "variadic keyword signature")'
                else:
                    try:
                        body = Tr(n, markers).block(n.body)
                    except Exception as e:  # noqa  (fail-closed: a shape the translator itself trips over is unsupported)
                        body = "(SUnsupported %s)" % q("translator error %s: %s" % (type(e).__name__, e))
                    if a.vararg:
                        # *args consumed by the slice prelude become start/stop/step; any other *name is a list of iterables
                        params += ["start", "stop", "step"] if body.startswith("(SSeq SSlicePrelude") else [a.vararg.arg]
                    params += [x.arg for x in a.kwonlyargs]
            t = t.split("._")[-1]
            lines.append("Definition src_%s : fdef := mkFn %s [%s]\n  %s." % (t.lstrip("_"), q(t), "; ".join(q(p) for p in params), body))
            if t == "_min_max":
                # the public wrappers: `return await _min_max(iterable, key, <invert>, default)`
                wr = []
                for w in ("max", "min"):
                    m = [x for x in tree.body if isinstance(x, ast.AsyncFunctionDef) and x.name == w]
                    inv = "None"
                    if m:
                        b = [x for x in m[-1].body if not (isinstance(x, ast.Expr) and isinstance(x.value, ast.Constant))]
                        if (len(b) == 1 and isinstance(b[0], ast.Return) and isinstance(b[0].value, ast.Await) and isinstance(b[0].value.value, ast.Call)
                                and isinstance(b[0].value.value.func, ast.Name) and b[0].value.value.func.id == "_min_max" and not b[0].value.value.keywords
                                and [getattr(x, "id", None) for x in b[0].value.value.args[:2]] == ["iterable", "key"]
                                and len(b[0].value.value.args) == 4 and isinstance(b[0].value.value.args[2], ast.Constant)
                                and isinstance(b[0].value.value.args[2].value, bool) and getattr(b[0].value.value.args[3], "id", None) == "default"
                                and [x.arg for x in m[-1].args.args + m[-1].args.kwonlyargs] == ["iterable", "key", "default"]):
                            inv = "(Some %s)" % ("true" if b[0].value.value.args[2].value else "false")
                    wr.append("(%s, %s)" % (q(w), inv))
                lines.append("Definition min_max_wrappers : list (string * option bool) := [%s].\n" % "; ".join(wr))
            lines.append("")
            names.append(t.lstrip("_"))
    lines.append("Definition all_sources : list fdef := [%s]." % "; ".join("src_" + t for t in names))
    agg = [t for t in names if t in AGGREGATIONS]
    lines.append("Definition agg_sources : list fdef := [%s]." % "; ".join("src_" + t for t in agg))
    lines.append("Definition iter_sources : list fdef := [%s]." % "; ".join("src_" + t for t in names if t not in agg))
    text = "\n".join(lines) + "\n"
    os.makedirs(os.path.dirname(OUT), exist_ok=True)
    old = open(OUT).read() if os.path.exists(OUT) else None
    if old != text:
        open(OUT, "w").write(text)
    return text


if __name__ == "__main__":
    t = translate()
    if "-v" in sys.argv:
        print(t)
    print("translated %d functions, %d unsupported statements" % (t.count("Definition src_"), t.count("SUnsupported")))
