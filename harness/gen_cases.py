"""Structured random generation of cases for the generator-calculus tools (one PRNG, replayable)."""
import itertools
from gencalc import Obj, Case, FILL, apply_fn, ITER_TOOLS, AGG_TOOLS


class IdGen:
    def __init__(self):
        self.n = 0

    def next(self):
        self.n += 1
        return self.n


def draw_items(rng, ids, n, nkeys=3, cls=0, mixed=False):
    out = []
    for _ in range(n):
        c = cls
        if mixed and rng.random() < 0.3:
            c = 1
        if out and rng.random() < 0.1:
            out.append(out[-1])          # the very same object twice in a row (a repeated record)
        else:
            out.append(Obj(ids.next(), rng.randrange(nkeys), c))
    return out


def draw_len(rng, tier):
    r = rng.random()
    if r < 0.12:
        return 0
    if r < 0.25:
        return 1
    return rng.randrange(2, 6 if tier == "quick" else 8)


PRED = [("TruthMod", 2, 0), ("TruthMod", 2, 1), ("TruthMod", 3, 0), ("TruthMod", 1, 0), ("TruthMod", 5, 4), ("Ident",)]
KEYS = [None, ("KeyDiv", 2), ("NegKey",), ("KeyDiv", 1), ("KeyDiv", 3)]
BIN = [("Sum",), ("MaxKey",), ("Nth", 0), ("Nth", 1)]


def sorted_for_merge(items, key, reverse):
    kf = (lambda x: apply_fn(key, [x])) if key is not None else (lambda x: x.key)
    return sorted(items, key=kf, reverse=reverse)


def draw_case(rng, name, tier="quick", mixed_cls=False):
    ids = IdGen()
    L = lambda **kw: draw_items(rng, ids, draw_len(rng, tier), **kw)  # noqa
    if name == "zip":
        n = rng.choice([1, 2, 2, 3, 4]) if rng.random() > 0.05 else 0
        srcs = [L() for _ in range(n)]
        if n and rng.random() < 0.3:     # equal lengths matter for strict
            m = len(srcs[0])
            srcs = [draw_items(rng, ids, m) for _ in range(n)]
        return Case(name, {"n": n, "strict": rng.random() < 0.5}, srcs)
    if name == "map":
        n = rng.choice([1, 2, 3])
        return Case(name, {"n": n, "f": rng.choice([("Sum",), ("Tuple",), ("Nth", 0), ("MaxKey",)])}, [L() for _ in range(n)])
    if name in ("filter", "filterfalse"):
        return Case(name, {"f": rng.choice([None] + PRED)}, [L(nkeys=4)])
    if name == "enumerate":
        return Case(name, {"start": rng.choice([0, 0, 1, -2, 7])}, [L()])
    if name == "iter_sentinel":
        items = L(nkeys=4)
        sent = Obj(ids.next(), rng.randrange(4))
        # make sure the script ends: append something equal to the sentinel
        items = items + [Obj(ids.next(), sent.key)]
        return Case(name, {"sentinel": sent}, [items])
    if name in ("all", "any"):
        return Case(name, {}, [L(nkeys=rng.choice([1, 2, 3]))])
    if name in ("min", "max"):
        d = None
        if rng.random() < 0.4:
            d = (Obj(ids.next(), rng.randrange(3)),)
        return Case(name, {"key": rng.choice(KEYS), "default": d}, [L(mixed=mixed_cls)])
    if name == "sum":
        r = rng.random()
        if r < 0.15:
            st = [Obj(ids.next(), 1)]
            items = [[Obj(ids.next(), rng.randrange(3))] for _ in range(rng.randrange(0, 4))]
            return Case(name, {"start": st}, [items])
        return Case(name, {"start": rng.choice([0, 0, 5, -3])}, [L()])
    if name in ("list", "tuple"):
        return Case(name, {}, [L()])
    if name == "set":
        items = L()
        if rng.random() < 0.15 and items:
            items.insert(rng.randrange(len(items) + 1), [Obj(ids.next(), 0)])   # unhashable
        return Case(name, {}, [items])
    if name == "dict":
        n = draw_len(rng, tier)
        items = [(Obj(ids.next(), rng.randrange(3)), Obj(ids.next(), rng.randrange(3))) for _ in range(n)]
        if rng.random() < 0.1 and items:
            items[rng.randrange(len(items))] = (Obj(ids.next(), 1),)
        if rng.random() < 0.3 and items:      # a pair may be a list of two as well; other lengths fail
            j = rng.randrange(len(items))
            items[j] = list(items[j]) if rng.random() < 0.8 else [Obj(ids.next(), 1), Obj(ids.next(), 2), Obj(ids.next(), 0)]
        return Case(name, {}, [items])
    if name == "sorted":
        return Case(name, {"key": rng.choice(KEYS), "reverse": rng.random() < 0.5}, [L(mixed=mixed_cls)])
    if name == "cycle":
        items = L()
        n = len(items)
        if n == 0:
            return Case(name, {"passes": 3}, [items])
        # an infinite iterator: the consumer always closes it, at the t-th yield
        t = rng.randrange(1, 2 * n + 3)
        k = 2 * t - 1 if t <= n else n + t + 1   # after the first pass: end poll and aclose are uses too
        return Case(name, {"passes": 4}, [items], plan=(k, ("GenExit",)))
    if name == "accumulate":
        ini = (Obj(ids.next(), rng.randrange(3)),) if rng.random() < 0.4 else None
        return Case(name, {"f": rng.choice([None] + BIN), "initial": ini}, [L()])
    if name == "batched":
        return Case(name, {"n": rng.choice([1, 2, 2, 3, 4]), "strict": rng.random() < 0.4}, [L()])
    if name == "chain":
        n = rng.choice([0, 1, 2, 2, 3])
        return Case(name, {"n": n}, [L() for _ in range(n)])
    if name == "compress":
        return Case(name, {}, [L(), L(nkeys=2)])
    if name in ("dropwhile", "takewhile"):
        return Case(name, {"f": rng.choice(PRED)}, [L(nkeys=4)])
    if name == "starmap":
        n = draw_len(rng, tier)
        items = [tuple(Obj(ids.next(), rng.randrange(3)) for _ in range(rng.randrange(0, 3))) for _ in range(n)]
        return Case(name, {"f": rng.choice([("Sum",), ("Tuple",), ("MaxKey",)])}, [items])
    if name == "islice":
        def v(hi=7, none=0.2):
            return None if rng.random() < none else rng.randrange(0, hi)
        k = rng.choice([1, 2, 2, 3, 3])
        if k == 1:
            args = (v(none=0.15),)
        elif k == 2:
            args = (v(), v())
        else:
            st = rng.choice([None, 1, 1, 2, 3])
            args = (v(), v(), st)
        return Case(name, {"args": args}, [L()])
    if name == "pairwise":
        return Case(name, {}, [L()])
    if name == "zip_longest":
        n = rng.choice([1, 2, 2, 3]) if rng.random() > 0.05 else 0
        return Case(name, {"n": n, "fill": rng.choice([None, None, FILL, 0])}, [L() for _ in range(n)])
    if name == "merge":
        n = rng.choice([0, 1, 2, 2, 3, 3, 4])
        key = rng.choice(KEYS)
        rev = rng.random() < 0.5
        srcs = [sorted_for_merge(L(), key, rev) for _ in range(n)]
        if rng.random() < 0.1 and n:   # unsorted input is still a valid call
            rng.shuffle(srcs[0])
        return Case(name, {"n": n, "key": key, "reverse": rev}, srcs)
    if name in ("nlargest", "nsmallest"):
        items = L()
        n = rng.choice([-1, 0, 1, 2, 3, len(items), len(items) + 2])
        return Case(name, {"n": n, "key": rng.choice(KEYS)}, [items])
    if name == "reduce":
        ini = (Obj(ids.next(), rng.randrange(3)),) if rng.random() < 0.4 else None
        return Case(name, {"f": rng.choice(BIN), "initial": ini}, [L()])
    raise ValueError(name)


def with_plan(case, plan):
    c = Case(case.name, case.params, case.srcs, plan, case.acl)
    return c


def small_exhaustive(name, maxlen=3, nkeys=2):
    """Bounded-exhaustive item lists for single-source tools: all key vectors up to maxlen."""
    for n in range(maxlen + 1):
        for keys in itertools.product(range(nkeys), repeat=n):
            yield [Obj(i + 1, k) for i, k in enumerate(keys)]


def exhaustive_cases(name, maxlen=4, nkeys=3):
    """Bounded-exhaustive small scope (thorough tier): every key vector up to maxlen over nkeys keys, for every
    parameter choice of a small grid; multi-source tools: every pair of key vectors up to length 3 over 2 keys."""
    def lists(ml, nk, base=0):
        for n in range(ml + 1):
            for keys in itertools.product(range(nk), repeat=n):
                yield [Obj(base + i + 1, k) for i, k in enumerate(keys)]
    single = {
        "filter": [{"f": None}, {"f": ("TruthMod", 2, 0)}], "filterfalse": [{"f": None}, {"f": ("TruthMod", 2, 0)}],
        "enumerate": [{"start": 0}], "all": [{}], "any": [{}],
        "min": [{"key": None, "default": None}, {"key": ("KeyDiv", 2), "default": None}], "max": [{"key": None, "default": None}, {"key": ("KeyDiv", 2), "default": None}],
        "sum": [{"start": 0}], "list": [{}], "tuple": [{}], "set": [{}], "sorted": [{"key": None, "reverse": r} for r in (False, True)] + [{"key": ("KeyDiv", 2), "reverse": r} for r in (False, True)],
        "accumulate": [{"f": None, "initial": None}, {"f": ("MaxKey",), "initial": None}], "batched": [{"n": n, "strict": st} for n in (1, 2, 3) for st in (False, True)],
        "dropwhile": [{"f": ("TruthMod", 2, 0)}], "takewhile": [{"f": ("TruthMod", 2, 0)}], "pairwise": [{}],
        "islice": [{"args": a_} for a_ in [(0,), (2,), (None,), (1, 3), (2, 1), (0, None, 2), (1, 4, 2), (3, None), (5, 6)]],
        "nlargest": [{"n": n, "key": k} for n in (0, 1, 2, 5) for k in (None, ("KeyDiv", 2))], "nsmallest": [{"n": n, "key": k} for n in (0, 1, 2, 5) for k in (None, ("KeyDiv", 2))],
        "reduce": [{"f": ("MaxKey",), "initial": None}, {"f": ("Sum",), "initial": None}],
    }
    if name in single:
        for params in single[name]:
            for xs in lists(maxlen, nkeys):
                yield Case(name, params, [xs])
        return
    multi = {
        "zip": [{"n": 2, "strict": False}, {"n": 2, "strict": True}], "map": [{"n": 2, "f": ("Sum",)}], "compress": [{}],
        "zip_longest": [{"n": 2, "fill": None}], "chain": [{"n": 2}],
        "merge": [{"n": 2, "key": None, "reverse": r} for r in (False, True)] + [{"n": 2, "key": ("KeyDiv", 2), "reverse": r} for r in (False, True)],
    }
    if name in multi:
        for params in multi[name]:
            for xs in lists(3, 2):
                for ys in lists(3, 2, base=10):
                    if name == "merge":
                        yield Case(name, params, [sorted_for_merge(xs, params["key"], params["reverse"]), sorted_for_merge(ys, params["key"], params["reverse"])])
                    else:
                        yield Case(name, params, [xs, ys])
