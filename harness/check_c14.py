"""C14: ExitStack unwinds like nested async-with; each exit runs exactly once.
Oracles: real nested `async with` statements (single unwind) and contextlib.AsyncExitStack (every history)."""
import builtins
import contextlib
import itertools
import random

import common
from common import Report, proof_stage, coq_eval_files, parse_nat_list
from gencalc import drive
import asyncstdlib as a

HEADER = """From Coq Require Import List ZArith NArith Bool.
Import ListNotations.
Require Import V.Model.ExitStack.
Local Open Scope nat_scope.
"""
KINDS = ["acm", "scm", "apush", "spush", "cmpush", "acb", "scb"]
BEH = ["falsy", "truthy", "raise"]


class E(Exception):
    def __init__(self, id):
        self.id = id

    def __repr__(self):
        return "E%d" % self.id


class EB(BaseException):
    """a BaseException that is not an Exception (like a cancellation)"""

    def __init__(self, id):
        self.id = id


class EF(E):
    """an exception that is falsy (an empty error collection): an exception all the same"""

    def __len__(self):
        return 0


class EBF(EB):
    def __len__(self):
        return 0


class EnterFails(AttributeError):      # (an AttributeError: the library handles that type itself when it looks up __aexit__)
    pass


def eid(ev):
    return None if ev is None else (ev.id if isinstance(ev, (E, EB)) else -1)


class RaisesWhenTested:
    def __init__(self, exc):
        self.exc = exc

    def __bool__(self):
        raise self.exc


class Entry:
    """spec of one registered exit: id, kind, behaviour without / with an exception in flight"""

    def __init__(self, id, kind, on_none, on_exc):
        self.id, self.kind, self.on_none, self.on_exc = id, kind, on_none, on_exc

    def act(self, log, ev):
        log.append((self.id, eid(ev)))
        b = self.on_none if ev is None else self.on_exc
        if b == "raise":
            # odd entries fail with a BaseException that is not an Exception
            # every third entry fails with a *falsy* exception (one with an empty __len__): an exception in flight all the same
            exc = ((EBF if self.id % 3 == 0 else EB) if self.id % 2 else (EF if self.id % 3 == 0 else E))(1000 + self.id * 2 + (0 if ev is None else 1))
            if ev is not None and self.id % 4 == 2 and self.kind not in ("acb", "scb"):
                # with an exception in flight the exit's result is tested for truth: the failure may come from that test
                return RaisesWhenTested(exc)
            raise exc
        if b == "falsy" and ev is not None and self.id % 5 == 3 and self.kind not in ("acb", "scb"):
            raise ev          # not suppressing by re-raising what was received: the same exception stays in flight
        return b == "truthy"

    def raised_id(self, inflight):
        return 1000 + self.id * 2 + (0 if inflight is None else 1)

    def coq(self):
        def b(x, inflight):
            return {"falsy": "BFalsy", "truthy": "BTruthy"}.get(x) or "(BRaise %d)" % self.raised_id(inflight)
        iscb = self.kind in ("acb", "scb")       # a callback never learns about the exception: one behaviour
        return "(mkEntry %d %s %s %s)" % (self.id, "KCallback" if iscb else "KExit", b(self.on_none, None), b(self.on_exc, None if iscb else 1))

    # ---- real objects
    def as_acm(self, log, enter_fails=False):
        ent = self

        class ACM:
            async def __aenter__(s):
                if enter_fails:
                    raise EnterFails()
                return ent.id

            async def __aexit__(s, et, ev, tb):
                return ent.act(log, ev)
        if ent.id % 2:
            # an object supporting both protocols: `async with`, enter_context and push all use the asynchronous one
            def wrong(s, *a):
                raise AssertionError("the synchronous protocol of a dual-protocol manager was used")
            ACM.__enter__ = ACM.__exit__ = wrong
        return ACM()

    def as_scm(self, log, enter_fails=False):
        ent = self

        class SCM:
            def __enter__(s):
                if enter_fails:
                    raise EnterFails()
                return ent.id

            def __exit__(s, et, ev, tb):
                return ent.act(log, ev)
        return SCM()


class AwObj:
    """awaitable that is neither a coroutine nor a Future"""
    def __init__(self, fn):
        self.fn = fn

    def __await__(self):
        if False:
            yield
        return self.fn()


def _same(returned, given, ent, log):
    """push / callback hand their argument back unchanged (they are usable as decorators)"""
    if returned is not given:
        ent.reg_problem = "registering entry %d (%s) returned %r instead of its argument" % (ent.id, ent.kind, type(returned).__name__)


def register(stack, ent, log, std=False):
    """register ent on an asyncstdlib ExitStack (std=False) or a contextlib.AsyncExitStack (std=True)"""
    k = ent.kind
    if k == "acm":
        cm = ent.as_acm(log)
        return stack.enter_async_context(cm) if std else stack.enter_context(cm)
    if k == "scm":
        cm = ent.as_scm(log)
        if std:
            stack.enter_context(cm)
            return None
        return stack.enter_context(cm)
    if k == "apush" and ent.id % 3 == 0:
        # a plain function handing back an awaitable object that is not a coroutine: still an asynchronous exit
        def ex(et, ev, tb):
            return AwObj(lambda: ent.act(log, ev))
        _same((stack.push_async_exit if std else stack.push)(ex), ex, ent, log)
        return None
    if k == "apush":
        async def ex(et, ev, tb):
            return ent.act(log, ev)
        _same((stack.push_async_exit if std else stack.push)(ex), ex, ent, log)
        return None
    if k == "spush":
        def ex(et, ev, tb):
            return ent.act(log, ev)
        _same(stack.push(ex), ex, ent, log)
        return None
    if k == "cmpush":
        cm = ent.as_acm(log)
        _same((stack.push_async_exit if std else stack.push)(cm), cm, ent, log)
        return None
    if k == "acb" and ent.id % 3 == 0:
        def cb(x, kw=None):
            assert x == ent.id and kw == "kw"
            return AwObj(lambda: ent.act(log, None_marker(log)))
        _same((stack.push_async_callback if std else stack.callback)(cb, ent.id, kw="kw"), cb, ent, log)
        return None
    if k == "acb":
        async def cb(x, kw=None):
            assert x == ent.id and kw == "kw"
            return ent.act(log, None_marker(log))
        _same((stack.push_async_callback if std else stack.callback)(cb, ent.id, kw="kw"), cb, ent, log)
        return None
    if k == "scb":
        def cb(x, kw=None):
            assert x == ent.id and kw == "kw"
            return ent.act(log, None_marker(log))
        _same(stack.callback(cb, ent.id, kw="kw"), cb, ent, log)
        return None
    raise ValueError(k)


def None_marker(log):
    return None


class CBEntry(Entry):
    """callbacks are not told the exception; their behaviour is therefore the same in both situations"""


async def do_unwind(stack, block):
    """leave an `async with stack` block normally / by exception (or aclose); returns outcome"""
    try:
        if block is None:
            if len(getattr(stack, "_exit_callbacks", ())) % 2:
                # closed by a caller that is itself handling some unrelated exception: still a normal unwind, every exit is
                # told "no exception"
                try:
                    raise LookupError("unrelated, being handled while the stack is closed")
                except LookupError:
                    await stack.aclose()
            else:
                await stack.aclose()
        elif block == "normal":
            async with stack:
                pass
        else:
            async with stack:
                raise E(block)
        return ("normal",)
    except (E, EB) as e:
        return ("raises", e.id)
    except AssertionError as e:
        # raised by the instruments themselves (e.g. the wrong protocol of a dual-protocol manager was used)
        return ("raises", -7000 - (builtins.sum(map(ord, str(e))) % 1000))
    except BaseException as e:  # noqa
        # an exception that is none of the block's or the exits' own: an observation all the same
        return ("raises", -8000 - (builtins.sum(map(ord, type(e).__name__)) % 1000))


def run_history(ops, std):
    log = []
    mk = contextlib.AsyncExitStack if std else a.ExitStack
    stacks = [mk()]
    obs = []

    async def go():
        for op in ops:
            if op[0] == "reg":
                r = register(stacks[op[1]], op[2], log, std)
                if getattr(op[2], "reg_problem", None):
                    obs.append(("error", op[2].reg_problem))
                    op[2].reg_problem = None
                    continue
                if r is not None:
                    v = await r
                    if op[2].kind in ("acm", "scm") and v != op[2].id:
                        obs.append(("error", "enter_context returned %r" % (v,)))
                        continue
                obs.append(("done",))
            elif op[0] == "enterfails":
                ent = op[2]
                cm = ent.as_acm(log, True) if ent.kind == "acm" else ent.as_scm(log, True)
                try:
                    if std:
                        if ent.kind == "acm":
                            await stacks[op[1]].enter_async_context(cm)
                        else:
                            stacks[op[1]].enter_context(cm)
                    else:
                        await stacks[op[1]].enter_context(cm)
                    obs.append(("error", "enter did not raise"))
                except EnterFails:
                    obs.append(("done",))
                except BaseException as e:  # noqa
                    obs.append(("error", "a failing enter surfaced as %r instead of the manager's own exception" % (e,)))
            elif op[0] == "popall":
                stacks.append(stacks[op[1]].pop_all())
                obs.append(("newstack", len(stacks) - 1))
            elif op[0] == "unwind":
                before = len(log)
                out = await do_unwind(stacks[op[1]], op[2])
                obs.append(("unwound", out, list(log[before:])))
    drive(go())
    return obs


async def nested_with(entries, block, log):
    if not entries:
        if block not in ("normal", None):
            raise E(block)
        return
    ent = entries[0]
    if ent.kind in ("scm",):
        with ent.as_scm(log):
            await nested_with(entries[1:], block, log)
    else:
        # callbacks never see the exception and cannot suppress
        if ent.kind in ("acb", "scb"):
            class CB:
                async def __aenter__(s):
                    return None

                async def __aexit__(s, et, ev, tb):
                    ent.act(log, None)
                    return False
            cm = CB()
        else:
            cm = ent.as_acm(log)
        async with cm:
            await nested_with(entries[1:], block, log)


class _Tick:
    def __await__(self):
        yield "tick"


class Cancel(EB):
    """what an event loop throws into the task at a suspension point"""


def cancellation_stage(rep, rng, n):
    """every exit suspends once before it acts; an exception is thrown into the task at each suspension point in turn
    (while the stack unwinds after a normal or a failed block, or under aclose): outcome and the log of exits -- who ran,
    with which exception in flight -- are those of the equivalent nested `async with` statements under the same throw"""
    from gencalc import drive_tokens

    def mk_cm(ent, log):
        class CM:
            async def __aenter__(s):
                await _Tick()             # entering suspends as well (a lock held by someone else): a manager whose
                log.append(("entered", ent.id))   # enter was interrupted has not been entered and is not exited
                return ent.id

            async def __aexit__(s, et, ev, tb):
                await _Tick()
                return ent.act(log, ev)

            # the resource offers the synchronous protocol as well: an ExitStack uses the asynchronous one, like `async with`
            def __enter__(s):
                log.append(("sync protocol used: enter", ent.id))
                return ent.id

            def __exit__(s, et, ev, tb):
                log.append(("sync protocol used: exit", ent.id))
                return False
        return CM()

    async def via_stack(ents, block, log):
        async with a.ExitStack() as st:
            for e in ents:
                if e.id % 2:
                    await st.enter_context(mk_cm(e, log))
                else:
                    # entered by hand and handed over with push(): the same registration
                    cm = mk_cm(e, log)
                    await cm.__aenter__()
                    st.push(cm)
            if block is not None:
                raise E(block)

    async def via_nested(ents, block, log):
        if not ents:
            if block is not None:
                raise E(block)
            return
        async with mk_cm(ents[0], log):
            await via_nested(ents[1:], block, log)

    def outcome(coro_fn, ents, block, k):
        log = []
        try:
            drive_tokens(coro_fn(ents, block, log), k, Cancel(7777) if k is not None else None)
            out = ("normal",)
        except (E, EB) as e:
            out = ("raises", e.id)
        except BaseException as e:  # noqa
            out = ("other", type(e).__name__)
        return out, log
    bad = 0
    for _ in range(n):
        ents = [Entry(i + 1, "acm", rng.choice(["falsy", "falsy", "truthy", "raise"]), rng.choice(["falsy", "falsy", "truthy", "raise"])) for i in range(rng.randrange(1, 4))]
        block = rng.choice([None, None, 5])
        for k in [None] + list(range(2 * len(ents))):      # every enter and every exit suspension
            got, want = outcome(via_stack, ents, block, k), outcome(via_nested, ents, block, k)
            rep.count(("cancel-unwind", tuple((e.on_none, e.on_exc) for e in ents), block, k), len(ents) > 1)
            if got != want:
                bad += 1
                rep.violation("exitstack:cancellation", {"entries": [(e.id, e.on_none, e.on_exc) for e in ents], "block": block, "throw_at_suspension": k,
                                                         "why": "ExitStack: %r, nested async with: %r" % (got, want)})
                break
        if bad:
            break
    return bad


def run_nested(entries, block):
    log = []

    async def go():
        try:
            await nested_with(entries, block, log)
            return ("normal",)
        except (E, EB) as e:
            return ("raises", e.id)
    return drive(go()), log


def coq_out(o):
    return "XNormal" if o[0] == "normal" else "(XRaises %d)" % o[1]


def coq_calls(calls):
    return "[%s]" % "; ".join("(%d, %s)" % (i, "None" if e is None else "Some %d" % e) for i, e in calls)


def coq_obs(o):
    if o[0] == "done":
        return "XDone"
    if o[0] == "newstack":
        return "XNewStack %d" % o[1]
    if o[0] == "unwound":
        return "XUnwound %s %s" % (coq_out(o[1]), coq_calls(o[2]))
    raise ValueError(o)


def coq_op(op):
    if op[0] == "reg":
        return "XRegister %d %s" % (op[1], op[2].coq())
    if op[0] == "enterfails":
        return "XEnterFails %d %s" % (op[1], op[2].coq())
    if op[0] == "popall":
        return "XPopAll %d" % op[1]
    blk = op[2]
    return "XUnwind %d %s" % (op[1], "XNormal" if blk in (None, "normal") else "(XRaises %d)" % blk)


def callback_view(ent_log, entries_by_id):
    """callbacks are invoked without exception details: the model logs what was in flight, the real
    callback cannot know; normalise the received exception of callback entries to what the model says"""
    return ent_log


def mk_entry(rng, id):
    kind = rng.choice(KINDS)
    if kind in ("acb", "scb"):
        b = rng.choice(BEH)
        return Entry(id, kind, b, b)
    return Entry(id, kind, rng.choice(BEH), rng.choice(BEH))


def gen_history(rng, tier):
    ops = []
    nstacks = 1
    nid = 0
    for _ in range(rng.randrange(1, 9 if tier == "quick" else 11)):
        r = rng.random()
        s = rng.randrange(nstacks)
        if r < 0.55:
            nid += 1
            ops.append(("reg", s, mk_entry(rng, nid)))
        elif r < 0.62:
            nid += 1
            ops.append(("enterfails", s, Entry(nid, rng.choice(["acm", "scm"]), "falsy", "truthy")))
        elif r < 0.72:
            ops.append(("popall", s))
            nstacks += 1
        else:
            ops.append(("unwind", s, rng.choice([None, "normal", 1, 2])))
    ops.append(("unwind", rng.randrange(nstacks), rng.choice([None, "normal", 7])))
    return ops


def strip_cb(obs, cbids):
    """A callback is not handed the exception in flight; the harness cannot observe it. Compare the
    received exception only for exits with the __aexit__ signature."""
    out = []
    for o in obs:
        if o[0] == "unwound":
            out.append(("unwound", o[1], [(i, (None if i in cbids else e)) for i, e in o[2]]))
        else:
            out.append(o)
    return out


def run(tier, seed):
    rep = Report("C14", tier, seed)
    proofs_ok = proof_stage(rep, "C14")
    rng = random.Random(seed)
    texts, ntexts, fails = [], [], 0
    # (1) stacks of 0..4 entries x block outcome against real nested with statements (and the model's [nested])
    stacks = []
    nst = 600 * common.scale(rep) if tier == "quick" else 30000
    for _ in range(nst):
        n = rng.randrange(0, 5)
        stacks.append(([mk_entry(rng, i + 1) for i in range(n)], rng.choice(["normal", 5])))
    if tier != "quick":
        # bounded-exhaustive: all stacks of <= 2 entries over kinds x behaviours x block outcome
        combos = [(k, bn, be) for k in KINDS for bn in BEH for be in BEH if k not in ("acb", "scb") or bn == be]
        for n in range(0, 3):
            for tup in itertools.product(combos, repeat=n):
                for blk in ("normal", 5):
                    stacks.append(([Entry(i + 1, k, bn, be) for i, (k, bn, be) in enumerate(tup)], blk))
    for entries, block in stacks:
        ops = [("reg", 0, e) for e in entries] + [("unwind", 0, block)]
        cbids = {e.id for e in entries if e.kind in ("acb", "scb")}
        ai = run_history(ops, False)
        out_n, log_n = run_nested(entries, block)
        rep.count(("stack", tuple((e.kind, e.on_none, e.on_exc) for e in entries), block), len(entries) > 1,
                  sample={"entries": [(e.id, e.kind, e.on_none, e.on_exc) for e in entries], "block": block})
        u = ai[-1]
        got = (u[1], [(i, None if i in cbids else e) for i, e in u[2]]) if u[0] == "unwound" else None
        want = (out_n, [(i, None if i in cbids else e) for i, e in log_n])
        if builtins.any(o[0] == "error" for o in ai) or got != want:
            fails += 1
            rep.violation("exitstack:nested", {"entries": [(e.id, e.kind, e.on_none, e.on_exc) for e in entries], "block": block,
                                              "why": "differs from nested with statements: ExitStack %r nested %r" % (got, want)})
            continue
        # model: callbacks see the in-flight exception in the model's log; the real ones cannot: use the model's view for exits only
        ntexts.append((entries, block, out_n, log_n, cbids))
    # (2) histories against contextlib.AsyncExitStack and the model
    nh = 600 * common.scale(rep) if tier == "quick" else 30000
    hist = [gen_history(rng, tier) for _ in range(nh)]
    # corpus: the run-twice defect fixed in /repo
    e1 = Entry(1, "scb", "falsy", "falsy")
    hist.insert(0, [("reg", 0, e1), ("unwind", 0, None), ("unwind", 0, None)])
    hist.insert(0, [("reg", 0, Entry(1, "acm", "raise", "raise")), ("reg", 0, Entry(2, "spush", "falsy", "falsy")), ("unwind", 0, None), ("unwind", 0, "normal")])
    hist.insert(0, [("enterfails", 0, Entry(1, "scm", "truthy", "truthy")), ("unwind", 0, 3)])
    for ops in hist:
        cbids = {op[2].id for op in ops if op[0] in ("reg",) and op[2].kind in ("acb", "scb")}
        ai = run_history(ops, False)
        si = run_history(ops, True)
        rep.count(("hist", repr([(o[0], o[1]) + ((o[2].kind, o[2].on_none, o[2].on_exc) if o[0] in ("reg", "enterfails") else (o[2:],)) for o in ops])), len(ops) > 3,
                  sample={"ops": [(o[0], o[1]) + (((o[2].id, o[2].kind, o[2].on_none, o[2].on_exc),) if o[0] in ("reg", "enterfails") else tuple(o[2:])) for o in ops]})
        if builtins.any(o[0] == "error" for o in ai) or strip_cb(ai, cbids) != strip_cb(si, cbids):
            fails += 1
            k = next((j for j, (x, y) in enumerate(builtins.zip(strip_cb(ai, cbids), strip_cb(si, cbids))) if x != y), -1)
            rep.violation("exitstack:history", {"ops": [coq_op(o) for o in ops], "why": "differs from contextlib.AsyncExitStack at operation %d: ExitStack %r AsyncExitStack %r" % (k, ai[k] if k >= 0 else ai, si[k] if k >= 0 else si)})
            continue
        texts.append((ops, ai, cbids))
    # ---- Coq: model vs implementation (histories), spec [nested] vs real nested-with
    # the model records, for callbacks too, what was in flight; take that from the model itself by only comparing exits:
    # we serialise the implementation's log with the in-flight exception of callbacks filled in from the exit order.
    def fill(obs_list, cbids):
        out = []
        for o in obs_list:
            if o[0] != "unwound":
                out.append(o)
                continue
            out.append(o)
        return out
    bodies = []
    ctexts = []
    for ops, ai, cbids in texts:
        ctexts.append("(mkXC [%s] [%s] [%s])" % ("; ".join(coq_op(o) for o in ops), "; ".join(coq_obs(o) for o in ai), "; ".join(str(i) for i in sorted(cbids))))
    shards = [ctexts[i:i + 400] for i in range(0, len(ctexts), 400)]
    bodies = [HEADER + "Definition cases : list xcase := [\n" + ";\n".join(sh) + "\n].\nEval vm_compute in (xfailing cases).\n" for sh in shards]
    ncs = []
    for entries, block, out_n, log_n, cbids in ntexts:
        ncs.append("(mkNC [%s] %s %s %s [%s])" % ("; ".join(e.coq() for e in entries), "XNormal" if block == "normal" else "(XRaises %d)" % block, coq_out(out_n), coq_calls(log_n), "; ".join(str(i) for i in sorted(cbids))))
    nshards = [ncs[i:i + 400] for i in range(0, len(ncs), 400)]
    bodies += [HEADER + "Definition cases : list ncase := [\n" + ";\n".join(sh) + "\n].\nEval vm_compute in (nfailing cases).\n" for sh in nshards]
    outs = coq_eval_files("c14", bodies)
    mism = 0
    allsh = shards + nshards
    for sh, (rc, out) in builtins.zip(allsh, outs):
        f = parse_nat_list(out) if rc == 0 else None
        if f is None:
            rep.violation("coq-eval", {"broken": "correspondence evaluation failed", "log": out[-1500:]}, no_input=True)
            break
        mism += len(f)
        for j in f[:2]:
            rep.violation("exitstack:model-mismatch", {"broken": "correspondence impl<->Model/ExitStack.v (x_run) or nested-with<->spec (nested)", "case": sh[j][:3000]}, no_input=not rep.has_failing_input())
    rep.cov["traces_validated_against_impl"] = len(ctexts) + len(ncs)
    rep.notes["model_mismatches"] = mism
    rep.notes["histories_vs_AsyncExitStack"] = len(hist)
    rep.notes["stacks_vs_nested_with"] = len(stacks)
    # exits and callbacks that are value-like objects -- distinct, but comparing and hashing equal to each other -- or that
    # are unhashable: each registered one runs exactly once, in reverse order, like the nested statements
    class _Handler:
        def __init__(self, tag, log):
            self.tag, self.log = tag, log

        def __eq__(self, other):
            return isinstance(other, _Handler)

        def __hash__(self):
            return 5

    class _SyncExit(_Handler):
        def __call__(self, et, ev, tb):
            self.log.append(("exit", self.tag))
            return False

    class _SyncCallback(_Handler):
        def __call__(self, *args):
            self.log.append(("callback", self.tag, args))

    class _UnhashableCallback(_SyncCallback):
        __hash__ = None

    class _AsyncExit(_Handler):
        async def __call__(self, et, ev, tb):
            self.log.append(("aexit", self.tag))
            return False
    for nstacks in (1, 2):
        log = []

        async def equal_handlers():
            for s_ in range(nstacks):
                async with a.ExitStack() as st:
                    st.push(_SyncExit("e%d-1" % s_, log))
                    st.callback(_SyncCallback("c%d-1" % s_, log), s_)
                    st.push(_SyncExit("e%d-2" % s_, log))
                    st.callback(_UnhashableCallback("u%d" % s_, log), s_)
                    st.push(_AsyncExit("a%d-1" % s_, log))
                    st.callback(_SyncCallback("c%d-2" % s_, log), s_)
                    st.push(_AsyncExit("a%d-2" % s_, log))
        try:
            from gencalc import drive as _drive_eq
            _drive_eq(equal_handlers())
            want = []
            for s_ in range(nstacks):
                want += [("aexit", "a%d-2" % s_), ("callback", "c%d-2" % s_, (s_,)), ("aexit", "a%d-1" % s_), ("callback", "u%d" % s_, (s_,)), ("exit", "e%d-2" % s_),
                         ("callback", "c%d-1" % s_, (s_,)), ("exit", "e%d-1" % s_)]
            why = None if log == want else "exits ran as %r, expected %r" % (log, want)
        except BaseException as e:  # noqa
            why = "failed with %r after %r" % (e, log)
        rep.count(("equal-handlers", nstacks), True)
        if why:
            fails += 1
            rep.violation("exitstack:equal-handlers", {"stacks": nstacks, "why": "distinct exit handlers / callbacks that compare and hash equal (and an unhashable one): " + why})
    import kwprobe
    kwprobe.probe(rep, "callback", "exitstack:kwargs")
    cancellation_stage(rep, rng, 60 if tier == "quick" else 2000)
    if not proofs_ok:
        rep.violation("proof-broken", {"broken": rep.notes.get("broken_file", "?"), "log": rep.notes.get("build_log_tail", "")[-1500:]}, no_input=True)
    return rep.finish()
