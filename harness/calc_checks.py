"""Checks for the properties decided in the generator calculus: C01 C02 C04 C05 C06 C18.
Each check = proof stage (Props/Cxx.v) + correspondence impl<->model (evaluated in Coq) + the
property's own oracle evaluated on the implementation (CPython counterpart / release predicate / identity)."""
import builtins
import itertools
import json
import os
import random

import common
from common import Report, proof_stage, coq_eval_files, parse_nat_list
import gencalc as G
from gencalc import (Case, run_impl, run_std, use_kinds, no_close, same_log, same_val, canon_result, coq_case, coq_file,
                     ITER_TOOLS, AGG_TOOLS, Inj, InjBase)
from gen_cases import draw_case, with_plan, exhaustive_cases

CORPUS = common.CORPUS
# tools whose CPython counterpart performs its uses in the same order (so that the k-th use corresponds)
STD_ORDER_TOOLS = set(ITER_TOOLS) | {"all", "any", "min", "max", "sum", "list", "tuple", "set", "dict", "reduce"}


# ------------------------------------------------------------------ helpers
def sig(case, what):
    return "%s:%s" % (case.name, what)


def load_corpus(prop):
    """Corpus entries are python-literal descriptions of cases; stored as JSON with a tiny encoding."""
    p = os.path.join(CORPUS, "calc.jsonl")
    out = []
    if os.path.exists(p):
        for line in open(p):
            line = line.strip()
            if not line or line.startswith("#"):
                continue
            d = json.loads(line)
            if prop in d.get("props", []):
                out.append(decode_case(d))
    return out


def enc(v):
    if isinstance(v, G.Obj):
        return {"o": [v.id, v.key, v.cls]}
    if v is G.FILL:
        return {"fill": 1}
    if isinstance(v, tuple):
        return {"t": [enc(x) for x in v]}
    if isinstance(v, list):
        return {"l": [enc(x) for x in v]}
    if isinstance(v, dict):
        return {"d": {k: enc(x) for k, x in v.items()}}
    return {"v": v}


def dec(d, objs):
    if "o" in d:
        k = tuple(d["o"])
        if k not in objs:
            objs[k] = G.Obj(*k)
        return objs[k]
    if "fill" in d:
        return G.FILL
    if "t" in d:
        return tuple(dec(x, objs) for x in d["t"])
    if "l" in d:
        return [dec(x, objs) for x in d["l"]]
    if "d" in d:
        return {k: dec(x, objs) for k, x in d["d"].items()}
    return d["v"]


def encode_case(case, props=()):
    return {"props": list(props), "tool": case.name, "params": enc(case.params), "srcs": enc(case.srcs),
            "plan": enc(case.plan) if case.plan else None, "acl": case.acl}


def decode_case(d):
    objs = {}
    plan = dec(d["plan"], objs) if d.get("plan") else None
    if plan is not None:
        plan = (plan[0], tuple(plan[1]))
    return Case(d["tool"], dec(d["params"], objs), dec(d["srcs"], objs), plan, d.get("acl"))


def model_compare(rep, name, pairs, timeout=900):
    """pairs: list of (case, run). Evaluate the model on every case inside Coq and compare with the observed
    run. Returns list of indices (into pairs) that differ, or None if the Coq evaluation itself failed."""
    texts, idx = [], []
    for i, (c, r) in enumerate(pairs):
        try:
            texts.append(coq_case(c, r))
            idx.append(i)
        except ValueError:
            # outcome not expressible in the model's vocabulary -> certainly a mismatch
            texts.append(None)
            idx.append(i)
    bad = [idx[j] for j, t in enumerate(texts) if t is None]
    good = [(idx[j], t) for j, t in enumerate(texts) if t is not None]
    shards = [good[i:i + 400] for i in range(0, len(good), 400)]
    outs = coq_eval_files(name, [coq_file([t for _, t in sh]) for sh in shards], timeout=timeout)
    for sh, (rc, out) in builtins.zip(shards, outs):
        f = parse_nat_list(out) if rc == 0 else None
        if f is None:
            rep.notes["coq_eval_error"] = out[-2000:]
            return None
        bad.extend(sh[j][0] for j in f)
    rep.cov["traces_validated_against_impl"] += len(good)
    return sorted(bad)


def spec_compare(rep, name, pairs):
    """pairs: (case, run of the CPython counterpart, fault-free, to exhaustion). Evaluates the Coq specification
    (Std/SpecTool.v) on the same inputs and compares with what CPython did. Returns differing indices."""
    good = []
    for i, (c, s) in enumerate(pairs):
        try:
            good.append((i, G.coq_std_case(c, s)))
        except ValueError:
            continue
    shards = [good[i:i + 400] for i in range(0, len(good), 400)]
    outs = coq_eval_files(name + "_std", [G.coq_std_file([t for _, t in sh]) for sh in shards])
    bad = []
    for sh, (rc, out) in builtins.zip(shards, outs):
        f = parse_nat_list(out) if rc == 0 else None
        if f is None:
            rep.notes["coq_std_eval_error"] = out[-2000:]
            return None
        bad.extend(sh[j][0] for j in f)
    rep.notes["cpython_runs_validated_against_spec"] = rep.notes.get("cpython_runs_validated_against_spec", 0) + len(good)
    return bad


def spec_stage(rep, prop, std_pairs):
    """CPython ~ specification: a difference means the specification the theorems are about is not the stdlib."""
    # specs are stated for orderable inputs and finite consumption
    pairs = [(c, s) for c, s in std_pairs if s is not None and c.plan is None and c.name != "cycle"
             and not (s["outcome"][0] == "exn" and s["outcome"][1] == ("TypeError",) and c.name in ("sorted", "merge", "nlargest", "nsmallest"))]
    bad = spec_compare(rep, prop.lower(), pairs)
    if bad is None:
        rep.violation("coq-std-eval", {"broken": "evaluation of Std/SpecTool.v failed", "log": rep.notes.get("coq_std_eval_error", "")[-1500:]}, no_input=True)
        return
    for i in bad[:3]:
        c, s = pairs[i]
        rep.violation(sig(c, "spec-vs-cpython"), {"broken": "Std specification differs from CPython (Std/SpecTool.v std_ok)", "case": encode_case(c),
                                                 "cpython": {"outcome": repr(s["outcome"][:2]), "log": repr(s["log"])}}, no_input=True)
    rep.notes["spec_mismatches"] = len(bad)


def outcome_class(o):
    return (o[0],) + ((o[1],) if o[0] == "exn" else ())


def released_all(run):
    return builtins.all(s.released() for s in run["srcs"]) if run["srcs"] and hasattr(run["srcs"][0], "released") else True


def yields_of(log):
    return [e[1] for e in log if e[0] == "yield"]


def base_limit(case, uk):
    """uses that may carry an additional fault: all of them, or those before the case's own plan (cycle)"""
    return case.plan[0] if case.plan else len(uk)


def plans_for(run, kinds, exc):
    """fault plans at every use of the given kinds of a fault-free run"""
    uk = use_kinds(run["log"])
    return [(k, exc) for k, kind in enumerate(uk) if kind in kinds]


def shrink_case(case, still_fails, budget=60):
    """Greedy shrinking: drop items / sources while the failure persists."""
    cur = case
    changed = case.plan is None      # a fault plan indexes uses: do not shrink under it

    while changed and budget > 0:
        changed = False
        for si in range(len(cur.srcs)):
            for j in range(len(cur.srcs[si])):
                budget -= 1
                if budget <= 0:
                    break
                srcs = [list(s) for s in cur.srcs]
                del srcs[si][j]
                cand = Case(cur.name, cur.params, srcs, cur.plan, cur.acl)
                try:
                    if still_fails(cand):
                        cur = cand
                        changed = True
                        break
                except Exception:
                    pass
            if changed:
                break
    return cur


def gen_cases(rng, tools, per_tool, tier, mixed=False):
    out = []
    for name in tools:
        for _ in range(per_tool):
            out.append(draw_case(rng, name, tier, mixed_cls=mixed and rng.random() < 0.25))
    return out


# ------------------------------------------------------------------ oracles on the implementation
def std_run_for(case, r):
    """CPython counterpart under the same consumer behaviour: a case's own plan (cycle: close at the t-th
    yield) indexes the implementation's uses, which include aclose calls the stdlib does not perform."""
    if case.plan is None:
        return run_std(case)
    uk = use_kinds(r["log"])
    k = case.plan[0]
    kstd = len([1 for j in range(builtins.min(k, len(uk))) if uk[j] != "close"])
    return run_std(with_plan(case, (kstd, case.plan[1])))


def oracle_values(case, r, s):
    """C01/C02: same items (identity) / same result, same ending. Returns None or a description."""
    if s is None:
        return None
    ro, so = r["outcome"], s["outcome"]
    if case.tool.kind == "agg":
        if case.name in STD_ORDER_TOOLS:
            ci = [e for e in r["log"] if e[0] == "call"]
            cs = [e for e in s["log"] if e[0] == "call"]
            if not same_log(ci, cs):
                return "user callables invoked differently: impl %r std %r" % (ci, cs)
        if ro[0] != so[0]:
            return "ending differs: impl %r std %r" % (ro[:2], so[:2])
        if ro[0] == "ok":
            if not same_val(canon_result(case, ro[1]), canon_result(case, so[1])):
                return "result differs: impl %r std %r" % (ro[1], so[1])
        elif ro[1] != so[1]:
            return "exception type differs: impl %r std %r" % (ro[1], so[1])
        return None
    yi, ys = yields_of(r["log"]), yields_of(s["log"])
    if len(yi) != len(ys) or not builtins.all(same_val(x, y) for x, y in builtins.zip(yi, ys)):
        return "items differ: impl %r std %r" % (yi, ys)
    if outcome_class(ro)[:2] != outcome_class(so)[:2]:
        return "ending differs: impl %r std %r" % (ro[:2], so[:2])
    return None


KNOWN_DEVIATION_ACC_EMPTY = "accumulate-empty-typeerror"   # documented deviation (C01 statement)


def documented_deviation(case, r, s):
    """accumulate of an empty iterable without initial raises TypeError (documented in the property)."""
    if case.name == "accumulate" and case.params["initial"] is None and not case.srcs[0]:
        return r["outcome"][0] == "exn" and r["outcome"][1] == ("TypeError",)
    return False


def std_prefix_run(case, nsteps):
    """Drive the CPython counterpart exactly nsteps times (not to exhaustion)."""
    ctx = G.Ctx(None)
    t = case.tool
    if t.kind == "script":
        srcs = [list(case.srcs[0])]
    else:
        srcs = [G.SSrc(ctx, i, items) for i, items in enumerate(case.srcs)]
    it = t.std(ctx, srcs)
    out = ("ok", None)
    try:
        for _ in range(nsteps):
            try:
                v = next(it)
            except StopIteration:
                break
            ctx.ev("yield", v)
    except BaseException as e:  # noqa
        out = ("exn", G.classify_exc(e), e)
    return {"outcome": out, "log": list(ctx.log)}


# ------------------------------------------------------------------ the checks
def finish_with_model(rep, prop, pairs, oracle_fail, proofs_ok):
    """Common end: model correspondence, violation search / reporting."""
    mism = model_compare(rep, prop.lower(), pairs)
    if mism is None:
        rep.violation("coq-eval", {"broken": "correspondence evaluation failed to run", "log": rep.notes.get("coq_eval_error", "")[-1500:]}, no_input=True)
        mism = []
    broken = []
    if not proofs_ok:
        broken.append("proof obligation: %s" % rep.notes.get("broken_file", "?"))
    for i in mism[:50]:
        c, r = pairs[i]
        broken.append("correspondence impl<->model: %s" % json.dumps(c.describe()))
    # a failing input counts only if it was actually reported (a listed known finding is not one)
    oracle_fail = builtins.any(not no_input for _sig, _replay, no_input in rep.violations)
    if broken and not oracle_fail:
        # tie broken but the oracle found no failing input among everything explored: still a violation
        for i in mism[:3]:
            c, r = pairs[i]
            rep.violation(sig(c, "model-mismatch"), {"broken": "correspondence impl<->model (Model/Tool.v case_ok)", "case": encode_case(c),
                                                   "observed": {"outcome": repr(r["outcome"][:2]), "log": repr(r["log"]), "states": r["states"]}}, no_input=True)
        if not proofs_ok:
            rep.violation("proof-broken", {"broken": rep.notes.get("broken_file", "?"), "log": rep.notes.get("build_log_tail", "")[-1500:]}, no_input=True)
    rep.notes["model_mismatches"] = len(mism)


def heapq_merge(*its):
    import heapq
    return heapq.merge(*its)


def direct_probes(prop, rep):
    """Witnesses outside the modelled item domain (strings, floats, one-shot plain iterators, initial=None):
    evaluated directly against the CPython counterpart."""
    import itertools
    import functools
    import heapq
    import asyncstdlib as a

    def both(name, sig_, impl, std):
        def ev(f):
            try:
                return ("ok", f())
            except BaseException as e:  # noqa
                return ("exn", type(e).__name__)
        ri, rs = ev(impl), ev(std)
        if rs in (("exn", "NameError"), ("exn", "UnboundLocalError")):
            raise RuntimeError("probe %r is broken: the reference side raised %s" % (name, rs[1]))    # never a silent pass
        rep.count(("probe", name), True)
        if ri != rs:
            rep.violation(sig_, {"probe": name, "asyncstdlib": repr(ri), "stdlib": repr(rs)})

    async def alist(it):
        return [x async for x in it]
    if prop == "C01":
        # glue outside the modelled tools: chain.from_iterable, anext with default, plain iter, closing
        import random as _r
        rr = _r.Random(7)
        for _ in range(40):
            lists = [[rr.randrange(5) for _ in range(rr.randrange(0, 4))] for _ in range(rr.randrange(0, 4))]
            both("chain.from_iterable %r" % (lists,), "chain:from_iterable",
                 lambda: G.drive(alist(a.chain.from_iterable(tuple(lists)))), lambda: list(itertools.chain.from_iterable(tuple(lists))))
            both("chain.from_iterable(iterator) %r" % (lists,), "chain:from_iterable",
                 lambda: G.drive(alist(a.chain.from_iterable(iter(lists)))), lambda: list(itertools.chain.from_iterable(iter(lists))))
        for _ in range(60):
            n = rr.choice([2, 3, 4])
            items = list(range(rr.randrange(0, 6)))
            ops = []
            closed = set()
            for _ in range(rr.randrange(1, 14)):
                i = rr.randrange(n)
                if rr.random() < 0.15:
                    ops.append(("close", i))
                    closed.add(i)
                elif i not in closed:
                    ops.append(("next", i))

            def tee_async():
                async def go():
                    t = a.tee(items, n)
                    out = [[] for _ in range(n)]
                    for op, i in ops:
                        if op == "close":
                            await t[i].aclose()
                        else:
                            try:
                                out[i].append(await a.anext(t[i]))
                            except StopAsyncIteration:
                                out[i].append("stop")
                    return out
                return G.drive(go())

            def tee_sync():
                t = itertools.tee(items, n)
                out = [[] for _ in range(n)]
                for op, i in ops:
                    if op == "next":
                        try:
                            out[i].append(next(t[i]))
                        except StopIteration:
                            out[i].append("stop")
                return out
            both("tee children %r %r" % (items, ops), "tee:children", tee_async, tee_sync)
        # the very same iterator in several argument positions (the "grouper" recipe zip_longest(*[it] * n), pairing up
        # neighbours with zip(it, it), ...): each position draws from the one shared iterator, as in the stdlib
        def agen_of(xs):
            async def g():
                for x in xs:
                    yield x
            return g()
        for n in (2, 3):
            for ln in range(0, 8):
                data = list(range(ln))
                for mk_it, label in ((lambda: builtins.iter(data), "a regular iterator"), (lambda: agen_of(data), "an async generator")):
                    def shared(tool_async, tool_sync):
                        return (lambda: G.drive(alist(tool_async(*[mk_it()] * n))), lambda: list(tool_sync(*[builtins.iter(data)] * n)))
                    for tname, ta_, ts_ in (("zip_longest", lambda *its: a.zip_longest(*its, fillvalue="fill"), lambda *its: itertools.zip_longest(*its, fillvalue="fill")),
                                            ("zip", a.zip, zip), ("map", lambda *its: a.map(lambda *xs: xs, *its), lambda *its: map(lambda *xs: xs, *its)),
                                            ("chain", a.chain, itertools.chain), ("merge", a.merge, heapq_merge)):
                        fa_, fs_ = shared(ta_, ts_)
                        both("%s(*[it] * %d) over %d items, it = %s" % (tname, n, ln, label), "%s:same-iterator-%d-times" % (tname, n), fa_, fs_)
        # items the library has no business inspecting: every comparison, truth test or hash of them raises
        class Untouchable:
            def _no(self, *a):
                raise AssertionError("the tool inspected an item")
            __eq__ = __ne__ = __lt__ = __le__ = __gt__ = __ge__ = __bool__ = __len__ = __hash__ = __iter__ = _no

        U = [Untouchable() for _ in range(5)]

        def ids(xs):
            def one(x):
                if isinstance(x, (tuple, list)):
                    return tuple(one(y) for y in x)
                return ("U", U.index(x)) if builtins.any(x is u for u in U) else x
            return [one(x) for x in xs]
        last = lambda p, q: q  # noqa
        yes = lambda x: True  # noqa
        no = lambda x: False  # noqa
        for name, fa, fs in [
            ("zip", lambda: a.zip(U, U[1:]), lambda: zip(U, U[1:])),
            ("map", lambda: a.map(last, U, U[::-1]), lambda: map(last, U, U[::-1])),
            ("enumerate", lambda: a.enumerate(U, 3), lambda: enumerate(U, 3)),
            ("chain", lambda: a.chain(U[:2], U[2:]), lambda: itertools.chain(U[:2], U[2:])),
            ("batched", lambda: a.batched(U, 2), lambda: itertools.batched(U, 2)),
            ("islice", lambda: a.islice(U, 1, 4, 2), lambda: itertools.islice(U, 1, 4, 2)),
            ("pairwise", lambda: a.pairwise(U), lambda: itertools.pairwise(U)),
            ("zip_longest", lambda: a.zip_longest(U, U[:2], fillvalue=U[0]), lambda: itertools.zip_longest(U, U[:2], fillvalue=U[0])),
            ("accumulate", lambda: a.accumulate(U, last), lambda: itertools.accumulate(U, last)),
            ("accumulate initial", lambda: a.accumulate(U[1:], last, initial=U[0]), lambda: itertools.accumulate(U[1:], last, initial=U[0])),
            ("takewhile", lambda: a.takewhile(yes, U), lambda: itertools.takewhile(yes, U)),
            ("dropwhile", lambda: a.dropwhile(no, U), lambda: itertools.dropwhile(no, U)),
            ("filter", lambda: a.filter(yes, U), lambda: filter(yes, U)),
            ("filterfalse", lambda: a.filterfalse(no, U), lambda: itertools.filterfalse(no, U)),
            ("compress", lambda: a.compress(U, [1, 0, 1, 1, 0]), lambda: itertools.compress(U, [1, 0, 1, 1, 0])),
            ("starmap", lambda: a.starmap(last, [(u, v) for u, v in zip(U, U[1:])]), lambda: itertools.starmap(last, [(u, v) for u, v in zip(U, U[1:])])),
            ("cycle", lambda: a.islice(a.cycle(U[:2]), 5), lambda: itertools.islice(itertools.cycle(U[:2]), 5)),
            ("tee", lambda: a.tee(U, 2)[1], lambda: itertools.tee(U, 2)[1]),
            ("tee both", lambda: a.chain.from_iterable(a.tee(U, 3)), lambda: itertools.chain.from_iterable(itertools.tee(U, 3))),
            ("list", lambda: a.iter(G.drive(a.list(U))), lambda: list(U)),
            ("tuple", lambda: a.iter(G.drive(a.tuple(U))), lambda: tuple(U)),
            ("reduce", lambda: a.iter([G.drive(a.reduce(last, U))]), lambda: [functools.reduce(last, U)]),
            ("min key", lambda: a.iter([G.drive(a.min(U, key=lambda u: [i for i, v in enumerate(U) if v is u][0]))]),
             lambda: [min(U, key=lambda u: [i for i, v in enumerate(U) if v is u][0])]),
            ("sorted key", lambda: a.iter(G.drive(a.sorted(U, key=lambda u: -[i for i, v in enumerate(U) if v is u][0]))),
             lambda: sorted(U, key=lambda u: -[i for i, v in enumerate(U) if v is u][0])),
            ("nlargest key", lambda: a.iter(G.drive(a.nlargest(U, 2, key=lambda u: [i for i, v in enumerate(U) if v is u][0]))),
             lambda: heapq.nlargest(2, U, key=lambda u: [i for i, v in enumerate(U) if v is u][0])),
            ("merge key", lambda: a.merge(U[:2], U[2:], key=lambda u: [i for i, v in enumerate(U) if v is u][0]),
             lambda: heapq.merge(U[:2], U[2:], key=lambda u: [i for i, v in enumerate(U) if v is u][0])),
        ]:
            both("untouchable items: " + name, "items-inspected:" + name.split()[0], lambda fa=fa: ids(G.drive(alist(fa()))), lambda fs=fs: ids(list(fs())))
        # inputs that are iterable only through the sequence protocol (__getitem__ from 0 until IndexError)
        class Seq:
            def __init__(self, items):
                self._items = list(items)

            def __getitem__(self, i):
                return self._items[i]
        S1, S2 = [3, 1, 2], [9, 8]
        for name, fa, fs in [
            ("zip", lambda: a.zip(Seq(S1), Seq(S2)), lambda: zip(Seq(S1), Seq(S2))),
            ("map", lambda: a.map(lambda x, y: x + y, Seq(S1), Seq(S2)), lambda: map(lambda x, y: x + y, Seq(S1), Seq(S2))),
            ("enumerate", lambda: a.enumerate(Seq(S1)), lambda: enumerate(Seq(S1))),
            ("filter", lambda: a.filter(None, Seq(S1)), lambda: filter(None, Seq(S1))),
            ("chain", lambda: a.chain(Seq(S1), Seq(S2)), lambda: itertools.chain(Seq(S1), Seq(S2))),
            ("chain.from_iterable", lambda: a.chain.from_iterable(Seq([Seq(S1), Seq(S2)])), lambda: itertools.chain.from_iterable(Seq([Seq(S1), Seq(S2)]))),
            ("islice", lambda: a.islice(Seq(S1), 1, None), lambda: itertools.islice(Seq(S1), 1, None)),
            ("pairwise", lambda: a.pairwise(Seq(S1)), lambda: itertools.pairwise(Seq(S1))),
            ("zip_longest", lambda: a.zip_longest(Seq(S1), Seq(S2)), lambda: itertools.zip_longest(Seq(S1), Seq(S2))),
            ("accumulate", lambda: a.accumulate(Seq(S1)), lambda: itertools.accumulate(Seq(S1))),
            ("batched", lambda: a.batched(Seq(S1), 2), lambda: itertools.batched(Seq(S1), 2)),
            ("takewhile", lambda: a.takewhile(lambda x: x > 2, Seq(S1)), lambda: itertools.takewhile(lambda x: x > 2, Seq(S1))),
            ("dropwhile", lambda: a.dropwhile(lambda x: x > 2, Seq(S1)), lambda: itertools.dropwhile(lambda x: x > 2, Seq(S1))),
            ("compress", lambda: a.compress(Seq(S1), Seq([1, 0, 1])), lambda: itertools.compress(Seq(S1), Seq([1, 0, 1]))),
            ("starmap", lambda: a.starmap(lambda x, y: x * y, Seq([(1, 2), (3, 4)])), lambda: itertools.starmap(lambda x, y: x * y, Seq([(1, 2), (3, 4)]))),
            ("cycle", lambda: a.islice(a.cycle(Seq(S2)), 5), lambda: itertools.islice(itertools.cycle(Seq(S2)), 5)),
            ("tee", lambda: a.tee(Seq(S1), 2)[0], lambda: itertools.tee(Seq(S1), 2)[0]),
            ("merge", lambda: a.merge(Seq([1, 4]), Seq([2, 3])), lambda: heapq.merge(Seq([1, 4]), Seq([2, 3]))),
            ("groupby", lambda: a.map(lambda kg: kg[0], a.groupby(Seq([1, 1, 2]))), lambda: map(lambda kg: kg[0], itertools.groupby(Seq([1, 1, 2])))),
        ]:
            both("sequence-protocol input: " + name, "getitem-input:" + name, lambda fa=fa: G.drive(alist(fa())), lambda fs=fs: list(fs()))
        # None is an item like any other (a library that uses None as its own "nothing there" marker loses it)
        NS = [None, 0, None, None, 1]
        for name, fa, fs in [
            ("zip strict, surplus None", lambda: a.zip([], [None], strict=True), lambda: zip([], [None], strict=True)),
            ("zip strict, surplus None later", lambda: a.zip([1], [2, None], strict=True), lambda: zip([1], [2, None], strict=True)),
            ("zip strict 3", lambda: a.zip([1], [2], [3, None], strict=True), lambda: zip([1], [2], [3, None], strict=True)),
            ("zip", lambda: a.zip(NS, NS[1:]), lambda: zip(NS, NS[1:])),
            ("zip_longest", lambda: a.zip_longest(NS, NS[:2], fillvalue=7), lambda: itertools.zip_longest(NS, NS[:2], fillvalue=7)),
            ("chain", lambda: a.chain(NS, [None]), lambda: itertools.chain(NS, [None])),
            ("islice", lambda: a.islice(NS, 1, 4), lambda: itertools.islice(NS, 1, 4)),
            ("pairwise", lambda: a.pairwise(NS), lambda: itertools.pairwise(NS)),
            ("batched", lambda: a.batched(NS, 2), lambda: itertools.batched(NS, 2)),
            ("enumerate", lambda: a.enumerate(NS), lambda: enumerate(NS)),
            ("takewhile", lambda: a.takewhile(lambda x: x is None, NS), lambda: itertools.takewhile(lambda x: x is None, NS)),
            ("dropwhile", lambda: a.dropwhile(lambda x: x is None, NS), lambda: itertools.dropwhile(lambda x: x is None, NS)),
            ("filter None", lambda: a.filter(None, NS), lambda: filter(None, NS)),
            ("filterfalse None", lambda: a.filterfalse(None, NS), lambda: itertools.filterfalse(None, NS)),
            ("compress", lambda: a.compress(NS, [1, 1, 0, 1, 1]), lambda: itertools.compress(NS, [1, 1, 0, 1, 1])),
            ("accumulate keep", lambda: a.accumulate(NS, lambda p_, q_: q_), lambda: itertools.accumulate(NS, lambda p_, q_: q_)),
            ("cycle", lambda: a.islice(a.cycle(NS[:3]), 7), lambda: itertools.islice(itertools.cycle(NS[:3]), 7)),
            ("tee", lambda: a.tee(NS, 2)[1], lambda: itertools.tee(NS, 2)[1]),
            ("groupby", lambda: a.map(lambda kg: kg[0], a.groupby(NS)), lambda: (k for k, _ in itertools.groupby(NS))),
            ("iter sentinel None", lambda: a.iter(iter([1, 2, None, 3]).__next__, None), lambda: iter(iter([1, 2, None, 3]).__next__, None)),
            ("map", lambda: a.map(lambda x, y: (x, y), NS, NS[::-1]), lambda: map(lambda x, y: (x, y), NS, NS[::-1])),
            ("starmap", lambda: a.starmap(lambda x, y: y, [(None, None), (1, None)]), lambda: itertools.starmap(lambda x, y: y, [(None, None), (1, None)])),
        ]:
            both("None among the items: " + name, "none-items:" + name.split()[0].split(",")[0], lambda fa=fa: G.drive(alist(fa())), lambda fs=fs: list(fs()))
        # cycle replays what it saw during the first pass, whatever happens to the input afterwards
        def cyc(lib):
            L = ["a", "b", "c"]
            out = []
            if lib == "asl":
                c = a.cycle(L)

                async def go():
                    for i in range(10):
                        if i == 4:
                            L[1] = "B"
                            L.append("d")
                        out.append(await c.__anext__())
                G.drive(go())
            else:
                c = itertools.cycle(L)
                for i in range(10):
                    if i == 4:
                        L[1] = "B"
                        L.append("d")
                    out.append(next(c))
            return out, L
        both("cycle over a list that is modified after the first pass", "cycle:input-aliased", lambda: cyc("asl"), lambda: cyc("std"))
        both("anext default", "anext:default", lambda: G.drive(a.anext(a.iter([]), "d")), lambda: next(iter([]), "d"))
        both("anext", "anext:default", lambda: G.drive(a.anext(a.iter([4]))), lambda: next(iter([4])))
        both("anext exhausted", "anext:default", lambda: G.drive(a.anext(a.iter([]))), lambda: _stop_as_async(lambda: next(iter([]))))
        both("iter(non-callable, sentinel)", "iter:misuse", lambda: a.iter(3, 4), lambda: iter(3, 4))
        both("accumulate(initial=None)", "accumulate:initial=None-object",
             lambda: G.drive(alist(a.accumulate([1, 2, 3], initial=None))), lambda: list(itertools.accumulate([1, 2, 3], initial=None)))
        for seqs in ([[1], [2], [3]], [[], [1, 2]], [bytearray(b"a"), bytearray(b"b"), bytearray(b"c")]):
            def acc(lib, seqs=seqs):
                import copy
                inp = copy.deepcopy(seqs)
                out = G.drive(alist(a.accumulate(inp))) if lib == "asl" else list(itertools.accumulate(inp))
                return ([list(x) for x in out], [list(x) for x in inp], len({id(x) for x in out}))
            both("accumulate of mutable addables %r" % (seqs,), "accumulate:mutable-items", lambda: acc("asl"), lambda: acc("std"))
        both("accumulate(initial=0)", "accumulate:initial",
             lambda: G.drive(alist(a.accumulate([1, 2, 3], initial=0))), lambda: list(itertools.accumulate([1, 2, 3], initial=0)))
    if prop == "C02":
        both("sum floats", "sum:float-compensation", lambda: G.drive(a.sum([0.1] * 10)), lambda: builtins.sum([0.1] * 10))
        both("sum str start", "sum:str-start", lambda: G.drive(a.sum(["a", "b"], "")), lambda: builtins.sum(["a", "b"], ""))
        both("sum bytes start", "sum:str-start", lambda: G.drive(a.sum([b"a"], b"")), lambda: builtins.sum([b"a"], b""))
        both("sum list start", "sum:list-start", lambda: G.drive(a.sum([[1], [2]], [])), lambda: builtins.sum([[1], [2]], []))
        both("sorted one-shot unorderable", "sorted:one-shot", lambda: G.drive(a.sorted(iter([1, "a"]))), lambda: builtins.sorted(iter([1, "a"])))
        both("sorted one-shot", "sorted:one-shot", lambda: G.drive(a.sorted(iter([3, 1, 2]))), lambda: builtins.sorted(iter([3, 1, 2])))
        both("sorted list unorderable", "sorted:one-shot", lambda: G.drive(a.sorted([1, "a"])), lambda: builtins.sorted([1, "a"]))
        both("min mixed numeric", "min:mixed-numeric", lambda: G.drive(a.min([2, 1.0, 1, True])), lambda: builtins.min([2, 1.0, 1, True]))
        both("max mixed numeric", "max:mixed-numeric", lambda: G.drive(a.max([1, 2.0, 2, 1.5])), lambda: builtins.max([1, 2.0, 2, 1.5]))
        both("max unorderable", "max:unorderable", lambda: G.drive(a.max([1, "a"])), lambda: builtins.max([1, "a"]))
        both("set unhashable", "set:unhashable", lambda: G.drive(a.set([1, [2]])), lambda: builtins.set([1, [2]]))
        both("dict pairs", "dict:pairs", lambda: G.drive(a.dict([[1, 2], (3, 4)])), lambda: builtins.dict([[1, 2], (3, 4)]))
        for pairs, kw in (([("a", 1), ("b", 2), ("c", 3)], {"b": 20, "d": 40}), ([], {"x": 1}), ([("k", 1)], {}), ([("a", 1), ("a", 2)], {"a": 3, "z": 0})):
            both("dict(pairs, **kwargs) %r %r" % (pairs, kw), "dict:kwargs", lambda: builtins.list(G.drive(a.dict(pairs, **kw)).items()),
                 lambda: builtins.list(builtins.dict(pairs, **kw).items()))
            both("dict(iterator of pairs, **kwargs) %r %r" % (pairs, kw), "dict:kwargs", lambda: builtins.list(G.drive(a.dict(iter(pairs), **kw)).items()),
                 lambda: builtins.list(builtins.dict(iter(pairs), **kw).items()))
        both("dict(**kwargs) only", "dict:kwargs", lambda: builtins.list(G.drive(a.dict(p=1, q=2)).items()), lambda: builtins.list(builtins.dict(p=1, q=2).items()))
        # None is a value like any other where the stdlib says so: an explicit initial / default of None is not "not given"
        pair = lambda acc, x: (acc, x)  # noqa
        import functools as _ft
        import heapq as _hq
        both("reduce(f, [], None)", "none-argument:reduce", lambda: G.drive(a.reduce(pair, [], None)), lambda: _ft.reduce(pair, [], None))
        both("reduce(f, [7], None)", "none-argument:reduce", lambda: G.drive(a.reduce(pair, [7], None)), lambda: _ft.reduce(pair, [7], None))
        both("reduce(f, [7, 8], None)", "none-argument:reduce", lambda: G.drive(a.reduce(pair, [7, 8], None)), lambda: _ft.reduce(pair, [7, 8], None))
        both("min([], default=None)", "none-argument:min", lambda: G.drive(a.min([], default=None)), lambda: builtins.min([], default=None))
        both("max([], key=len, default=None)", "none-argument:max", lambda: G.drive(a.max([], key=len, default=None)), lambda: builtins.max([], key=len, default=None))
        both("min(iter([]), key=len, default=None)", "none-argument:min", lambda: G.drive(a.min(iter([]), key=len, default=None)), lambda: builtins.min(iter([]), key=len, default=None))
        both("max(['bb', 'a'], key=len, default=None)", "none-argument:max", lambda: G.drive(a.max(["bb", "a"], key=len, default=None)), lambda: builtins.max(["bb", "a"], key=len, default=None))
        both("sum([], None)", "none-argument:sum", lambda: G.drive(a.sum([], None)), lambda: builtins.sum([], None))
        # a regular (not async def) key / function that hands back an awaitable *object* (a Future-like, not a coroutine)
        class _AwVal:
            def __init__(self, v):
                self.v = v

            def __await__(self):
                return self.v
                yield
        data2 = [3, 1, 4, 1, 5, 9, 2, 6]
        awkey = lambda x: _AwVal(-x)  # noqa
        plain = lambda x: -x  # noqa
        both("min key -> awaitable object", "key:awaitable-object", lambda: G.drive(a.min(data2, key=awkey)), lambda: builtins.min(data2, key=plain))
        both("max key -> awaitable object", "key:awaitable-object", lambda: G.drive(a.max(data2, key=awkey)), lambda: builtins.max(data2, key=plain))
        both("sorted key -> awaitable object", "key:awaitable-object", lambda: G.drive(a.sorted(data2, key=awkey)), lambda: builtins.sorted(data2, key=plain))
        both("nlargest key -> awaitable object", "key:awaitable-object", lambda: G.drive(a.nlargest(data2, 3, key=awkey)), lambda: _hq.nlargest(3, data2, key=plain))
        both("reduce function -> awaitable object", "key:awaitable-object", lambda: G.drive(a.reduce(lambda p_, q_: _AwVal(p_ * 2 + q_), data2)), lambda: _ft.reduce(lambda p_, q_: p_ * 2 + q_, data2))
        # sum starts from the start value (0): the type of the result and the failures for non-numbers are the builtin's
        for seq in ([True], [True, True], ["a"], [[1]], [None], [1.5], [], [(1,)]):
            both("sum(%r) value and type" % (seq,), "sum:start-semantics", lambda: (lambda r: (r, type(r).__name__))(G.drive(a.sum(seq))), lambda: (lambda r: (r, type(r).__name__))(builtins.sum(seq)))
        both("reduce empty", "reduce:empty", lambda: G.drive(a.reduce(lambda x, y: x + y, [])), lambda: __import__("functools").reduce(lambda x, y: x + y, []))
        class FalsyKey:          # a callable container that is empty: falsy, still the key function
            def __call__(self, x):
                return -x

            def __len__(self):
                return 0
        fk = FalsyKey()
        data = [3, 1, 4, 1, 5, 9, 2, 6]
        both("min falsy key object", "key:falsy-callable", lambda: G.drive(a.min(data, key=fk)), lambda: builtins.min(data, key=fk))
        both("max falsy key object", "key:falsy-callable", lambda: G.drive(a.max(data, key=fk)), lambda: builtins.max(data, key=fk))
        both("sorted falsy key object", "key:falsy-callable", lambda: G.drive(a.sorted(data, key=fk)), lambda: builtins.sorted(data, key=fk))
        both("nlargest falsy key object", "key:falsy-callable", lambda: G.drive(a.nlargest(data, 3, key=fk)), lambda: __import__("heapq").nlargest(3, data, key=fk))
        both("nsmallest falsy key object", "key:falsy-callable", lambda: G.drive(a.nsmallest(data, 3, key=fk)), lambda: __import__("heapq").nsmallest(3, data, key=fk))
        both("merge falsy key object", "key:falsy-callable", lambda: G.drive(alist(a.merge([5, 3, 1], [6, 4, 2], key=fk))), lambda: builtins.list(__import__("heapq").merge([5, 3, 1], [6, 4, 2], key=fk)))

        # a user callable that raises StopAsyncIteration: for an aggregation it is an error like any other
        # (StopIteration is not probed: PEP 479 turns it into RuntimeError in every coroutine, the interpreter's doing)
        for exc in (StopAsyncIteration,):
            def stopper(n, exc=exc):
                c = [0]

                def f(*args):
                    c[0] += 1
                    if c[0] == n:
                        raise exc("from user code")
                    return args[-1]
                return f
            for n in (1, 2):
                both("reduce function raises %s at call %d" % (exc.__name__, n), "callable-stop:reduce",
                     lambda: G.drive(a.reduce(stopper(n), [1, 2, 3, 4])), lambda: __import__("functools").reduce(stopper(n), [1, 2, 3, 4]))
                both("reduce(initial) function raises %s at call %d" % (exc.__name__, n), "callable-stop:reduce",
                     lambda: G.drive(a.reduce(stopper(n), [1, 2, 3, 4], 0)), lambda: __import__("functools").reduce(stopper(n), [1, 2, 3, 4], 0))
                both("min key raises %s at call %d" % (exc.__name__, n), "callable-stop:min", lambda: G.drive(a.min([1, 2, 3], key=stopper(n))), lambda: builtins.min([1, 2, 3], key=stopper(n)))
                both("max key raises %s at call %d" % (exc.__name__, n), "callable-stop:max", lambda: G.drive(a.max([1, 2, 3], key=stopper(n))), lambda: builtins.max([1, 2, 3], key=stopper(n)))
                both("sorted key raises %s at call %d" % (exc.__name__, n), "callable-stop:sorted", lambda: G.drive(a.sorted([1, 2, 3], key=stopper(n))), lambda: builtins.sorted([1, 2, 3], key=stopper(n)))
                both("nlargest key raises %s at call %d" % (exc.__name__, n), "callable-stop:nlargest", lambda: G.drive(a.nlargest([1, 2, 3], 2, key=stopper(n))), lambda: __import__("heapq").nlargest(2, [1, 2, 3], key=stopper(n)))
        class Seq:          # iterable only through __getitem__
            def __init__(self, items):
                self._items = list(items)

            def __getitem__(self, i):
                return self._items[i]
        import functools as _ft
        import heapq as _hq
        for name, fa, fs in [
            ("min", lambda: a.min(Seq(data)), lambda: builtins.min(Seq(data))), ("max", lambda: a.max(Seq(data)), lambda: builtins.max(Seq(data))),
            ("sum", lambda: a.sum(Seq(data), 2), lambda: builtins.sum(Seq(data), 2)), ("list", lambda: a.list(Seq(data)), lambda: builtins.list(Seq(data))),
            ("tuple", lambda: a.tuple(Seq(data)), lambda: builtins.tuple(Seq(data))), ("set", lambda: a.set(Seq(data)), lambda: builtins.set(Seq(data))),
            ("dict", lambda: a.dict(Seq([(1, 2), (3, 4)])), lambda: builtins.dict(Seq([(1, 2), (3, 4)]))),
            ("sorted", lambda: a.sorted(Seq(data)), lambda: builtins.sorted(Seq(data))),
            ("sorted key", lambda: a.sorted(Seq(data), key=lambda x: -x), lambda: builtins.sorted(Seq(data), key=lambda x: -x)),
            ("all", lambda: a.all(Seq(data)), lambda: builtins.all(Seq(data))), ("any", lambda: a.any(Seq([0, 0])), lambda: builtins.any(Seq([0, 0]))),
            ("reduce", lambda: a.reduce(lambda x, y: x * 2 + y, Seq(data)), lambda: _ft.reduce(lambda x, y: x * 2 + y, Seq(data))),
            ("nlargest", lambda: a.nlargest(Seq(data), 3), lambda: _hq.nlargest(3, Seq(data))),
            ("nsmallest", lambda: a.nsmallest(Seq(data), 3), lambda: _hq.nsmallest(3, Seq(data))),
        ]:
            both("sequence-protocol input: " + name, "getitem-input:" + name.split()[0], lambda fa=fa: G.drive(fa()), lambda fs=fs: fs())
        both("min empty", "min:empty", lambda: G.drive(a.min([])), lambda: builtins.min([]))


def _stop_as_async(f):
    try:
        return f()
    except StopIteration:
        raise StopAsyncIteration


CALLABLE_FLAVOURS = ["def", "partial", "object", "awaitobj", "awaitclass", "object-unhashable", "object-equal", "object-equal"]


def check_values(prop, tier, seed, tools):
    """C01 (iterator tools) and C02 (aggregations)."""
    rep = Report(prop, tier, seed)
    proofs_ok = proof_stage(rep, prop)
    rng = random.Random(seed)
    per = 90 * common.scale(rep) if tier == "quick" else 1200
    cases = load_corpus(prop) + gen_cases(rng, tools, per, tier, mixed=True)
    if tier != "quick":
        nex = 0
        for name in tools:
            ex = list(exhaustive_cases(name))
            nex += len(ex)
            cases += ex
        rep.notes["bounded_exhaustive_cases"] = nex
    pairs, fails = [], 0
    std_pairs = []
    dist = {}
    for c in cases:
        r = run_impl(c)
        pairs.append((c, r))
        dist[c.name] = dist.get(c.name, 0) + 1
        nontriv = builtins.any(len(s) > 1 for s in c.srcs)
        rep.count((c.name, repr(c.params), repr(c.srcs)), nontriv, sample=c.describe() if nontriv else None)
        s = std_run_for(c, r)
        std_pairs.append((c, s))
        why = oracle_values(c, r, s)
        if why and documented_deviation(c, r, s):
            why = None
        # arguments must not be mutated (C02): compare source item lists and start/default objects
        if prop == "C02" and why is None:
            why = mutation_check(c)
        # the same data arriving through a plain one-shot *synchronous* iterator (no __len__, cannot be iterated twice)
        if why is None and c.plan is None and c.tool.kind in ("agg", "gen") and c.tool.std is not None:
            rs = G.run_impl_sync_sources(c)
            why = oracle_values(c, rs, s)
            if why and documented_deviation(c, rs, s):
                why = None
            if why:
                why = "over one-shot synchronous iterators: %s" % why
        # a callable argument may be any kind of async callable, not only an `async def` function: a regular function, a
        # partial, a callable object, a callable handing out an awaitable that is no coroutine (like a Future), a class
        # whose instances are awaitable -- the counterpart's result stays the reference
        if why is None and c.plan is None and builtins.any(c.params.get(k_) is not None for k_ in ("f", "key")):
            fl = CALLABLE_FLAVOURS[len(pairs) % len(CALLABLE_FLAVOURS)]
            r2 = run_impl(c, flavour=fl)
            why = oracle_values(c, r2, s)
            if why and documented_deviation(c, r2, s):
                why = None
            if why:
                why = "with a %r callable: %s" % (fl, why)
        if why:
            fails += 1
            small = shrink_case(c, lambda cc: oracle_values(cc, run_impl(cc), std_run_for(cc, run_impl(cc))) is not None)
            rep.violation(sig(c, param_sig(c)), {"case": encode_case(small), "why": why, "replay_note": "run_impl vs run_std on this case"})
    rep.notes["input_distribution"] = dist
    direct_probes(prop, rep)
    spec_stage(rep, prop, std_pairs)
    finish_with_model(rep, prop, pairs, fails, proofs_ok)
    return rep.finish()


def param_sig(case):
    """Stable signature component: the tool plus the parameter features relevant to known findings."""
    p = case.params
    if case.name == "accumulate":
        return "initial=None-object" if (p.get("initial") and p["initial"][0] is None) else "values"
    if case.name == "batched":
        return "trailing-poll"
    return "values"


def mutation_check(case):
    """Run the aggregation on list inputs and mutable start values; nothing may be altered."""
    import copy
    if case.tool.kind != "agg":
        return None
    before = [list(s) for s in case.srcs]
    p = case.params
    start = p.get("start")
    start_copy = list(start) if isinstance(start, list) else None
    ctx = G.Ctx(None)
    lists = [list(s) for s in case.srcs]
    keep = [list(x) for x in lists]
    try:
        G.drive(G.run_agg(case.tool.impl(ctx, lists)))
    except Exception:
        pass
    for a_, b_ in builtins.zip(lists, keep):
        if len(a_) != len(b_) or builtins.any(x is not y for x, y in builtins.zip(a_, b_)):
            return "input list mutated"
    if start_copy is not None and (len(start) != len(start_copy) or builtins.any(x is not y for x, y in builtins.zip(start, start_copy))):
        return "start value mutated: %r" % (start,)
    # a regular generator handed in as the input is left as the counterpart leaves it: whatever the call did not consume
    # is still there for the caller (an aggregation that returns early must not close somebody else's generator)
    if case.tool.std is not None and case.plan is None:
        def gen_of(items):
            for x in items:
                yield x
        g1 = [gen_of(s_) for s_ in case.srcs]
        g2 = [gen_of(s_) for s_ in case.srcs]
        try:
            G.drive(G.run_agg(case.tool.impl(G.Ctx(None), g1)))
        except Exception:
            pass
        G.run_agg_sync(lambda: case.tool.std(G.Ctx(None), g2))
        rest1 = [list(g) for g in g1]
        rest2 = [list(g) for g in g2]
        if [len(x) for x in rest1] != [len(x) for x in rest2] or builtins.any(x is not y for l1, l2 in builtins.zip(rest1, rest2) for x, y in builtins.zip(l1, l2)):
            return "a generator passed as input is left with %r afterwards, the counterpart leaves %r" % (rest1, rest2)
    return None


def check_C05(tier, seed):
    rep = Report("C05", tier, seed)
    proofs_ok = proof_stage(rep, "C05")
    rng = random.Random(seed)
    per = 40 * common.scale(rep) if tier == "quick" else 500
    tools = [t for t in ITER_TOOLS] + ["all", "any"]
    cases = load_corpus("C05") + gen_cases(rng, tools, per, tier)
    if tier != "quick":
        nex = 0
        for name in tools:
            ex = list(exhaustive_cases(name, maxlen=3))
            nex += len(ex)
            cases += ex
        rep.notes["bounded_exhaustive_cases"] = nex
    pairs, fails = [], 0
    std_pairs = []
    for c in cases:
        r0 = run_impl(c)
        pairs.append((c, r0))
        rep.count((c.name, repr(c.params), repr(c.srcs)), builtins.any(len(s) > 1 for s in c.srcs), sample=c.describe())
        s0 = std_run_for(c, r0)
        std_pairs.append((c, s0))
        bad = None
        if s0 is not None and not same_log(no_close(r0["log"]), s0["log"]):
            bad = ("full", no_close(r0["log"]), s0["log"])
        if c.tool.kind != "agg":
            # every number of consumer steps: close at the n-th yield vs CPython driven n steps
            yield_uses = [k for k, kind in enumerate(use_kinds(r0["log"])) if kind == "yield" and k < base_limit(c, use_kinds(r0["log"]))]
            for n, k in enumerate(yield_uses, start=1):
                cn = with_plan(c, (k, ("GenExit",)))
                rn = run_impl(cn)
                pairs.append((cn, rn))
                rep.count((c.name, repr(c.params), repr(c.srcs), n), True)
                sn = std_prefix_run(c, n)
                if bad is None and not same_log(no_close(rn["log"]), sn["log"]):
                    bad = ("steps=%d" % n, no_close(rn["log"]), sn["log"])
        if bad:
            fails += 1
            rep.violation(sig(c, trace_sig(c, bad)), {"case": encode_case(c), "at": bad[0], "impl_log": repr(bad[1]), "std_log": repr(bad[2])})
    # groupby is a state machine of its own (Model/GroupBy.v, C16): its laziness is compared here as well
    import check_c16
    fails += check_c16.aspect_lazy(rep, rng, 300 * common.scale(rep) if tier == "quick" else 5000)
    fails += tee_laziness(rep, rng, 150 * common.scale(rep) if tier == "quick" else 3000)
    fails += reiterable_laziness(rep)
    spec_stage(rep, "C05", std_pairs)
    finish_with_model(rep, "C05", pairs, fails, proofs_ok)
    return rep.finish()


def trace_sig(case, bad):
    """Signature of a trace deviation: tool + the kind of difference (extra/missing trailing poll or other)."""
    il, sl = bad[1], bad[2]
    n = builtins.min(len(il), len(sl))
    if same_log(il[:n], sl[:n]):
        extra = sl[n:] if len(sl) > n else il[n:]
        kinds = ",".join(e[0] for e in extra)
        return "%s-trailing:%s" % ("std-more" if len(sl) > n else "impl-more", kinds)
    return "order"


def check_faults(prop, tier, seed):
    """C04 (release), C06 (transparency of Exception faults), C18 (cancellation = BaseException thrown at suspension)."""
    rep = Report(prop, tier, seed)
    proofs_ok = proof_stage(rep, prop)
    rng = random.Random(seed)
    per = {"C04": 18, "C06": 18, "C18": 16}[prop] * min(2, common.scale(rep)) if tier == "quick" else 150
    tools = ITER_TOOLS + AGG_TOOLS
    cases = load_corpus(prop) + gen_cases(rng, tools, per, tier)
    pairs, fails = [], 0
    nplans = 0
    for c in cases:
        if c.name == "batched" and c.params["n"] < 1:
            continue
        r0 = run_impl(c)
        pairs.append((c, r0))
        uk = use_kinds(r0["log"])
        lim = base_limit(c, uk)
        plans = []
        if prop == "C04":
            plans += [(k, ("GenExit",)) for k, kind in enumerate(uk) if kind == "yield"]
            plans += [(k, ("inj", 7, False)) for k, kind in enumerate(uk) if kind in ("pull", "call", "close", "yield")]
            plans += [(k, ("inj", 8, True)) for k, kind in enumerate(uk) if kind == "close"]      # a cleanup that is itself interrupted
            if r0.get("unraisable"):
                fails += 1
                rep.violation(sig(c, "unraisable"), {"case": encode_case(c), "why": "exception in an un-awaited finaliser: %r" % (r0["unraisable"][:2],)})
            if released_problem(c, r0):
                fails += 1
                rep.violation(sig(c, "leak"), {"case": encode_case(c), "why": "source not released after exhaustion", "states": r0["states"]})
        elif prop == "C06":
            plans += [(k, ("inj", 7, False)) for k, kind in enumerate(uk) if kind in ("pull", "call")]
        else:
            plans += [(k, ("inj", 9, True)) for k, kind in enumerate(uk) if kind in ("pull", "call", "close")]
        plans = [p_ for p_ in plans if p_[0] < lim]
        for plan in plans:
            if c.tool.kind == "handle" and plan[1][0] == "inj" and uk[plan[0]] == "yield":
                continue                         # class-based handles have no athrow
            cp = with_plan(c, plan)
            nplans += 1
            if prop == "C18":
                rp, why = run_cancel(cp, uk)
            else:
                rp = run_impl(cp)
                why = None
            pairs.append((cp, rp))
            rep.count((c.name, repr(c.params), repr(c.srcs), plan), True, sample=cp.describe())
            if why is None:
                why = fault_oracle(prop, c, cp, rp, uk)
            if why is None and prop == "C18" and nplans % 2 == 0:
                # what a source's aclose() returns must not matter under cancellation either (it must never act as the
                # "suppress" answer of an __aexit__)
                G.Src.close_result = True
                try:
                    rt, whyt = run_cancel(cp, uk)
                finally:
                    G.Src.close_result = None
                if whyt is None and rt is not None and rp is not None and rt["outcome"][:2] != rp["outcome"][:2]:
                    whyt = ("close-result-matters", "with sources whose aclose() returns a truthy value the cancelled run ends differently: %r vs %r" % (rt["outcome"][:2], rp["outcome"][:2]))
                why = whyt
            if why is None and prop in ("C04", "C18") and nplans % 3 == 1 and c.name != "dict":
                # the source objects themselves are falsy (say, streams whose __bool__ reports "nothing buffered"): they are
                # released like any other (dict is left out: it documents `if not iterable` as "no iterable given")
                G.Src.falsy = True
                try:
                    if prop == "C18":
                        rt, whyt = run_cancel(cp, uk)
                    else:
                        rt, whyt = run_impl(cp), None
                finally:
                    G.Src.falsy = False
                if whyt is None and rt is not None and rp is not None and released_problem(c, rt) and not released_problem(c, rp):
                    whyt = ("falsy-source-leak", "with falsy source objects a source is not released (states %r) after %r" % (rt["states"], cp.plan))
                why = whyt
            if why is None and prop in ("C04", "C06") and nplans % 3 == 0:
                # what a source's aclose() returns must not matter (it is not an __aexit__)
                G.Src.close_result = True
                try:
                    rt = run_impl(cp)
                finally:
                    G.Src.close_result = None
                if rt["outcome"][:2] != rp["outcome"][:2] or not same_log(rt["log"], rp["log"]):
                    why = ("close-result-matters", "with sources whose aclose() returns a truthy value the run differs: %r vs %r" % (rt["outcome"][:2], rp["outcome"][:2]))
            if why:
                fails += 1
                rep.violation(sig(c, why[0]), {"case": encode_case(cp), "why": why[1], "log": repr(rp["log"]), "states": rp["states"]})
        if prop == "C06" and c.tool.kind in ("gen", "agg") and c.plan is None:
            # the same tool over plain *synchronous* iterators: an exception raised by such a source or by a callable
            # (TypeError / AttributeError / KeyError flavoured) surfaces unchanged there as well
            s0 = G.run_impl_sync_sources(c)
            suk = use_kinds(s0["log"])
            pos = [k for k, kind in enumerate(suk) if kind in ("pull", "call") and k < lim]
            for k in (pos if len(pos) <= 5 else rng.sample(pos, 5)):
                flavour = 1 + nplans % 3
                rs = G.run_impl_sync_sources(with_plan(c, (k, ("inj", 7, False, flavour))))
                nplans += 1
                es = rs["outcome"][2] if len(rs["outcome"]) > 2 else None
                if rs["ctx"].fired and (rs["outcome"][0] != "exn" or not isinstance(es, (Inj, InjBase)) or es.id != 7):
                    fails += 1
                    rep.violation(sig(c, "not-propagated-sync-source"), {"case": encode_case(c), "why": "with synchronous sources the injected %s at use %d (%s) did not "
                                  "propagate unchanged: outcome %r" % (G.inj_class(flavour).__name__, k, suk[k], rs["outcome"][:2])})
        if prop == "C06" and c.name in STD_ORDER_TOOLS and c.tool.std is not None and c.plan is None:
            # enumerate the fault positions over the CPython counterpart's own use sequence as well: a use the
            # implementation no longer performs (so that the failure is swallowed) has no position in its own sequence
            s0 = run_std(c)
            suk = use_kinds(s0["log"])
            impl_idx = [j for j, kind in enumerate(uk) if kind != "close"]
            for ks, kind in enumerate(suk):
                if kind not in ("pull", "call"):
                    continue
                sp = run_std(with_plan(c, (ks, ("inj", 7, False))))
                ki = impl_idx[ks] if ks < len(impl_idx) else 10 ** 6
                cp = with_plan(c, (ki, ("inj", 7, False)))
                rp = run_impl(cp)
                nplans += 1
                so, ro = sp["outcome"], rp["outcome"]
                same_exc = ro[0] == "exn" and so[0] == "exn" and ro[1] == so[1]
                yi, ys = yields_of(rp["log"]), yields_of(sp["log"])
                same_items = len(yi) == len(ys) and builtins.all(same_val(x, y) for x, y in builtins.zip(yi, ys))
                if not (same_exc and same_items):
                    fails += 1
                    rep.violation(sig(c, "std-fault-%s" % ("swallowed" if ro[0] == "ok" else "differs")),
                                  {"case": encode_case(c), "why": "the stdlib counterpart fails at its use %d (%s) with the injected exception after items %r; "
                                   "asyncstdlib with the same failing use: outcome %r after items %r" % (ks, kind, ys, ro[:2], yi)})
        if prop == "C06" and c.name in ("sorted", "nlargest", "nsmallest") and c.tool.std is not None and c.plan is None and c.params.get("key") is not None:
            # the tools that compute their keys at another moment than the counterpart (as the items arrive): still one key call
            # per item the counterpart calls it for, and a key that fails at its j-th call fails the call the same way
            s0 = run_std(c)
            suk = use_kinds(s0["log"])
            std_calls = [k for k, kind in enumerate(suk) if kind == "call"]
            impl_calls = [k for k, kind in enumerate(uk) if kind == "call"]
            for j, ks in enumerate(std_calls):
                sp = run_std(with_plan(c, (ks, ("inj", 7, False))))
                ki = impl_calls[j] if j < len(impl_calls) else 10 ** 6
                rp = run_impl(with_plan(c, (ki, ("inj", 7, False))))
                nplans += 1
                so, ro = sp["outcome"], rp["outcome"]
                if so[0] == "exn" and isinstance(so[2] if len(so) > 2 else None, (Inj, InjBase)) and not (ro[0] == "exn" and ro[1] == so[1]):
                    fails += 1
                    rep.violation(sig(c, "std-key-fault-%s" % ("swallowed" if ro[0] == "ok" else "differs")),
                                  {"case": encode_case(c), "why": "the key fails at its call number %d: the stdlib counterpart raises that exception, asyncstdlib ends %r" % (j + 1, ro[:2])})
                    break
    rep.notes["fault_plans"] = nplans
    # groupby is a state machine of its own (Model/GroupBy.v, C16): its part of this property is checked here as well
    import check_c16
    ng = (150 * builtins.min(2, common.scale(rep))) if tier == "quick" else 3000
    if prop == "C06":
        fails += check_c16.aspect_faults(rep, rng, 2 * ng)
        fails += falsy_callable_fault_probes(rep)
    elif prop == "C04":
        fails += check_c16.aspect_release(rep, rng, ng, cancel=False)
        fails += check_c16.aspect_release(rep, rng, ng // 2, cancel=True)
        fails += from_iterable_release(rep, rng, ng, cancel=False)
        fails += equal_sources_release(rep)
    elif prop == "C18":
        fails += check_c16.aspect_release(rep, rng, ng, cancel=True)
        fails += from_iterable_release(rep, rng, ng // 2, cancel=True)
        # an ExitStack unwinding under cancellation behaves like the nested `async with` statements (check_c14's stage)
        import check_c14
        fails += check_c14.cancellation_stage(rep, rng, 40 if tier == "quick" else 800)
        # a cancelled call of a cached function leaves the cache as it was (check_c11's directed probe)
        import check_c11
        fails += check_c11.cancelled_call_probe(rep)
        # a tee one of whose children had its first step abandoned before it ran (a task cancelled before its first step)
        import check_c09
        fails += check_c09.abandoned_first_step_probe(rep)
        # sources that are value-like objects (equal to each other, or unhashable): each is released on its own
        fails += equal_sources_release(rep)
    finish_with_model(rep, prop, pairs, fails, proofs_ok)
    return rep.finish()


def from_iterable_release(rep, rng, n, cancel):
    """chain.from_iterable over an *asynchronous* iterable of sources (C04/C18): the outer iterable is owned as well.
    Everything suspends (outer and inner pulls, every aclose). The consumer takes j items and closes, or an exception
    is thrown at some suspension and then the owner closes the chain: afterwards the outer iterable and every inner
    source that was handed out are closed or exhausted."""
    import asyncstdlib as a
    from gencalc import Ctx, Src, SrcGA, drive_tokens
    fails = 0
    for _ in range(n):
        k = rng.randrange(1, 4)
        inner_items = [[G.Obj(10 * i + j + 1, j) for j in range(rng.randrange(0, 3))] for i in range(k)]
        # at least one step: what an unadvanced chain.from_iterable owes the outer iterable is not stated anywhere
        take = rng.randrange(1, builtins.sum(len(x) for x in inner_items) + 2)
        proxy = rng.random() < 0.3

        def scenario(cancel_at):
            ctx = Ctx(None)
            inners = [(SrcGA if proxy and i % 2 else Src)(ctx, i, its, suspend=True) for i, its in enumerate(inner_items)]
            outer = (SrcGA if proxy else Src)(ctx, 99, inners, suspend=True)
            ch = a.chain.from_iterable(outer)

            async def go():
                got = 0
                try:
                    while got < take:
                        await ch.__anext__()
                        got += 1
                except StopAsyncIteration:
                    pass
                await ch.aclose()
            try:
                _, toks = drive_tokens(go(), cancel_at, G.InjBase(5) if cancel_at is not None else None)
                thrown = False
            except G.InjBase:
                thrown = True
                toks = None
                drive_tokens(ch.aclose())          # the owner closes the iterator after the cancellation
            handed = [s_ for s_ in inners if s_.closing or s_.exh or builtins.any(e[0] == "pull" and e[1] == s_.idx for e in ctx.log)]
            leaked = [("outer" if s_ is outer else "inner %d" % s_.idx) for s_ in [outer] + handed if not s_.released()]
            return toks, thrown, leaked
        toks, _, leaked = scenario(None)
        positions = [None] + (list(range(len(toks))) if cancel else [])
        if len(positions) > 10:
            positions = [None] + rng.sample(positions[1:], 9)
        for pos in positions:
            if pos is not None:
                _, thrown, leaked = scenario(pos)
            rep.count(("from_iterable", repr(inner_items), take, proxy, pos), True)
            if leaked:
                fails += 1
                rep.violation("chain:from_iterable-release", {"inner": repr(inner_items), "take": take, "proxy_sources": proxy, "cancel_at_suspension": pos,
                                                              "why": "not released after the chain was closed: %r" % (leaked,)})
                break
    return fails


def equal_sources_release(rep):
    """C04, directed: distinct source iterators that compare *equal* to each other (value-like cursors with __eq__):
    every one of them is an iterator of its own and must be released"""
    import asyncstdlib as a

    class Cursor:
        def __init__(self, n):
            self.n, self.pos, self.closed = n, 0, 0

        def __eq__(self, other):
            return isinstance(other, Cursor)

        def __hash__(self):
            return 7

        def __aiter__(self):
            return self

        async def __anext__(self):
            if self.closed or self.pos >= self.n:
                raise StopAsyncIteration
            self.pos += 1
            return self.pos

        async def aclose(self):
            self.closed += 1
    tools = {"zip": lambda s_: a.zip(*s_), "zip strict": lambda s_: a.zip(*s_, strict=True), "map": lambda s_: a.map(lambda *x: x, *s_),
             "zip_longest": lambda s_: a.zip_longest(*s_), "merge": lambda s_: a.merge(*s_), "chain": lambda s_: a.chain(*s_),
             "compress": lambda s_: a.compress(*s_[:2]), "chain.from_iterable": lambda s_: a.chain.from_iterable(s_)}
    class PlainCursor(Cursor):
        """value equality without a hash (like a plain dataclass): unhashable"""
        __hash__ = None
    fails = 0
    for name, mk in tools.items():
        for k in (2, 3):
            for take in (0, 1, 2, 12, 13, 14):
                cls_ = Cursor if take < 10 else PlainCursor
                take = take % 12
                srcs = [cls_(3 + i) for i in range(k)]
                it = mk(srcs)

                async def go():
                    for _ in range(take):
                        try:
                            await it.__anext__()
                        except (StopAsyncIteration, ValueError):
                            break
                    await it.aclose()
                try:
                    G.drive(go())
                    used = srcs[:2] if name == "compress" else srcs
                    if name == "chain.from_iterable":
                        owed = [c for c in used if c.pos or c.closed]       # only what was fetched from the list
                    elif take or name == "chain":
                        owed = used                                          # advanced (or a handle that owns its arguments)
                    else:
                        owed = []
                    leaked = [i for i, c in enumerate(used) if builtins.any(c is o for o in owed) and not (c.closed or c.pos >= c.n)]
                    why = "sources %r not closed (positions %r, closes %r)" % (leaked, [c.pos for c in used], [c.closed for c in used]) if leaked else None
                except BaseException as e:  # noqa
                    why = "failed: %r" % (e,)
                rep.count(("equal-sources", name, k, take, cls_.__name__), True)
                if why:
                    fails += 1
                    rep.violation("release:equal-sources", {"tool": name, "sources": k, "take": take, "hashable": cls_ is Cursor, "why": why})
    return fails


def falsy_callable_fault_probes(rep):
    """C06, directed: a key / function given as a callable *object that is falsy* (an empty callable container) is called like
    any other, so the error it raises at its n-th call surfaces exactly where the stdlib counterpart raises it"""
    import heapq
    import functools
    import asyncstdlib as a

    class Boom(Exception):
        pass

    def mk(n, asynchronous):
        class K:
            def __init__(self):
                self.calls = 0

            def __len__(self):
                return 0

            # value-like: every such object equals every other and hashes alike, yet each is its own callable
            def __eq__(self, other):
                return type(other).__name__ == "K"

            def __hash__(self):
                return 11
            if asynchronous == "awaitobj":
                def __call__(self, *args):          # a plain method handing back an awaitable object (not a coroutine)
                    outer = self

                    class _Aw:
                        def __await__(self_):
                            outer.calls += 1
                            if outer.calls == n:
                                raise Boom(n)
                            return args[-1]
                            yield
                    return _Aw()
            elif asynchronous:
                async def __call__(self, *args):
                    self.calls += 1
                    if self.calls == n:
                        raise Boom(n)
                    return args[-1]
            else:
                def __call__(self, *args):
                    self.calls += 1
                    if self.calls == n:
                        raise Boom(n)
                    return args[-1]
        return K()

    async def alist(it):
        return [x async for x in it]
    data = [5, 3, 8, 1]
    probes = {
        "merge": (lambda k: G.drive(alist(a.merge([1, 4], [2, 3], key=k))), lambda k: list(heapq.merge([1, 4], [2, 3], key=k))),
        "min": (lambda k: G.drive(a.min(data, key=k)), lambda k: builtins.min(data, key=k)),
        "max": (lambda k: G.drive(a.max(data, key=k)), lambda k: builtins.max(data, key=k)),
        "sorted": (lambda k: G.drive(a.sorted(data, key=k)), lambda k: builtins.sorted(data, key=k)),
        "nlargest": (lambda k: G.drive(a.nlargest(data, 2, key=k)), lambda k: heapq.nlargest(2, data, key=k)),
        "nsmallest": (lambda k: G.drive(a.nsmallest(data, 2, key=k)), lambda k: heapq.nsmallest(2, data, key=k)),
        "map": (lambda k: G.drive(alist(a.map(k, data))), lambda k: list(map(k, data))),
        "filter": (lambda k: G.drive(alist(a.filter(k, data))), lambda k: list(filter(k, data))),
        "takewhile": (lambda k: G.drive(alist(a.takewhile(k, data))), lambda k: list(itertools.takewhile(k, data))),
        "accumulate": (lambda k: G.drive(alist(a.accumulate(data, k))), lambda k: list(itertools.accumulate(data, k))),
        "reduce": (lambda k: G.drive(a.reduce(k, data)), lambda k: functools.reduce(k, data)),
        "groupby": (lambda k: G.drive(alist(a.map(lambda kg: kg[0], a.groupby(data, key=k)))), lambda k: [kk for kk, _ in itertools.groupby(data, key=k)]),
    }
    fails = 0
    # an exception of the protocol's own type raised by *user code* in an aggregation is an error like any other
    for agg, fa_, fs_ in (("reduce", lambda f: G.drive(a.reduce(f, data)), lambda f: functools.reduce(f, data)),
                          ("reduce(initial)", lambda f: G.drive(a.reduce(f, data, 0)), lambda f: functools.reduce(f, data, 0)),
                          ("min key", lambda f: G.drive(a.min(data, key=f)), lambda f: builtins.min(data, key=f)),
                          ("sorted key", lambda f: G.drive(a.sorted(data, key=f)), lambda f: builtins.sorted(data, key=f)),
                          ("nsmallest key", lambda f: G.drive(a.nsmallest(data, 2, key=f)), lambda f: heapq.nsmallest(2, data, key=f))):
        for n in (1, 2, 3):
            def stopper():
                c = [0]

                def f(*args):
                    c[0] += 1
                    if c[0] == n:
                        raise StopAsyncIteration("from user code")
                    return args[-1]
                return f

            def ev2(run, f):
                try:
                    return ("ok", run(f))
                except BaseException as e:  # noqa
                    return ("exn", type(e).__name__, str(e))
            got, want = ev2(fa_, stopper()), ev2(fs_, stopper())
            rep.count(("callable-stop", agg, n), True)
            if got != want:
                fails += 1
                rep.violation("callable-stop:%s" % agg.split()[0], {"tool": agg, "fails_at_call": n, "why": "a callable raising StopAsyncIteration: asyncstdlib %r, stdlib %r" % (got, want)})
    for name, (fa, fs) in probes.items():
        for n in (1, 2, 3, 99):
            def ev(f, k):
                try:
                    return ("ok", f(k), k.calls)
                except Boom as e:
                    return ("boom", e.args[0], k.calls)
                except BaseException as e:  # noqa
                    return ("other", type(e).__name__)
            want = ev(fs, mk(n, False))
            for asynchronous in (False, True, "awaitobj"):
                got = ev(fa, mk(n, asynchronous))
                rep.count(("falsy-callable", name, n, asynchronous), True)
                if got[:2] != want[:2]:
                    fails += 1
                    rep.violation("falsy-callable:%s" % name, {"tool": name, "fails_at_call": n, "async_callable": asynchronous,
                                                                "why": "asyncstdlib %r, stdlib %r" % (got, want)})
    return fails


def reiterable_laziness(rep):
    """C05, directed: an argument that can be iterated again (its __aiter__/__iter__ hands out a fresh iterator each time) is
    nevertheless iterated exactly once by every tool: the trace of pulls equals the stdlib's over the same kind of object,
    after every number of consumer steps (cycle replays what it saved, tee/chain/zip never start over)"""
    import itertools
    import asyncstdlib as a
    fails = 0

    def mk(log, data, asynchronous):
        if asynchronous:
            class Table:
                def __aiter__(s):
                    log.append("iter")

                    async def g():
                        for x in data:
                            log.append(("pull", x))
                            yield x
                        log.append("end")
                    return g()
        else:
            class Table:
                def __iter__(s):
                    log.append("iter")

                    def g():
                        for x in data:
                            log.append(("pull", x))
                            yield x
                        log.append("end")
                    return g()
        return Table()
    tools = {
        "cycle": (lambda t: a.cycle(t), lambda t: itertools.cycle(t)),
        "chain twice": (lambda t: a.chain(t, t), lambda t: itertools.chain(t, t)),
        "zip with itself": (lambda t: a.zip(t, t), lambda t: zip(t, t)),
        "enumerate": (lambda t: a.enumerate(t), lambda t: enumerate(t)),
        "pairwise": (lambda t: a.pairwise(t), lambda t: itertools.pairwise(t)),
    }
    for name, (fa, fs) in tools.items():
        for data in ([], [1], [1, 2, 3]):
            for steps in range(1, 9):
                log_s = []
                it_s = fs(mk(log_s, data, False))
                out_s = []
                for _ in range(steps):
                    try:
                        out_s.append(next(it_s))
                    except StopIteration:
                        break
                for asynchronous in (False, True):
                    log_a = []
                    it_a = fa(mk(log_a, data, asynchronous))
                    out_a = []

                    async def go():
                        for _ in range(steps):
                            try:
                                out_a.append(await it_a.__anext__())
                            except StopAsyncIteration:
                                break
                    try:
                        G.drive(go())
                        got = (out_a, log_a)
                    except BaseException as e:  # noqa
                        got = "raised %r" % (e,)
                    rep.count(("reiterable", name, len(data), steps, asynchronous), True)
                    # when the argument's iterator is requested may differ (a generator starts lazily): what counts is how often,
                    # and the pulls
                    ok = (isinstance(got, tuple) and got[0] == out_s and [e for e in got[1] if e != "iter"] == [e for e in log_s if e != "iter"]
                          and got[1].count("iter") <= log_s.count("iter"))
                    if not ok:
                        fails += 1
                        rep.violation("reiterable:%s" % name.split()[0], {"tool": name, "data": data, "steps": steps, "async_iterable": asynchronous,
                                                                           "why": "(items, how the argument was iterated): asyncstdlib %r, stdlib %r" % (got, (out_s, log_s))})
                        break
                else:
                    continue
                break
    return fails


def tee_laziness(rep, rng, n):
    """C05 for tee (its interleavings are C09's): under sequential use the source is pulled exactly when itertools.tee
    pulls it -- only when the child that is asked has nothing buffered -- and never after it has ended"""
    import itertools
    import asyncstdlib as a
    fails = 0
    for _ in range(n):
        nchild = rng.choice([2, 3, 4])
        items = list(range(rng.randrange(0, 6)))
        ops = [rng.randrange(nchild) for _ in range(rng.randrange(1, 16))]

        def run(lib):
            pulls = [0]
            if lib == "asl":
                class S:
                    def __init__(s):
                        s.items = list(items)

                    def __aiter__(s):
                        return s

                    async def __anext__(s):
                        pulls[0] += 1
                        if not s.items:
                            raise StopAsyncIteration
                        return s.items.pop(0)
                kids = list(a.tee(S(), nchild))
            else:
                class I:
                    def __init__(s):
                        s.items = list(items)

                    def __iter__(s):
                        return s

                    def __next__(s):
                        pulls[0] += 1
                        if not s.items:
                            raise StopIteration
                        return s.items.pop(0)
                kids = list(itertools.tee(I(), nchild))
            trace = []

            async def go():
                ended = set()
                for i in ops:
                    if i in ended:
                        continue         # (asking an exhausted itertools.tee child again re-polls the source; a finished generator cannot)
                    try:
                        v = (await kids[i].__anext__()) if lib == "asl" else next(kids[i])
                    except (StopAsyncIteration, StopIteration):
                        v = "stop"
                        ended.add(i)
                    trace.append((v, pulls[0]))
            G.drive(go())
            return trace
        ta, ts = run("asl"), run("std")
        rep.count(("tee-lazy", nchild, tuple(items), tuple(ops)), len(ops) > 2)
        if ta != ts:
            fails += 1
            rep.violation("tee:laziness", {"children": nchild, "items": items, "advance_order": ops,
                                           "why": "(value, source pulls so far) after each step: asyncstdlib %r itertools %r" % (ta, ts)})
    return fails


def released_problem(case, run):
    if case.tool.kind == "script":
        return False
    if run["uses"] == 0:
        # nothing was touched at all: an iterator tool that was never advanced owes nothing; an aggregation that *returned a
        # result* has had its source and must have released it (one that rejected its arguments up front is left alone)
        if not (case.tool.kind == "agg" and run["outcome"][0] == "ok"):
            return False
    return not released_all(run)


def fault_oracle(prop, c, cp, rp, uk):
    if rp.get("unraisable"):
        return ("unraisable", "an exception was raised in an un-awaited finaliser during the run: %r" % (rp["unraisable"][:2],))
    k, kind = cp.plan
    out = rp["outcome"]
    fired = rp["ctx"].fired
    if not fired:
        return None
    if kind[0] == "inj":
        exc = out[2] if len(out) > 2 else None
        if out[0] != "exn" or not isinstance(exc, (Inj, InjBase)) or exc.id != kind[1]:
            return ("not-propagated", "injected exception at use %d (%s) did not propagate unchanged: outcome %r" % (k, uk[k], out[:2]))
        # nothing but aclose after the fault
        log = rp["log"]
        upto = index_of_use(log, k)
        after = log[upto + 1:]
        if builtins.any(e[0] != "close" for e in after):
            return ("used-after-fault", "events after the fault: %r" % (after,))
    if prop in ("C04", "C18") and released_problem(c, rp):
        return ("leak", "source not released (states %r) after fault %r" % (rp["states"], cp.plan))
    if prop == "C06" and c.tool.kind != "agg" and c.tool.std is not None:
        # items delivered = those of the CPython counterpart failing at the corresponding use
        kstd = len([1 for j in range(k) if uk[j] != "close"])
        sp = run_std(with_plan(c, (kstd, kind)))
        yi, ys = yields_of(rp["log"]), yields_of(sp["log"])
        if len(yi) != len(ys) or not builtins.all(same_val(x, y) for x, y in builtins.zip(yi, ys)):
            return ("items-before-fault", "items before the fault differ: impl %r std %r" % (yi, ys))
    return None


def index_of_use(log, k):
    n = -1
    for i, e in enumerate(log):
        if e[0] in ("pull", "call", "close", "yield"):
            n += 1
            if n == k:
                return i
    return len(log)


def run_cancel(cp, uk):
    """C18: sources/callables/aclose suspend; the exception is thrown in at the suspension that belongs to use k.
    Afterwards the owner closes the iterator it was advancing."""
    k, kind = cp.plan
    # suspension index = number of non-yield uses before k
    j = len([1 for i in range(k) if uk[i] != "yield"])
    plain = Case(cp.name, cp.params, cp.srcs, None, cp.acl)
    r = run_impl(plain, suspend=True, cancel_at=j, cancel_id=kind[1])
    r["ctx"].fired = True
    out = r["outcome"]
    why = None
    exc = out[2] if len(out) > 2 else None
    if out[0] != "exn" or not isinstance(exc, InjBase) or exc.id != kind[1]:
        why = ("cancel-not-propagated", "cancellation at suspension %d did not propagate: %r" % (j, out[:2]))
    else:
        r["outcome"] = ("exn", ("inj", kind[1], True), exc)
    # the owner closes the iterator where there is one
    obj = r["obj"]
    if hasattr(obj, "aclose") and cp.tool.kind != "agg":
        try:
            G.drive_tokens(obj.aclose())
        except BaseException as e:  # noqa
            why = why or ("owner-close-failed", "closing the iterator after cancellation raised %r" % (e,))
        # the owner's close is outside the modelled run: do not let it count in the comparison
        if cp.tool.kind != "script" and not released_all(r) and why is None and len(r["log"]) > 0:
            why = ("leak", "source not released after cancellation at suspension %d and closing the iterator: %r" % (j, [s.state() for s in r["srcs"]]))
    return r, why
