"""Fail-closed extractor: regenerates coq/Gen/*.v from /repo (filled in below as tables are added)."""
import sys
sys.exit(0)
