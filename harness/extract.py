"""Fail-closed extractor: regenerates coq/Gen/*.v from /repo/asyncstdlib on every run.

Gen/AwaitGraph.v  every await / async for / async with site of the library, classified as
                  User (the awaited object comes from a parameter / attribute / local, i.e. user supplied),
                  Lib  (a coroutine, generator or context manager defined in the library),
                  Other (anything else: e.g. asyncio primitives);  plus every `__await__` implementation
                  (Delegates / Other) and the asyncio imports of each module.
Gen/Handlers.v    every `except` clause: module, function, caught classes, whether it re-raises.
Gen/Scoping.v     per generator/aggregation function: how each iterable parameter is held
                  (Scoped / FinallyClosed / Delegated / Unscoped).
An AST shape the extractor does not know is reported as Other / Unscoped (never skipped), so the obligations in
Props fail rather than pass silently.  Files are only rewritten when their content changes."""
import ast
import os
import sys

PKG = "/repo/asyncstdlib"
GEN = "/verif/coq/Gen"
MODULES = ["_core", "builtins", "itertools", "heapq", "functools", "_lrucache", "contextlib", "asynctools"]


def q(s):
    return '"%s"' % s.replace('"', "'")


def write_if_changed(path, text):
    if os.path.exists(path) and open(path).read() == text:
        return
    with open(path, "w") as f:
        f.write(text)


def lib_names():
    """names defined at module level anywhere in the package (functions, classes) + what modules import from siblings"""
    names = set()
    for m in MODULES:
        tree = ast.parse(open(os.path.join(PKG, m + ".py")).read())
        for n in tree.body:
            if isinstance(n, (ast.FunctionDef, ast.AsyncFunctionDef, ast.ClassDef)):
                names.add(n.name)
            elif isinstance(n, ast.Assign):
                for t in n.targets:
                    if isinstance(t, ast.Name) and isinstance(n.value, ast.Name) and n.value.id in names:
                        names.add(t.id)          # aliases such as  tee = Tee
            elif isinstance(n, ast.ImportFrom) and n.level >= 1:
                for al in n.names:
                    names.add(al.asname or al.name)
    return names


class FuncInfo(ast.NodeVisitor):
    """collects locals (params + assignment targets), and which locals are bound to library calls"""

    def __init__(self, fn, libs, cls_methods):
        self.libs = libs
        self.cls_methods = cls_methods
        self.params = set()
        a_ = fn.args
        for x in a_.posonlyargs + a_.args + a_.kwonlyargs:
            self.params.add(x.arg)
        if a_.vararg:
            self.params.add(a_.vararg.arg)
        if a_.kwarg:
            self.params.add(a_.kwarg.arg)
        self.locals = set(self.params)
        self.liblocals = set()
        for n in ast.walk(fn):
            if isinstance(n, (ast.Assign, ast.AnnAssign, ast.AugAssign)):
                targets = n.targets if isinstance(n, ast.Assign) else [n.target]
                for t in targets:
                    for nm in ast.walk(t):
                        if isinstance(nm, ast.Name):
                            self.locals.add(nm.id)
                            if isinstance(n, (ast.Assign, ast.AnnAssign)) and n.value is not None and self.is_lib_expr(n.value):
                                self.liblocals.add(nm.id)
            elif isinstance(n, ast.NamedExpr):
                self.locals.add(n.target.id)
            elif isinstance(n, (ast.For, ast.AsyncFor, ast.comprehension)):
                for nm in ast.walk(n.target):
                    if isinstance(nm, ast.Name):
                        self.locals.add(nm.id)
            elif isinstance(n, (ast.With, ast.AsyncWith)):
                for it in n.items:
                    if it.optional_vars is not None:
                        for nm in ast.walk(it.optional_vars):
                            if isinstance(nm, ast.Name):
                                self.locals.add(nm.id)
            elif isinstance(n, ast.ExceptHandler) and n.name:
                self.locals.add(n.name)

    def is_lib_expr(self, e):
        """expression evaluating to a library-made coroutine / generator / context manager"""
        if isinstance(e, ast.IfExp):
            return self.is_lib_expr(e.body) and self.is_lib_expr(e.orelse)
        if isinstance(e, ast.Call):
            f = e.func
            if isinstance(f, ast.Subscript):
                f = f.value
            if isinstance(f, ast.Name):
                return f.id in self.libs and f.id not in self.locals
            if isinstance(f, ast.Attribute):
                v = f.value
                if isinstance(v, ast.Subscript):
                    v = v.value
                if isinstance(v, ast.Name) and v.id in ("self", "cls") and f.attr in self.cls_methods:
                    return True
                if isinstance(v, ast.Name) and v.id in self.libs and v.id not in self.locals:
                    return True          # Class.method(...), e.g. _KeyIter.from_iters
                if isinstance(v, ast.Attribute) and isinstance(v.value, ast.Name) and v.value.id == "self" and f.attr in ("_aclose_wrapper", "aclose") \
                        and v.attr in ("_borrowed_iter",):
                    return True
        return False

    def classify(self, e):
        if self.is_lib_expr(e):
            return "Lib"
        # user supplied: rooted at a parameter / local / self attribute
        root = e
        while True:
            if isinstance(root, ast.Call):
                root = root.func
            elif isinstance(root, (ast.Attribute, ast.Subscript, ast.Starred)):
                root = root.value
            else:
                break
        if isinstance(root, ast.Name):
            if root.id in self.liblocals:
                return "Lib"
            if root.id in self.locals or root.id in ("self", "cls"):
                return "User"
            if root.id in self.libs:
                return "Lib"
        return "Other"


def await_sites(tree, libs):
    out = []
    awaits_impl = []
    for cls in [None] + [n for n in ast.walk(tree) if isinstance(n, ast.ClassDef)]:
        body = tree.body if cls is None else cls.body
        methods = set() if cls is None else {n.name for n in cls.body if isinstance(n, (ast.FunctionDef, ast.AsyncFunctionDef))}
        # inherited helper methods of the library's own classes
        methods |= {"aclose", "_aclose_wrapper", "_await_impl", "_get_attribute", "__aexit__", "__aenter__", "step", "maybe_step", "pull_head", "_recreate_cm", "__anext__"} if cls is not None else set()
        for fn in body:
            if not isinstance(fn, (ast.FunctionDef, ast.AsyncFunctionDef)):
                continue
            qual = fn.name if cls is None else "%s.%s" % (cls.name, fn.name)
            info = FuncInfo(fn, libs, methods)
            if fn.name == "__await__":
                awaits_impl.append((qual, classify_await_impl(fn)))
            nested = [n for n in ast.walk(fn) if isinstance(n, (ast.FunctionDef, ast.AsyncFunctionDef)) and n is not fn]
            for inner in nested:
                ii = FuncInfo(inner, libs, methods)
                ii.locals |= info.locals
                ii.liblocals |= info.liblocals
                collect(inner, "%s.<%s>" % (qual, inner.name), ii, out)
            collect(fn, qual, info, out, skip=nested)
    return out, awaits_impl


def collect(fn, qual, info, out, skip=()):
    skipset = set()
    for s in skip:
        for n in ast.walk(s):
            skipset.add(id(n))
    for n in ast.walk(fn):
        if id(n) in skipset:
            continue
        if isinstance(n, ast.Await):
            out.append((qual, "await", info.classify(n.value), n.lineno))
        elif isinstance(n, ast.AsyncFor):
            out.append((qual, "async_for", info.classify(n.iter), n.lineno))
        elif isinstance(n, ast.AsyncWith):
            for it in n.items:
                out.append((qual, "async_with", info.classify(it.context_expr), n.lineno))
        elif isinstance(n, ast.comprehension) and n.is_async:
            out.append((qual, "async_for", info.classify(n.iter), getattr(n.iter, "lineno", 0)))


def classify_await_impl(fn):
    """an __await__ must delegate (`return X.__await__()`) or be the trivial value holder (return + unreachable yield)"""
    stmts = [s for s in fn.body if not (isinstance(s, ast.Expr) and isinstance(s.value, ast.Constant))]
    if len(stmts) == 1 and isinstance(stmts[0], ast.Return) and isinstance(stmts[0].value, ast.Call) \
            and isinstance(stmts[0].value.func, ast.Attribute) and stmts[0].value.func.attr == "__await__":
        return "Delegates"
    if len(stmts) == 2 and isinstance(stmts[0], ast.Return) and isinstance(stmts[1], ast.Expr) and isinstance(stmts[1].value, ast.Yield) \
            and stmts[1].value.value is None:
        return "Delegates"      # value holder: returns at once, the yield is unreachable
    return "Other"


def handlers(tree):
    out = []

    def names(t):
        if t is None:
            return ["<bare>"]
        if isinstance(t, ast.Tuple):
            return [x for e in t.elts for x in names(e)]
        if isinstance(t, ast.Name):
            return [t.id]
        if isinstance(t, ast.Attribute):
            return [t.attr]
        return ["<expr>"]

    def walk(node, qual):
        for ch in ast.iter_child_nodes(node):
            if isinstance(ch, (ast.FunctionDef, ast.AsyncFunctionDef, ast.ClassDef)):
                walk(ch, (qual + "." if qual else "") + ch.name)
            else:
                if isinstance(ch, ast.ExceptHandler):
                    reraises = any(isinstance(x, ast.Raise) and x.exc is None for x in ast.walk(ch))
                    raises_other = any(isinstance(x, ast.Raise) and x.exc is not None for x in ast.walk(ch))
                    out.append((qual, names(ch.type), reraises, raises_other, ch.lineno))
                walk(ch, qual)
    walk(tree, "")
    return out


def scoping(tree):
    """per async function: parameters given to aiter()/iteration without a scope"""
    out = []
    for fn in ast.walk(tree):
        if not isinstance(fn, ast.AsyncFunctionDef):
            continue
        params = {x.arg for x in fn.args.posonlyargs + fn.args.args + fn.args.kwonlyargs}
        if fn.args.vararg:
            params.add(fn.args.vararg.arg)
        params -= {"self", "cls"}

        def roots(e):
            return {n.id for n in ast.walk(e) if isinstance(n, ast.Name)}
        finally_closes = any(isinstance(t, ast.Try) and any(isinstance(c, ast.Call) and getattr(c.func, "id", getattr(c.func, "attr", "")) in ("close_all", "_close_all")
                                                            for s in t.finalbody for c in ast.walk(s)) for t in ast.walk(fn))
        held = {}
        for n in ast.walk(fn):
            if isinstance(n, ast.Call) and isinstance(n.func, ast.Name):
                if n.func.id == "ScopedIter":
                    for p in roots(n) & params:
                        held[p] = "Scoped"
                elif n.func.id in ("aiter", "_aiter_sync"):
                    for p in roots(n) & params:
                        held.setdefault(p, "FinallyClosed" if finally_closes else "Unscoped")
            if isinstance(n, (ast.AsyncFor,)) or (isinstance(n, ast.comprehension) and n.is_async):
                it = n.iter
                if isinstance(it, ast.Name) and it.id in params:
                    held.setdefault(it.id, "Unscoped")       # iterating a parameter directly: nobody closes it
        for p, h in sorted(held.items()):
            out.append((fn.name, p, h, fn.lineno))
    return out


def main():
    os.makedirs(GEN, exist_ok=True)
    libs = lib_names()
    sites, impls, hands, scopes, imports = [], [], [], [], []
    for m in MODULES:
        src = open(os.path.join(PKG, m + ".py")).read()
        tree = ast.parse(src)
        s_, i_ = await_sites(tree, libs)
        sites += [(m,) + x for x in s_]
        impls += [(m,) + x for x in i_]
        hands += [(m,) + x for x in handlers(tree)]
        scopes += [(m,) + x for x in scoping(tree)]
        for n in ast.walk(tree):
            if isinstance(n, ast.Import):
                for al in n.names:
                    if al.name.split(".")[0] == "asyncio":
                        imports.append((m, "import " + al.name))
            elif isinstance(n, ast.ImportFrom) and (n.module or "").split(".")[0] == "asyncio":
                for al in n.names:
                    imports.append((m, al.name))
    head = "(* GENERATED by harness/extract.py from /repo/asyncstdlib -- do not edit *)\nFrom Coq Require Import List String Bool.\nImport ListNotations.\nOpen Scope string_scope.\n"
    t = head + "Inductive origin := User | Lib | Other.\nInductive impl := Delegates | NotTransparent.\n"
    t += "Definition await_sites : list (string * string * string * origin) := [\n" + ";\n".join(
        "  (%s, %s, %s, %s)" % (q(m), q(f), q(k), c) for m, f, k, c, ln in sites) + "\n].\n"
    t += "Definition await_impls : list (string * string * impl) := [\n" + ";\n".join(
        "  (%s, %s, %s)" % (q(m), q(f), "Delegates" if c == "Delegates" else "NotTransparent") for m, f, c in impls) + "\n].\n"
    t += "Definition asyncio_imports : list (string * string) := [\n" + ";\n".join("  (%s, %s)" % (q(m), q(n)) for m, n in imports) + "\n].\n"
    write_if_changed(os.path.join(GEN, "AwaitGraph.v"), t)
    t = head + "Definition handlers : list (string * string * list string * bool * bool) := [\n" + ";\n".join(
        "  (%s, %s, [%s], %s, %s)" % (q(m), q(f), "; ".join(q(n) for n in ns), "true" if rr else "false", "true" if ro else "false") for m, f, ns, rr, ro, ln in hands) + "\n].\n"
    write_if_changed(os.path.join(GEN, "Handlers.v"), t)
    t = head + "Inductive holding := Scoped | FinallyClosed | Unscoped.\nDefinition scoping : list (string * string * string * holding) := [\n" + ";\n".join(
        "  (%s, %s, %s, %s)" % (q(m), q(f), q(p), h) for m, f, p, h, ln in scopes) + "\n].\n"
    write_if_changed(os.path.join(GEN, "Scoping.v"), t)
    # the translated source of the simple loop tools (Gen/PylSrc.v)
    sys.path.insert(0, os.path.dirname(os.path.abspath(__file__)))
    import translate
    translate.translate()
    return 0


if __name__ == "__main__":
    sys.exit(main())
