"""C12: cached_property computes once, serves one value to all, recomputes after del.
Tasks access / await / delete the attribute of an instance under the hand-driven scheduler; compared with
Model/CachedProperty.v after every action; the property's predicates are evaluated directly."""
import builtins
import random

import common
from common import Report, proof_stage, coq_eval_files, parse_nat_list
import sched as S
from sched import Sched, Susp, Cancelled
import asyncstdlib as a

HEADER = """From Coq Require Import List ZArith NArith Bool.
Import ListNotations.
Require Import V.Model.CachedProperty.
Local Open Scope nat_scope.
"""
CUR = {"sched": None, "locks": []}


class TLock(S.Lock):
    """lock type handed to cached_property: created without arguments by the library"""

    def __init__(self):
        super().__init__(CUR["sched"])
        CUR["locks"].append(self)


class GetterFails(KeyError):     # (the library handles KeyError of the instance-dict lookup: the getter's own must pass through)
    pass


class System:
    def __init__(self, cfg):
        self.cfg = cfg
        self.sched = Sched()
        CUR["sched"] = self.sched
        CUR["locks"] = []
        self.locks = CUR["locks"]
        self.runs = 0
        self.completed = []
        sysm = self
        susp, fail_runs = cfg["susp"], cfg["fail_runs"]

        async def getter(inst):
            run = sysm.runs
            sysm.runs += 1
            for _ in range(susp):
                await Susp("getter")
            if run in fail_runs:
                raise GetterFails()
            sysm.completed.append(run)
            return run
        if cfg["lock"]:
            class Res:
                data = a.cached_property(TLock)(getter)
        else:
            class Res:
                data = a.cached_property(getter)
        # an instance may well be falsy (an empty container): it is an instance all the same
        Res.__len__ = lambda self_: 0
        Res.data.__set_name__(Res, "data")
        if (susp + len(cfg["scripts"])) % 2:
            # instances of a subclass that merely inherits the property (looked up through the MRO)
            class Sub(Res):
                pass
            Res = Sub
        self.inst = Res()
        self.other = Res()
        self.results = [[] for _ in cfg["scripts"]]
        for i, sc in enumerate(cfg["scripts"]):
            self.sched.add(self.task(i, sc))
            if not sc:
                self.sched.run(i)

    async def task(self, i, script):
        res = self.results[i]
        held = None
        try:
            for k, op in enumerate(script):
                if op == "access":
                    held = self.inst.data
                    res.append(("done",))
                elif op == "await":
                    if held is None:
                        res.append(("raised",))
                    else:
                        try:
                            res.append(("ret", await held))
                        except GetterFails:
                            res.append(("raised",))
                else:
                    try:
                        del self.inst.data
                        res.append(("done",))
                    except AttributeError:
                        res.append(("delerror",))
                if k + 1 < len(script):
                    await Susp("between")
        except Cancelled:
            res.append(("cancelled",))
            raise

    def snapshot(self):
        d = self.inst.__dict__.get("data", None)
        if d is None:
            slot = ("absent",)
        elif type(d).__name__ == "AwaitableValue":
            slot = ("value", d.value)
        else:
            slot = ("place",)
        return {"slot": slot, "runs": self.runs, "locked": len([l for l in self.locks if l.held])}

    def act(self, action):
        CUR["sched"] = self.sched
        CUR["locks"] = self.locks
        if action[0] == "run":
            self.sched.run(action[1])
        else:
            self.sched.cancel(action[1])


def run_schedule(cfg, actions):
    sysm = System(cfg)
    snaps = []
    for a_ in actions:
        sysm.act(a_)
        snaps.append(sysm.snapshot())
    return sysm, snaps


def all_schedules(cfg, cap):
    stack = [[]]
    n = 0
    while stack and n < cap:
        prefix = stack.pop()
        sysm = System(cfg)
        actions = []
        pos = 0
        while True:
            r = sysm.sched.runnable()
            if not r:
                break
            if pos < len(prefix):
                c = prefix[pos]
            else:
                c = r[0]
                for alt in r[1:]:
                    stack.append(actions[:pos] + [alt])
            pos += 1
            sysm.act(("run", c))
            actions.append(c)
        n += 1
        yield [("run", c) for c in actions]


def random_schedule(cfg, rng, cancel_prob):
    sysm = System(cfg)
    actions = []
    cancelled = False
    while sysm.sched.runnable() and len(actions) < 300:
        if not cancelled and rng.random() < cancel_prob and sysm.sched.cancellable():
            act = ("cancel", rng.choice(sysm.sched.cancellable()))
            cancelled = True
        else:
            act = ("run", rng.choice(sysm.sched.runnable()))
        sysm.act(act)
        actions.append(act)
    return actions


def oracle(cfg, actions, sysm, snaps):
    if builtins.any(e is not None for e in sysm.sched.errors):
        return "task-error", "a task failed: %r" % ([e for e in sysm.sched.errors if e is not None][:1],)
    if not builtins.all(sysm.sched.done):
        return "deadlock", "tasks blocked forever (a lock was not released?): done=%r" % (sysm.sched.done,)
    if builtins.any(l.held for l in sysm.locks):
        return "lock-held", "a lock is still held after all tasks finished"
    has_del = builtins.any(op == "del" for sc in cfg["scripts"] for op in sc)
    rets = [r[1] for res in sysm.results for r in res if r[0] == "ret"]
    # every awaiter receives a value some getter run returned
    for v in rets:
        if v not in sysm.completed:
            return "foreign-value", "an awaiter received %r which no getter run returned (%r)" % (v, sysm.completed)
    if "data" in sysm.other.__dict__:
        return "per-instance", "a second instance was affected"
    if not builtins.any(a_[0] == "cancel" for a_ in actions):
        # a getter run that fails makes the await that ran it fail: the failure is never swallowed (nor retried silently)
        failed_runs = len([r for r in range(sysm.runs) if r in cfg["fail_runs"]])
        raised = len([1 for res in sysm.results for r in res if r[0] == "raised"])
        if raised < failed_runs:
            return "failure-swallowed", "%d getter runs failed but only %d awaits raised (results %r)" % (failed_runs, raised, sysm.results)
    if cfg["lock"]:
        # at most one successful computation per cached value: a new one needs a deletion in between
        dels = len([1 for res in sysm.results for r, op in builtins.zip(res, [None] * len(res)) if False])
        ndel = 0
        for res, sc in builtins.zip(sysm.results, cfg["scripts"]):
            for r, op in builtins.zip(res, sc):
                if op == "del" and r[0] == "done":
                    ndel += 1
        if len(sysm.completed) > ndel + 1:
            return "computed-too-often", "with a lock the getter completed %d times although only %d deletions happened" % (len(sysm.completed), ndel)
    if cfg["lock"] and not has_del:
        # the getter ran at most once successfully and everybody got that one value
        if len(sysm.completed) > 1:
            return "computed-twice", "with a lock and no deletion the getter completed %d times" % len(sysm.completed)
        if len(set(rets)) > 1:
            return "different-values", "awaiters received different values %r" % (rets,)
    if not has_del:
        # once a value is cached it is served until deleted: slot never changes after the first value (with lock)
        seen = None
        for sn in snaps:
            if sn["slot"][0] == "value":
                if seen is not None and cfg["lock"] and sn["slot"][1] != seen:
                    return "value-replaced", "cached value changed from %r to %r without deletion" % (seen, sn["slot"][1])
                seen = sn["slot"][1]
            elif seen is not None:
                return "value-lost", "the cached value disappeared without deletion"
    # sequential sanity afterwards: awaiting now returns the cached value without running the getter, or computes one
    from gencalc import drive_tokens
    runs0 = sysm.runs
    cached = sysm.inst.__dict__.get("data")
    try:
        CUR["sched"] = sysm.sched
        v, _ = drive_tokens(_await(sysm.inst))
    except GetterFails:
        v = "fails"
    except BaseException as e:  # noqa
        return "unusable", "awaiting the property after the run failed: %r" % (e,)
    if cached is not None and type(cached).__name__ == "AwaitableValue":
        if v != cached.value or sysm.runs != runs0:
            return "not-served-from-cache", "cached %r but a later await gave %r (getter runs %d -> %d)" % (cached.value, v, runs0, sysm.runs)
    return None


async def _await(inst):
    return await inst.data


def coq_cfg(cfg):
    def op(o):
        return {"access": "PAccess", "await": "PAwait", "del": "PDel"}[o]
    return "(mkPCfg %s %d [%s] [%s])" % ("true" if cfg["lock"] else "false", cfg["susp"], "; ".join(str(r) for r in cfg["fail_runs"]),
                                       "; ".join("[%s]" % "; ".join(op(o) for o in sc) for sc in cfg["scripts"]))


def coq_res(r):
    if r[0] == "ret":
        return "PRet %d" % r[1]
    return {"raised": "PRaised", "cancelled": "PCancelled", "done": "PDone", "delerror": "PDelError"}[r[0]]


def coq_case(cfg, actions, sysm, snaps):
    def slot(s):
        return {"absent": "OAbsent", "place": "OPlace"}.get(s[0]) or "(OValue %d)" % s[1]
    return "(mkPC %s [%s] [%s] [%s])" % (
        coq_cfg(cfg), "; ".join(("PRun %d" if k == "run" else "PCancel %d") % i for k, i in actions),
        "; ".join("(mkPS %s %d %d)" % (slot(s["slot"]), s["runs"], s["locked"]) for s in snaps),
        "; ".join("[%s]" % "; ".join(coq_res(r) for r in res) for res in sysm.results))


def gen_cfg(rng, small=False):
    ntasks = rng.choice([2, 2, 3]) if small else rng.choice([2, 3, 4])
    scripts = []
    for _ in range(ntasks):
        r = rng.random()
        if r < 0.5:
            sc = ["access", "await"]
        elif r < 0.65:
            sc = ["access", "await", "access", "await"]
        elif r < 0.8:
            sc = ["access", "await", "del"] if not small or rng.random() < 0.5 else ["del"]
        elif r < 0.9:
            sc = ["access", "del", "await"]           # take the placeholder, delete, await it later
        else:
            sc = ["del", "access", "await"]
        scripts.append(sc)
    return {"lock": rng.random() < 0.6, "susp": rng.choice([1, 1, 2]), "fail_runs": rng.choice([[], [], [0], [1]]), "scripts": scripts}


def run(tier, seed):
    rep = Report("C12", tier, seed)
    proofs_ok = proof_stage(rep, "C12")
    rng = random.Random(seed)
    texts, fails = [], 0
    nexh = 0

    def handle(cfg, actions):
        nonlocal fails
        sysm, snaps = run_schedule(cfg, actions)
        rep.count((repr(cfg), tuple(actions)), len(actions) > 3, sample={"config": cfg, "schedule": actions[:12]})
        bad = oracle(cfg, actions, sysm, snaps)
        if bad:
            fails += 1
            rep.violation("cached-property:%s" % bad[0], {"config": cfg, "schedule": actions, "why": bad[1]})
            return
        texts.append(coq_case(cfg, actions, sysm, snaps))

    AA = ["access", "await"]
    fixed = [
        {"lock": True, "susp": 1, "fail_runs": [], "scripts": [AA, AA]},
        {"lock": True, "susp": 2, "fail_runs": [], "scripts": [AA, AA, AA]},
        {"lock": False, "susp": 1, "fail_runs": [], "scripts": [AA, AA]},
        {"lock": True, "susp": 1, "fail_runs": [0], "scripts": [AA, AA]},
        {"lock": True, "susp": 1, "fail_runs": [], "scripts": [AA, AA, ["del"]]},
        {"lock": True, "susp": 1, "fail_runs": [], "scripts": [AA + ["del"], AA, AA]},
        {"lock": False, "susp": 1, "fail_runs": [1], "scripts": [AA, AA + AA]},
        {"lock": True, "susp": 1, "fail_runs": [], "scripts": [["access", "del", "await"], AA]},
        # sequential histories
        {"lock": False, "susp": 1, "fail_runs": [0], "scripts": [AA + AA + ["del"] + AA + ["del", "del"]]},
        {"lock": True, "susp": 0, "fail_runs": [], "scripts": [AA + AA + ["del"] + AA]},
    ]
    cfgs = fixed + [gen_cfg(rng, small=True) for _ in range(6 if tier == "quick" else 80)]
    cap = 400 * common.scale(rep) if tier == "quick" else 10000
    for cfg in cfgs:
        for actions in all_schedules(cfg, cap):
            nexh += 1
            handle(cfg, actions)
            if rng.random() < 0.25 and actions:
                k = rng.randrange(len(actions))
                sysm, _ = run_schedule(cfg, actions[:k])
                cand = sysm.sched.cancellable()
                if cand:
                    pre = actions[:k] + [("cancel", rng.choice(cand))]
                    sysm2, _ = run_schedule(cfg, pre)
                    tail = []
                    while sysm2.sched.runnable() and len(tail) < 200:
                        t = sysm2.sched.runnable()[0]
                        sysm2.act(("run", t))
                        tail.append(("run", t))
                    handle(cfg, pre + tail)
    rep.notes["exhaustively_enumerated_schedules"] = nexh
    for _ in range(500 if tier == "quick" else 20000):
        cfg = gen_cfg(rng)
        handle(cfg, random_schedule(cfg, rng, 0.08))
    shards = [texts[i:i + 300] for i in range(0, len(texts), 300)]
    outs = coq_eval_files("c12", [HEADER + "Definition cases : list pcase := [\n" + ";\n".join(sh) + "\n].\nEval vm_compute in (pfailing cases).\n" for sh in shards])
    mism = 0
    for sh, (rc, out) in builtins.zip(shards, outs):
        f = parse_nat_list(out) if rc == 0 else None
        if f is None:
            rep.violation("coq-eval", {"broken": "correspondence evaluation failed", "log": out[-1500:]}, no_input=True)
            break
        mism += len(f)
        for j in f[:2]:
            rep.violation("cached-property:model-mismatch", {"broken": "correspondence impl<->Model/CachedProperty.v (ptrace), per-action snapshots", "case": sh[j][:4000]}, no_input=not rep.has_failing_input())
    rep.cov["traces_validated_against_impl"] = len(texts)
    rep.notes["model_mismatches"] = mism
    # directed: an awaitable taken from the attribute before a deletion and awaited after it recomputes (and caches) like
    # a fresh access: a deleted value is gone for everybody
    for with_lock in (False, True):
        runs2 = []
        deco2 = a.cached_property(TLock) if with_lock else a.cached_property
        CUR["sched"], CUR["locks"] = Sched(), []

        class Res2:
            @deco2
            async def data(self):
                runs2.append(len(runs2))
                return 100 + len(runs2)

        async def stale():
            from gencalc import drive as _d  # noqa
            o = Res2()
            p0 = o.data
            v0 = await p0
            del o.data
            v1 = await p0                 # the awaitable obtained before the deletion
            v2 = await o.data             # a fresh access
            del o.data
            v3 = await o.data
            v4 = await p0
            return [v0, v1, v2, v3, v4], len(runs2)
        try:
            from gencalc import drive as _drive2
            got = _drive2(stale())
            why = None if got == ([101, 102, 102, 103, 103], 3) else "values %r with %d getter runs, expected [101, 102, 102, 103, 103] with 3" % got
        except BaseException as e:  # noqa
            why = "failed with %r" % (e,)
        rep.count(("stale-awaitable", with_lock), True)
        if why:
            rep.violation("cached_property:stale-awaitable", {"lock": with_lock, "why": "await p; del; await p; fresh access; del; fresh access; await p: " + why})
    # directed: the property may have any attribute name, a private (name-mangled) one or one of another shape: served from
    # the cache on the second access, deleted by `del`, one getter run per cached value
    for with_lock in (False, True):
        runs3 = []
        deco3 = a.cached_property(TLock) if with_lock else a.cached_property
        CUR["sched"], CUR["locks"] = Sched(), []

        class Named:
            @deco3
            async def __secret(self):
                runs3.append("secret")
                return 7

            @deco3
            async def _single(self):
                runs3.append("single")
                return 8

            @deco3
            async def __dunder__(self):
                runs3.append("dunder")
                return 9

            async def use(self):
                out = [await self.__secret, await self.__secret, await self._single, await self._single,
                       await self.__dunder__, await self.__dunder__]
                del self.__secret
                out.append(await self.__secret)
                return out

        class _Named(Named):       # a class whose own name starts with an underscore
            @deco3
            async def __mine(self):
                runs3.append("mine")
                return 10

            async def use2(self):
                return [await self.__mine, await self.__mine]
        try:
            from gencalc import drive as _drive3
            got = (_drive3(Named().use()), _drive3(_Named().use2()), list(runs3))
            want = ([7, 7, 8, 8, 9, 9, 7], [10, 10], ["secret", "single", "dunder", "secret", "mine"])
            why = None if got == want else "got %r, expected %r" % (got, want)
        except BaseException as e:  # noqa
            why = "failed with %r" % (e,)
        rep.count(("attribute-names", with_lock), True)
        if why:
            rep.violation("cached_property:attribute-names", {"lock": with_lock, "why": "cached properties named __secret / _single / __dunder__ (and __mine in a class _Named): " + why})
    # directed: a subclass overrides the property and builds on the parent's through super(): one computation of each,
    # the child's value served afterwards; like functools.cached_property in synchronous code
    import functools as _ft
    from gencalc import drive as _drive
    for with_lock in (False, True):
        runs = []
        deco = a.cached_property(TLock) if with_lock else a.cached_property
        CUR["sched"], CUR["locks"] = Sched(), []

        class Base:
            @deco
            async def data(self):
                runs.append("base")
                return 1

        class Child(Base):
            @deco
            async def data(self):
                runs.append("child")
                return (await super().data) + 1

        class SBase:
            @_ft.cached_property
            def data(self):
                return 1

        class SChild(SBase):
            @_ft.cached_property
            def data(self):
                return super().data + 1

        async def use():
            c = Child()
            return [await c.data, await c.data, await Base().data]
        try:
            got = _drive(use())
            sc = SChild()
            want = [sc.data, sc.data, SBase().data]
            why = None if got == want and runs == ["child", "base", "base"] else "values %r (functools: %r), getter runs %r" % (got, want, runs)
        except BaseException as e:  # noqa
            why = "failed with %r (getter runs %r)" % (e, runs)
        rep.count(("super-delegation", with_lock), True)
        if why:
            rep.violation("cached_property:super", {"lock": with_lock, "why": "a subclass property awaiting super().<name>: " + why})
    if not proofs_ok:
        rep.violation("proof-broken", {"broken": rep.notes.get("broken_file", "?"), "log": rep.notes.get("build_log_tail", "")[-1500:]}, no_input=True)
    return rep.finish()
