"""C17: event-loop agnostic -- every suspension of a library operation originates from a user awaitable; what it
yields reaches the loop unchanged and what the loop sends / throws back reaches it unchanged; with synchronous
arguments nothing suspends; no asyncio loop is needed or touched."""
import asyncio
import builtins
import random

import common
from common import Report, proof_stage
import gencalc as G
from gencalc import Case, Ctx, Src, Obj, run_impl, drive_tokens, ITER_TOOLS, AGG_TOOLS, InjBase
from gen_cases import draw_case
import asyncstdlib as a
from asyncstdlib import contextlib as acl


class Poison:
    """asyncio's loop accessors raise while the library is exercised"""
    NAMES = ["get_running_loop", "get_event_loop", "new_event_loop", "_get_running_loop"]

    def __enter__(self):
        self.saved = {}
        self.touched = []
        for n in self.NAMES:
            for mod in (asyncio, asyncio.events):
                if hasattr(mod, n):
                    self.saved[(mod, n)] = getattr(mod, n)
                    setattr(mod, n, self._raiser(n))
        return self

    def _raiser(self, n):
        def f(*a_, **k):
            self.touched.append(n)
            raise RuntimeError("asyncio.%s touched" % n)
        return f

    def __exit__(self, *a_):
        for (mod, n), v in self.saved.items():
            setattr(mod, n, v)


def verify(ctx, toks, what, thrown=None, at=None):
    """tokens seen by the loop = tokens issued by user awaitables, in order; replies delivered; thrown exception arrived"""
    issued = getattr(ctx, "issued", [])
    if toks != issued:
        foreign = [t for t in toks if t not in issued]
        return "%s: the loop saw %r but user awaitables issued %r (foreign: %r)" % (what, toks[:6], issued[:6], foreign[:3])
    for tok, reply in getattr(ctx, "replies", []):
        if reply != ("reply", tok):
            return "%s: the awaitable that yielded %r was resumed with %r instead of its reply" % (what, tok, reply)
    if thrown is not None:
        th = getattr(ctx, "thrown", [])
        if not th or th[-1][1] is not thrown or th[-1][0] != issued[at]:
            return "%s: the exception thrown at %r did not reach that awaitable unchanged (%r)" % (what, issued[at] if at < len(issued) else None, th[-1:] if th else None)
    return None


class SLock:
    def __init__(self, ctx):
        self.ctx = ctx
        self.held = False

    def __len__(self):
        return 0             # a lock that is falsy while nobody waits for it (its length is its queue): a lock all the same

    async def __aenter__(self):
        await self.ctx.suspend(("lock-enter",))
        self.held = True

    async def __aexit__(self, *a_):
        self.held = False
        await self.ctx.suspend(("lock-exit",))


def scenarios(ctx, sync=False):
    """name -> coroutine exercising one public operation with user awaitables that all suspend (or none, if sync)"""
    S = (lambda label: ctx.suspend(label)) if not sync else None

    async def susp(label):
        if not sync:
            await ctx.suspend(label)
    items = [Obj(i + 1, i % 3) for i in range(4)]

    def src(i=0, its=None):
        return Src(ctx, i, its if its is not None else items, suspend=not sync)

    async def key(x):
        await susp(("key",))
        return x.key

    async def collect(it, n=None):
        out = []
        async for x in it:
            out.append(x)
            if n is not None and len(out) >= n:
                break
        return out
    out = {}

    async def tee_locked():
        lock = SLock(ctx) if not sync else None
        t = a.tee(src(), 2, lock=lock) if lock is not None else a.tee(src(), 2)
        x = await a.anext(t[0])
        y = await a.anext(t[1])
        z = await a.anext(t[1])
        await t.aclose()
        # the lock the user supplied is the lock that is used (its suspensions reach the loop), falsy or not
        used = lock is None or builtins.any(tok[2] == ("lock-enter",) for tok in getattr(ctx, "issued", []))
        return x is y and z is items[1] and used
    out["tee"] = tee_locked

    async def lru():
        calls = []

        @a.lru_cache(maxsize=2)
        async def f(x):
            calls.append(x)
            await susp(("fn", x))
            return x * 2
        return [await f(1), await f(1), await f(2), await f(3), await f(1)] == [2, 2, 4, 6, 2] and calls == [1, 2, 3, 1]
    out["lru_cache"] = lru

    async def cprop():
        class LT:
            def __init__(s):
                s.l = SLock(ctx)

            async def __aenter__(s):
                if not sync:
                    await s.l.__aenter__()

            async def __aexit__(s, *a_):
                if not sync:
                    await s.l.__aexit__(*a_)

        class R:
            @a.cached_property(LT)
            async def data(self):
                await susp(("getter",))
                return 42
        r = R()
        return [await r.data, await r.data] == [42, 42]
    out["cached_property"] = cprop

    async def exitstack():
        log = []

        class CM:
            async def __aenter__(s):
                await susp(("enter",))
                return 1

            async def __aexit__(s, *e):
                await susp(("exit",))
                log.append("cm")

            # the manager also offers the synchronous protocol: wherever an asynchronous one is expected the library
            # uses the asynchronous methods, so the user's suspensions are not lost
            def __enter__(s):
                log.append("sync enter")
                return 1

            def __exit__(s, *e):
                log.append("sync exit")

        async def cb(x):
            await susp(("callback",))
            log.append(x)
        async with a.ExitStack() as st:
            v = await st.enter_context(CM())
            st.callback(cb, "cb")
            st.push(CM())
        return v == 1 and log == ["cm", "cb", "cm"]
    out["ExitStack"] = exitstack

    async def ctxmgr():
        log = []

        @a.contextmanager
        async def cm():
            await susp(("cm-enter",))
            try:
                yield 5
            finally:
                await susp(("cm-exit",))
                log.append("exit")

        @cm()
        async def f():
            await susp(("body",))
            return 7
        async with cm() as v:
            pass
        return v == 5 and await f() == 7 and log == ["exit", "exit"]
    out["contextmanager"] = ctxmgr

    async def ctxdecorated():
        # the decorated callable is any async callable, not only an `async def` function: a callable object, a function
        # handing out a coroutine, a cached coroutine function; its suspensions travel through the decorator and it
        # runs inside the context
        log = []

        @a.contextmanager
        async def cm():
            await susp(("cm-enter",))
            log.append("enter")
            try:
                yield 5
            finally:
                await susp(("cm-exit",))
                log.append("exit")

        async def body(x):
            await susp(("body", x))
            log.append("body")
            return x + 1

        class CallObj:
            async def __call__(self, x):
                return await body(x)

        def returns_coroutine(x):
            return body(x)
        res = [await cm()(CallObj())(1), await cm()(returns_coroutine)(2), await cm()(a.lru_cache(body))(3)]
        return res == [2, 3, 4] and log == ["enter", "body", "exit"] * 3
    out["ContextDecorator over async callables"] = ctxdecorated

    async def scoped():
        s = src()
        async with a.scoped_iter(s) as it:
            x = await collect(a.islice(a.borrow(it), 2))
            y = await a.anext(it)
        return len(x) == 2 and y is items[2] and s.closed == 1
    out["scoped_iter"] = scoped

    async def anyiter():
        async def aw(v):
            await susp(("item",))
            return v

        async def outer():
            await susp(("outer",))
            return src()
        return len(await collect(a.any_iter(outer()))) == 4 and (await collect(a.any_iter([aw(1), 2, aw(3)]))) == [1, 2, 3]
    out["any_iter"] = anyiter

    async def each_apply_sync():
        async def aw(v):
            await susp(("aw", v))
            return v
        r1 = await collect(a.await_each([aw(1), aw(2)]))
        r2 = await a.apply(lambda x, y, k: (x, y, k), aw(1), aw(2), k=aw(3))
        r3 = await a.sync(lambda x: x + 1)(1)
        r4 = await a.sync(aw)(9)
        return r1 == [1, 2] and r2 == (1, 2, 3) and r3 == 2 and r4 == 9
    out["await_each/apply/sync"] = each_apply_sync

    async def groupby():
        res = []
        async for k, g in a.groupby(src(), key=key):
            res.append((k, len(await collect(g))))
        return res == [(0, 1), (1, 1), (2, 1), (0, 1)]
    out["groupby"] = groupby

    async def chain_closing():
        c = a.chain(src(0), src(1))
        x = await a.anext(c)
        await c.aclose()
        async with a.closing(a.iter(src(2))) as it:
            y = await a.anext(it)
        async with a.nullcontext(3) as z:
            pass
        return x is items[0] and y is items[0] and z == 3
    out["chain/closing/nullcontext"] = chain_closing

    async def zip_failing_close():
        class BadClose(Src):
            async def aclose(s):
                await ctx.suspend(("close-fails",)) if not sync else None
                s.closing += 1
                raise ValueError("close failed")
        s1, s2 = BadClose(ctx, 0, items[:1], suspend=not sync), src(1)
        try:
            await collect(a.zip(s1, s2))
        except ValueError:
            return s2.closing == 1
        return False
    out["zip with a failing aclose"] = zip_failing_close
    return out


def run(tier, seed):
    rep = Report("C17", tier, seed)
    proofs_ok = proof_stage(rep, "C17")
    rng = random.Random(seed)
    fails = 0
    with Poison() as poison:
        # (1) every tool / aggregation of the calculus with suspending sources (pull and aclose) and callables
        per = 8 * common.scale(rep) if tier == "quick" else 300
        for name in ITER_TOOLS + AGG_TOOLS:
            for _ in range(per):
                c = draw_case(rng, name, tier)
                r = run_impl(c, suspend=True, reply=True)
                why = verify(r["ctx"], r["tokens"], "%s %r" % (name, c.params))
                rep.count((name, repr(c.params), repr(c.srcs)), len(r["tokens"]) > 1, sample={"tool": name, "params": repr(c.params), "tokens": [repr(t) for t in r["tokens"][:5]]})
                if why is None and r["tokens"] and c.plan is None:
                    # throw at a random suspension: the exception must arrive at the awaitable that suspended
                    j = rng.randrange(len(r["tokens"]))
                    exc = InjBase(77)
                    ctx2 = None
                    r2 = G.run_impl(c, suspend=True, cancel_at=j, cancel_id=77, reply=True)
                    th = getattr(r2["ctx"], "thrown", [])
                    iss = getattr(r2["ctx"], "issued", [])
                    if not th or not isinstance(th[-1][1], InjBase) or th[-1][1].id != 77 or j >= len(iss) or th[0][0] != iss[j]:
                        why = "%s %r: an exception thrown by the loop at suspension %d did not reach the awaitable suspended there (%r)" % (name, c.params, j, th[:1])
                    rep.count((name, repr(c.params), repr(c.srcs), "throw", j), True)
                if why:
                    fails += 1
                    rep.violation("loop-agnostic:%s" % name, {"tool": name, "params": repr(c.params), "srcs": repr(c.srcs), "why": why})
                if why is None and c.plan is None and c.tool.kind != "script":
                    # the callable given in another shape (a callable object, a function returning a non-coroutine awaitable, a
                    # class with awaitable instances): the same user suspensions reach the loop, the same result comes back
                    fl = ["object", "awaitobj", "awaitclass"][len(r["tokens"]) % 3]
                    rf = run_impl(c, suspend=True, reply=True, flavour=fl)
                    whyf = verify(rf["ctx"], rf["tokens"], "%s %r (%s callables)" % (name, c.params, fl))
                    if whyf is None and (len(rf["tokens"]) != len(r["tokens"]) or rf["outcome"][:2] != r["outcome"][:2]):
                        whyf = "%s %r with %s callables: %d suspensions and outcome %r, with coroutine functions %d and %r" % (
                            name, c.params, fl, len(rf["tokens"]), rf["outcome"][:2], len(r["tokens"]), r["outcome"][:2])
                    if whyf:
                        fails += 1
                        rep.violation("loop-agnostic:%s" % name, {"tool": name, "params": repr(c.params), "srcs": repr(c.srcs), "callables": fl, "why": whyf})
                if why is None and c.plan is None and c.tool.kind != "script":
                    # sources whose __anext__ / aclose hand back awaitable *objects* (not coroutines): same suspensions, same
                    # replies delivered, same result
                    G.AWAITABLE_OBJECT_SOURCES["on"] = True
                    try:
                        ro = run_impl(c, suspend=True, reply=True)
                    finally:
                        G.AWAITABLE_OBJECT_SOURCES["on"] = False
                    whyo = verify(ro["ctx"], ro["tokens"], "%s %r (sources returning awaitable objects)" % (name, c.params))
                    if whyo is None and (len(ro["tokens"]) != len(r["tokens"]) or ro["outcome"][:2] != r["outcome"][:2]):
                        whyo = "%s %r over sources whose __anext__ returns an awaitable object: %d suspensions and outcome %r, with coroutine methods %d and %r" % (
                            name, c.params, len(ro["tokens"]), ro["outcome"][:2], len(r["tokens"]), r["outcome"][:2])
                    if whyo:
                        fails += 1
                        rep.violation("loop-agnostic:%s" % name, {"tool": name, "params": repr(c.params), "srcs": repr(c.srcs), "sources": "awaitable objects", "why": whyo})
                # with non-suspending arguments the operation must not suspend at all
                r0 = run_impl(c)
                if r0["outcome"][0] == "exn" and r0["outcome"][1] == ("other", "RuntimeError") and "unexpected suspension" in repr(r0["outcome"][2:]):
                    fails += 1
                    rep.violation("loop-agnostic:suspends-without-cause", {"tool": name, "params": repr(c.params), "why": "suspended although no argument suspends"})
        # (2) the stateful / context-manager / adapter operations
        for sync in (False, True):
            names = list(scenarios(Ctx(None), sync))
            for n in names:
                ctx = Ctx(None)
                coro = scenarios(ctx, sync)[n]()
                try:
                    ok, toks = drive_tokens(coro, reply=True)
                    why = None if ok else "%s returned a wrong result" % n
                except BaseException as e:  # noqa
                    toks, why = [], "%s failed: %r" % (n, e)
                if why is None:
                    why = verify(ctx, toks, n)
                if why is None and sync and toks:
                    why = "%s suspended %d times with synchronous arguments" % (n, len(toks))
                rep.count((n, sync), True, sample={"operation": n, "sync": sync, "suspensions": len(toks)})
                if why is None and not sync:
                    # throw at every suspension point
                    # (a loop's own cancellation exception, and asyncio's even though no asyncio loop is running: the
                    # library must not treat either specially)
                    for j, exc in [(j_, e_) for j_ in range(len(toks)) for e_ in (InjBase(5), asyncio.CancelledError("thrown by a foreign loop"))]:
                        ctx2 = Ctx(None)
                        before = len(poison.touched)
                        try:
                            drive_tokens(scenarios(ctx2, False)[n](), cancel_at=j, cancel_exc=exc, reply=True)
                        except BaseException:  # noqa
                            pass
                        th = getattr(ctx2, "thrown", [])
                        rep.count((n, "throw", j, type(exc).__name__), True)
                        if not th or th[0][1] is not exc or th[0][0] != ctx2.issued[j]:
                            why = "%s: %s thrown at suspension %d (%r) did not reach that awaitable unchanged" % (n, type(exc).__name__, j, ctx2.issued[j] if j < len(ctx2.issued) else None)
                            break
                        if len(poison.touched) > before:
                            why = "%s: after %s was thrown at suspension %d (%r) the library asked for asyncio.%s" % (n, type(exc).__name__, j, ctx2.issued[j], poison.touched[-1])
                            del poison.touched[before:]
                            break
                if why:
                    fails += 1
                    rep.violation("loop-agnostic:%s" % n, {"operation": n, "sync": sync, "why": why})
        # (3) long synchronous inputs: however many items a regular iterable has, nothing suspends -- the library has no
        # suspension of its own to offer (no "be nice to the loop" pauses)
        N = 20000
        big = {
            "list": lambda: a.list(range(N)), "sum": lambda: a.sum(range(N)), "max": lambda: a.max(range(N)), "sorted(key)": lambda: a.sorted(range(N), key=lambda x: -x),
            "reduce": lambda: a.reduce(lambda x, y: y, range(N)), "list(map)": lambda: a.list(a.map(lambda x: x, range(N))), "list(filter)": lambda: a.list(a.filter(None, range(N))),
            "list(islice(cycle))": lambda: a.list(a.islice(a.cycle(range(7)), N)), "list(zip)": lambda: a.list(a.zip(range(N), range(N))), "any": lambda: a.any(0 for _ in range(N)),
            "dict": lambda: a.dict((i, i) for i in range(N)), "list(enumerate)": lambda: a.list(a.enumerate(iter(range(N)))), "list(chain)": lambda: a.list(a.chain(range(N), range(N))),
            "nlargest": lambda: a.nlargest(range(N), 3), "list(any_iter)": lambda: a.list(a.any_iter(range(N))), "list(accumulate)": lambda: a.list(a.accumulate(range(N))),
            "tee": lambda: a.list(a.tee(range(N), 1)[0]), "list(groupby keys)": lambda: a.list(a.map(lambda kg: kg[0], a.groupby(range(N), key=lambda x: x // 5000))),
        }
        for nm, mk in big.items():
            coro = mk()
            why = None
            try:
                got = coro.send(None)
                why = "%s over %d items of a regular iterable suspended with %r although nothing the user supplied suspends" % (nm, N, got)
                coro.close()
            except StopIteration:
                pass
            except BaseException as e:  # noqa
                why = "%s over %d items failed with %r" % (nm, N, e)
            rep.count(("long-sync-input", nm), True)
            if why:
                fails += 1
                rep.violation("loop-agnostic:suspends-without-cause", {"operation": nm, "items": N, "why": why})
        # (4) two tasks: one is suspended inside a child of a tee (in the user's source), another closes the tee / that child /
        # a sibling at that moment: whatever the library does about it (it refuses to close a running child), it does
        # not wait by suspending on something of its own -- only tokens of user awaitables ever reach the loop
        for target in ("tee", "busy child", "sibling"):
            ctx = Ctx(None)
            its = [Obj(i + 1, i % 3) for i in range(4)]
            t = a.tee(Src(ctx, 0, its, suspend=True), 2)
            step = t[0].__anext__()
            why = None
            try:
                first = step.send(None)
                closer = {"tee": t.aclose, "busy child": t[0].aclose, "sibling": t[1].aclose}[target]()
                seen = []
                try:
                    for _ in range(6):
                        seen.append(closer.send(None))
                    closer.close()
                except (StopIteration, RuntimeError):
                    pass
                foreign = [x for x in seen if x not in getattr(ctx, "issued", [])]
                if foreign:
                    why = "closing the %s while a task is suspended inside a child suspended on %r, which no user awaitable issued" % (target, foreign[:2])
                step.close()
            except BaseException as e:  # noqa
                why = "failed with %r" % (e,)
            rep.count(("close-while-child-busy", target), True)
            if why:
                fails += 1
                rep.violation("loop-agnostic:tee-close-busy", {"closed": target, "why": why})
    if poison.touched:
        fails += 1
        rep.violation("loop-agnostic:asyncio-touched", {"why": "the library touched asyncio.%s" % poison.touched[0]})
    # importing the library must not need a loop either
    import subprocess
    rc = subprocess.run(["/venv/bin/python", "-c", "import sys; sys.path.insert(0,'/repo'); import asyncio\n"
                         "def boom(*a,**k): raise RuntimeError('loop touched')\n"
                         "asyncio.get_event_loop=asyncio.get_running_loop=asyncio.new_event_loop=boom\n"
                         "import asyncstdlib, asyncstdlib.asynctools, asyncstdlib.functools, asyncstdlib.contextlib, asyncstdlib.heapq, asyncstdlib.itertools\n"],
                        capture_output=True, text=True)
    rep.count(("import",), True)
    if rc.returncode != 0:
        rep.violation("loop-agnostic:import", {"why": "importing asyncstdlib touched an event loop: %s" % rc.stderr[-400:]})
    if not proofs_ok:
        rep.violation("proof-broken", {"broken": rep.notes.get("broken_file", "?") + " (static obligations over Gen/AwaitGraph.v: await_graph_closed / await_impls_transparent / asyncio_only_detection)",
                                       "log": rep.notes.get("build_log_tail", "")[-1500:]}, no_input=not rep.has_failing_input())
    return rep.finish()
