"""Shared plumbing of the checks: Coq build / evaluation, evidence, known findings, violations."""
import fcntl
import json
import os
import re
import subprocess
import sys
import time
import hashlib

VERIF = "/verif"
REPO = "/repo"
COQ = os.path.join(VERIF, "coq")
CORR = os.path.join(COQ, "Corr")
EVID = os.path.join(VERIF, "evidence")
REPLAYS = os.path.join(VERIF, "replays")
CORPUS = os.path.join(VERIF, "corpus")
LOCK = os.path.join(VERIF, ".build.lock")

if REPO not in sys.path:
    sys.path.insert(0, REPO)


def sh(cmd, timeout=600, cwd=None):
    try:
        p = subprocess.run(cmd, shell=True, cwd=cwd, capture_output=True, text=True, timeout=timeout)
        return p.returncode, p.stdout + p.stderr
    except subprocess.TimeoutExpired as e:
        return 124, "TIMEOUT after %ss: %s\n%s" % (timeout, cmd, (e.stdout or b"").decode(errors="replace") if isinstance(e.stdout, bytes) else (e.stdout or ""))


class BuildLock:
    def __enter__(self):
        self.f = open(LOCK, "w")
        fcntl.flock(self.f, fcntl.LOCK_EX)
        return self

    def __exit__(self, *a):
        fcntl.flock(self.f, fcntl.LOCK_UN)
        self.f.close()


def model_targets():
    """the executable models every correspondence evaluation needs (they do not depend on Gen/ or Proofs/)"""
    out = []
    for line in open(os.path.join(COQ, "_CoqProject")):
        line = line.strip()
        if line.startswith("Model/") or line == "Std/SpecTool.v":
            out.append(line + "o")
    return out


def coq_build(jobs=16, prop=None):
    """Regenerate Gen/*.v from /repo, then build (full .vo compilation, no-op when up to date) what the property
    needs: its Props file with everything it depends on, and the executable models.
    Returns (ok, log, failed_file)."""
    with BuildLock():
        rc, out = sh("/venv/bin/python %s/harness/extract.py" % VERIF, timeout=120)
        if rc != 0:
            return False, "extractor failed (fail-closed):\n" + out, "Gen"
        if not os.path.exists(os.path.join(COQ, "Makefile")):
            rc, out = sh("coq_makefile -f _CoqProject -o Makefile", cwd=COQ, timeout=60)
            if rc != 0:
                return False, out, "Makefile"
        targets = " ".join(model_targets() + (["Props/%s.vo" % prop] if prop and os.path.exists(os.path.join(COQ, "Props/%s.v" % prop)) else []))
        rc, out = sh("timeout 3000 make -j%d %s 2>&1 | tail -60" % (jobs, targets if prop else ""), cwd=COQ, timeout=3100)
        ok = rc == 0 and "Error" not in out
        failed = None
        if not ok:
            m = re.search(r'File "\./([^"]+)"', out)
            failed = m.group(1) if m else "?"
        return ok, out, failed


def static_gate():
    """No Admitted/admit/Axiom/... anywhere in the development."""
    rc, out = sh(r"grep -rnE '\b(Admitted|admit|Axiom|Axioms|Parameter|Parameters|Conjecture|Hypothesis|Variable)\b|Unset Guard|bypass_check|type-in-type|Admit Obligations' "
                 r"--include=*.v Kernel Model Std Proofs Props Gen 2>/dev/null | grep -v '^[^:]*:[0-9]*:\s*(\*' ", cwd=COQ)
    hits = [l for l in out.splitlines() if l.strip()]
    return hits


def compile_props(prop):
    """Recompile Props/<prop>.v afresh and capture its Print Assumptions output."""
    path = "Props/%s.v" % prop
    if not os.path.exists(os.path.join(COQ, path)):
        return False, "missing " + path, []
    with BuildLock():
        rc, out = sh("timeout 600 coqc -Q . V %s" % path, cwd=COQ, timeout=620)
    closed = out.count("Closed under the global context")
    axioms = re.findall(r"^Axioms:\n((?:.+\n)+)", out, flags=re.M)
    return rc == 0, out, [closed, axioms]


def theorems_in(prop):
    src = open(os.path.join(COQ, "Props/%s.v" % prop)).read()
    return re.findall(r"^\s*(?:Theorem|Lemma|Corollary)\s+(\w+)", src, flags=re.M)


def coq_eval_files(name, bodies, timeout=600):
    """Write Corr/<name>_<i>.v for each body, compile them in parallel, return list of outputs."""
    os.makedirs(CORR, exist_ok=True)
    files = []
    for i, body in enumerate(bodies):
        fn = "%s_%d" % (name, i)
        with open(os.path.join(CORR, fn + ".v"), "w") as f:
            f.write(body)
        files.append(fn)
    if not files:
        return []
    cd = os.path.basename(CORR)
    cmd = "printf '%%s\\n' %s | xargs -P16 -I{} sh -c 'ulimit -s unlimited; timeout %d coqc -Q . V %s/{}.v > %s/{}.out 2>&1; echo $? > %s/{}.rc'" % (
        " ".join(files), timeout, cd, cd, cd)
    sh(cmd, cwd=COQ, timeout=timeout * (len(files) // 16 + 2))
    outs = []
    for fn in files:
        try:
            rc = int(open(os.path.join(CORR, fn + ".rc")).read().strip() or 1)
        except Exception:
            rc = 1
        out = open(os.path.join(CORR, fn + ".out")).read() if os.path.exists(os.path.join(CORR, fn + ".out")) else ""
        outs.append((rc, out))
        for ext in (".v", ".vo", ".vok", ".vos", ".glob", ".out", ".rc", ".aux"):
            p = os.path.join(CORR, fn + ext)
            if os.path.exists(p):
                os.remove(p)
        p = os.path.join(CORR, "." + fn + ".aux")
        if os.path.exists(p):
            os.remove(p)
    return outs


def parse_nat_list(out):
    """Parse '= [1; 2]%nat : list nat' / '= [] : list nat' (possibly wrapped)."""
    m = re.search(r"=\s*\[([^\]]*)\]", out.replace("\n", " "))
    if not m:
        return None
    body = m.group(1).strip()
    if not body:
        return []
    return [int(x.replace("%nat", "").strip()) for x in body.split(";")]


# ---------------------------------------------------------------- known findings

def known_findings():
    p = os.path.join(VERIF, "known_findings.json")
    if not os.path.exists(p):
        return {"findings": [], "fixed": []}
    return json.load(open(p))


def builtins_any(it):
    for x in it:
        if x:
            return True
    return False


class Report:
    """Collects what one check run did; prints KNOWN-FINDING / VIOLATION lines; writes evidence."""

    def __init__(self, prop, tier, seed, level="proof"):
        self.prop, self.tier, self.seed, self.level = prop, tier, seed, level
        self.t0 = time.time()
        self.violations = []       # (signature, replay_obj)
        self.known_hits = {}
        self.cov = {"evaluations": 0, "distinct_nontrivial": 0, "samples": [], "obligations": 0, "discharged": 0,
                    "checker_cmd": "", "trusted_base": [], "traces_validated_against_impl": 0}
        self.assumptions = []
        self.notes = {}
        self._distinct = set()
        self.kf = known_findings()
        if os.path.isdir(REPLAYS):
            for f in os.listdir(REPLAYS):
                if f.startswith("%s-" % prop):
                    os.remove(os.path.join(REPLAYS, f))

    def count(self, key, nontrivial=True, sample=None):
        self.cov["evaluations"] += 1
        if nontrivial:
            h = hashlib.sha1(repr(key).encode()).hexdigest()
            self._distinct.add(h)
        if sample is not None and len(self.cov["samples"]) < 6:
            self.cov["samples"].append(sample)

    def violation(self, signature, replay, no_input=False):
        """signature: stable short string identifying the failing tool/site; replay: json-able object."""
        for f in self.kf.get("findings", []):
            if f["property"] == self.prop and f["signature"] == signature:
                self.known_hits.setdefault(signature, f)
                return
        self.violations.append((signature, replay, no_input))

    def has_failing_input(self):
        """has a violation with a concrete failing input been reported so far (listed known findings do not count)"""
        return builtins_any(not no_input for _s, _r, no_input in self.violations)

    def finish(self):
        os.makedirs(EVID, exist_ok=True)
        os.makedirs(REPLAYS, exist_ok=True)
        self.cov["distinct_nontrivial"] = len(self._distinct)
        for sig, f in sorted(self.known_hits.items()):
            print("KNOWN-FINDING: property=%s %s" % (self.prop, f["what"]))
        seen = set()
        nviol = 0
        for sig, replay, no_input in self.violations:
            if sig in seen:
                continue
            seen.add(sig)
            nviol += 1
            path = os.path.join(REPLAYS, "%s-%s-%d.json" % (self.prop, self.seed, nviol))
            json.dump({"property": self.prop, "signature": sig, "replay": replay}, open(path, "w"), indent=1, default=repr)
            print("VIOLATION property=%s replay=%s%s" % (self.prop, path, " no-failing-input-found" if no_input else ""))
            if nviol >= 5:
                break
        level = self.level
        cov = dict(self.cov, **self.notes)
        if level == "proof" and cov.get("obligations", 0) and cov.get("discharged", 0) != cov.get("obligations"):
            # the proof obligations did not all check on this run (reported as a VIOLATION above): what this run
            # established is what it explored, and the evidence says so instead of claiming the proof level
            level = "exploration"
            cov["rule"] = cov.get("rule") or "cases generated as described in DESIGN.md section 6; distinct by full input, non-trivial by size"
            cov["proof_level_not_reached"] = "%d of %d obligations discharged" % (cov.get("discharged", 0), cov.get("obligations", 0))
        ev = {"property_id": self.prop, "tier": self.tier, "seed": self.seed, "level": level,
              "coverage": cov, "assumptions": self.assumptions,
              "wall_s": round(time.time() - self.t0, 2), "violations": nviol,
              "known_findings_reported": sorted(self.known_hits)}
        json.dump(ev, open(os.path.join(EVID, "%s.json" % self.prop), "w"), indent=1, default=repr)
        return 1 if nviol else 0


def proof_stage(rep, prop):
    """Build + static gate + Props/<prop>.v; fills obligations/discharged; returns True if all proofs check."""
    if os.environ.get("VERIF_DEV_SKIP_PROOFS"):      # development aid only; never set by registered commands
        rep.notes["proofs_skipped"] = True
        return True
    ok, log, failed = coq_build(prop=prop)
    thms = theorems_in(prop) if os.path.exists(os.path.join(COQ, "Props/%s.v" % prop)) else []
    rep.cov["obligations"] = len(thms)
    rep.cov["checker_cmd"] = "cd /verif/coq && make (coqc 8.16.1, full .vo build) && coqc -Q . V Props/%s.v" % prop
    gate = static_gate()
    if gate:
        rep.violation("static-gate", {"broken": "forbidden declaration in development", "hits": gate[:10]}, no_input=True)
        return False
    if not ok:
        rep.notes["build_log_tail"] = log[-3000:]
        rep.notes["broken_file"] = failed
        rep.cov["discharged"] = 0
        return False
    ok2, out, info = compile_props(prop)
    if not ok2:
        rep.notes["build_log_tail"] = out[-3000:]
        rep.notes["broken_file"] = "Props/%s.v" % prop
        return False
    closed, axioms = info
    rep.cov["discharged"] = len(thms)
    rep.cov["trusted_base"] = [
        "Coq 8.16.1 kernel + vm_compute (no native_compute)",
        "Print Assumptions for the %d theorems of Props/%s.v: %d 'Closed under the global context'%s" % (
            len(thms), prop, closed, ("; axioms: " + " | ".join(a.strip() for a in axioms)) if axioms else "; no axioms"),
        "harness/extract.py (Python ast -> coq/Gen/*.v), fail-closed",
        "harness/translate.py (Python ast -> Gen/PylSrc.v, constructor by constructor, fail-closed) and the semantics of the fragment in Model/Pyl.v",
        "correspondence harness (instrumented sources/callables, hand-driven coroutines) and the Coq comparison functions",
        "modelled, not verified: CPython semantics of await / async generators / aclose, heapq and list.sort (abstract), dict/set/deque",
    ]
    rep.notes["theorems"] = thms
    try:
        gen = open(os.path.join(COQ, "Gen", "PylSrc.v")).read()
        rep.notes["translated_source"] = {"functions_translated_this_run": gen.count("Definition src_"), "unsupported_statements": gen.count("SUnsupported"),
                                          "equivalence_theorems_in_this_property": len([t for t in thms if t.endswith("_ok") and "_src_" in t])}
    except OSError:
        pass
    if rep.tier == "thorough":
        # independent re-check of the compiled property file and everything it depends on
        with BuildLock():
            rc, out = sh("timeout 1500 coqchk -silent -o -Q . V V.Props.%s 2>&1 | tail -14" % prop, cwd=COQ, timeout=1600)
        summary = " ".join(out.split())
        rep.notes["coqchk"] = summary[-600:]
        rep.cov["trusted_base"].append("coqchk -o on Props/%s.vo: %s" % (prop, summary[-300:]))
        if rc != 0 or "Axioms: <none>" not in summary:
            rep.violation("coqchk", {"broken": "coqchk -o V.Props.%s did not report an axiom-free, fully checked context" % prop, "log": out[-1500:]}, no_input=True)
            return False
    return True


# ---------------------------------------------------------------- change-directed sampling (no verdict)
FINGERPRINTS = os.path.join(VERIF, "fingerprints.json")
# which source functions/classes each property's models were written against
ANCHORS = {
    "C01": ["builtins", "itertools", "heapq", "_core"], "C02": ["builtins", "heapq", "functools.reduce", "_core"], "C03": ["_core", "builtins", "contextlib.ExitStack"],
    "C04": ["builtins", "itertools", "heapq", "_core", "functools.reduce", "asynctools.any_iter"], "C05": ["builtins", "itertools", "heapq", "_core"],
    "C06": ["builtins", "itertools", "heapq", "_core", "functools.reduce"], "C07": ["asynctools", "_core"], "C08": ["asynctools", "_core"],
    "C09": ["itertools.tee_peer", "itertools._tee_peer_done", "itertools._TeePeer", "itertools.Tee", "itertools.NoLock", "_core.close_all"],
    "C10": ["_lrucache"], "C11": ["_lrucache"], "C12": ["functools"], "C13": ["contextlib._AsyncGeneratorContextManager", "contextlib.contextmanager"],
    "C14": ["contextlib.ExitStack"], "C15": ["contextlib.ContextDecorator", "contextlib._AsyncGeneratorContextManager", "contextlib.contextmanager"],
    "C16": ["itertools._GroupByState", "itertools._Grouper", "itertools.GroupBy"], "C17": ["_core", "builtins", "itertools", "heapq", "functools", "_lrucache", "contextlib", "asynctools"],
    "C18": ["builtins", "itertools", "heapq", "_core", "functools.reduce"], "C19": ["asynctools.any_iter", "asynctools.await_each", "asynctools.apply", "asynctools.sync"],
    "C20": ["builtins", "itertools", "heapq", "functools.reduce"],
}


def source_fingerprints():
    """sha1 of the normalised AST (docstrings removed) of every top-level function / class of the library"""
    import ast
    out = {}
    pkg = os.path.join(REPO, "asyncstdlib")
    for fn in sorted(os.listdir(pkg)):
        if not fn.endswith(".py"):
            continue
        try:
            tree = ast.parse(open(os.path.join(pkg, fn)).read())
        except SyntaxError:
            out[fn[:-3]] = "syntax-error"
            continue
        for node in tree.body:
            if isinstance(node, (ast.FunctionDef, ast.AsyncFunctionDef, ast.ClassDef)):
                for sub in ast.walk(node):
                    if isinstance(sub, (ast.FunctionDef, ast.AsyncFunctionDef, ast.ClassDef, ast.Module)) and sub.body and isinstance(sub.body[0], ast.Expr) \
                            and isinstance(getattr(sub.body[0], "value", None), ast.Constant) and isinstance(sub.body[0].value.value, str):
                        sub.body = sub.body[1:] or [ast.Pass()]
                out["%s.%s" % (fn[:-3], node.name)] = hashlib.sha1(ast.dump(node).encode()).hexdigest()
    return out


def changed_anchors(prop):
    """anchored source definitions whose AST differs from the recorded fingerprint (recorded when the models were validated)"""
    if not os.path.exists(FINGERPRINTS):
        return []
    old = json.load(open(FINGERPRINTS))
    new = source_fingerprints()
    changed = [k for k in set(old) | set(new) if old.get(k) != new.get(k)]
    anchors = ANCHORS.get(prop, [])
    return sorted(k for k in changed if any(k == a_ or k.startswith(a_ + ".") or k.split(".")[0] == a_ for a_ in anchors))


def scale(rep):
    """Change-directed sampling: when a definition the property is anchored in differs from the fingerprint recorded with
    the models, the quick tier explores 5 times as many cases.  This is not a verdict, only where to look harder."""
    ch = changed_anchors(rep.prop)
    if ch:
        rep.notes["escalated_because_changed"] = ch[:20]
        return 3
    return 1
