"""C09: tee children see the full source sequence under every interleaving (and C04's tee-handle clauses).
A hand-driven scheduler enumerates interleavings of consumer tasks at every suspension point (lock wait, inside
the source, between operations); after every action the implementation's observable state is compared with the
Coq small-step model (Model/Tee.v) on the same schedule, and the property's predicates are evaluated directly."""
import builtins
import itertools
import random

import common
from common import Report, proof_stage, coq_eval_files, parse_nat_list
from gencalc import Obj, coq_val
from sched import Sched, Susp, Lock, Cancelled
import asyncstdlib as a

HEADER = """From Coq Require Import List ZArith NArith Bool.
Import ListNotations.
Require Import V.Kernel.Values V.Model.Tee V.Model.TeeCase.
Local Open Scope nat_scope.
"""


class Source:
    def __init__(self, items, susp):
        self.items = list(items)
        self.susp = susp
        self.fetched = 0
        self.closed = 0
        self.active = 0
        self.overlap = False

    def __aiter__(self):
        return self

    async def __anext__(self):
        self.active += 1
        if self.active > 1:
            self.overlap = True
        try:
            for _ in range(self.susp):
                await Susp("src")
            if self.closed or not self.items:
                raise StopAsyncIteration
            self.fetched += 1
            return self.items.pop(0)
        finally:
            self.active -= 1

    async def aclose(self):
        self.closed += 1


class SourceProxy:
    """only the iteration protocol is defined on the class; aclose and the counters come through __getattr__"""

    def __init__(self, inner):
        self.__dict__["_inner"] = inner

    def __aiter__(self):
        return self

    def __anext__(self):
        return self._inner.__anext__()

    def __getattr__(self, name):
        return getattr(self.__dict__["_inner"], name)


class SourceIterable:
    """an async *iterable* that is not its own iterator: __aiter__ hands out the (single) cursor; counters via __getattr__"""

    def __init__(self, inner):
        self.__dict__["_inner"] = inner

    def __aiter__(self):
        return self.__dict__["_inner"]

    def __getattr__(self, name):
        return getattr(self.__dict__["_inner"], name)


def make_source(items, susp):
    src = Source(items, susp)
    k = (len(src.items) + susp) % 3
    return SourceProxy(src) if k == 2 else (SourceIterable(src) if k == 1 else src)


class Rec:
    def __init__(self):
        self.out = []
        self.stops = 0
        self.errors = []


async def consumer(child, script, rec):
    try:
        for k, op in enumerate(script):
            if op == "next":
                try:
                    rec.out.append(await child.__anext__())
                except StopAsyncIteration:
                    rec.stops += 1
            else:
                await child.aclose()
            if k + 1 < len(script):
                await Susp("between")
    except Cancelled:
        await child.aclose()
        raise
    except BaseException as e:  # noqa
        rec.errors.append(e)


class YieldingLock(Lock):
    """a fair lock: having released, it lets the event loop run other tasks before its holder continues"""

    async def __aexit__(self, *a_):
        await Lock.__aexit__(self, *a_)
        await Susp("released")


class System:
    def __init__(self, cfg):
        self.cfg = cfg
        self.sched = Sched()
        self.src = make_source(cfg["items"], cfg["susp"])
        self.lock = (YieldingLock(self.sched) if cfg["lock"] == "yielding" else Lock(self.sched)) if cfg["lock"] else None
        n = len(cfg["scripts"])
        self.tee = a.tee(self.src, n, lock=self.lock) if self.lock is not None else a.tee(self.src, n)
        self.children = list(self.tee)
        self.recs = [Rec() for _ in range(n)]
        bufs = getattr(self.tee, "_buffers", [])
        self.buf_ids = {id(b): i for i, b in enumerate(bufs)}
        for i, sc in enumerate(cfg["scripts"]):
            self.sched.add(consumer(self.children[i], sc, self.recs[i]))
            if not sc:
                self.sched.run(i)      # an empty script finishes at once

    def dead(self, i):
        ch = self.children[i]
        g = getattr(ch, "_generator", ch)
        return getattr(g, "ag_frame", None) is None

    def snapshot(self):
        bufs = getattr(self.tee, "_buffers", [])
        return {"fetched": self.src.fetched, "closed": self.src.closed,
                "lock": (self.lock.owner if self.lock is not None and self.lock.held else None),
                "bufs": [(self.buf_ids.get(id(b), 99), len(b)) for b in bufs],
                "children": [(len(r.out), self.dead(i), r.stops) for i, r in enumerate(self.recs)]}

    def act(self, action):
        kind, i = action
        if kind == "run":
            self.sched.run(i)
        else:
            self.sched.cancel(i)


def run_schedule(cfg, actions):
    sysm = System(cfg)
    snaps = []
    for a_ in actions:
        sysm.act(a_)
        snaps.append(sysm.snapshot())
    return sysm, snaps


def all_schedules(cfg, cap):
    """stateless DFS; yields complete action lists"""
    stack = [[]]
    n = 0
    while stack and n < cap:
        prefix = stack.pop()
        sysm = System(cfg)
        actions = []
        pos = 0
        while True:
            r = sysm.sched.runnable()
            if not r:
                break
            if pos < len(prefix):
                c = prefix[pos]
            else:
                c = r[0]
                for alt in r[1:]:
                    stack.append(actions[:pos] + [alt])
            pos += 1
            sysm.sched.run(c)
            actions.append(c)
        n += 1
        yield [("run", c) for c in actions], not sysm.sched.runnable() and not builtins.all(sysm.sched.done)
    return


def random_schedule(cfg, rng, cancel_prob=0.0):
    sysm = System(cfg)
    actions = []
    cancelled = False
    while True:
        r = sysm.sched.runnable()
        if not r:
            break
        if not cancelled and cancel_prob and rng.random() < cancel_prob and sysm.sched.cancellable():
            c = rng.choice(sysm.sched.cancellable())
            act = ("cancel", c)
            cancelled = True
        else:
            act = ("run", rng.choice(r))
        sysm.act(act)
        actions.append(act)
        if len(actions) > 400:
            break
    return actions


def oracle(cfg, actions, sysm, snaps):
    """the property's predicates, evaluated on the implementation after a complete run"""
    items = cfg["items"]
    guarded = cfg["lock"] or cfg["susp"] == 0
    cancelled = {i for k, i in actions if k == "cancel"}
    if builtins.any(e is not None for e in sysm.sched.errors):
        return "task-error", "a consumer task failed: %r" % ([e for e in sysm.sched.errors if e is not None][:1],)
    for r in sysm.recs:
        if r.errors:
            return "child-error", "a child raised %r" % (r.errors[:1],)
    if not builtins.all(sysm.sched.done):
        return "deadlock", "tasks blocked forever: done=%r" % (sysm.sched.done,)
    if not guarded:
        return None
    if sysm.src.overlap and cfg["lock"]:
        return "overlap", "the source was advanced by two consumers at once although a lock was supplied"
    for i, (r, sc) in enumerate(builtins.zip(sysm.recs, cfg["scripts"])):
        # every child yields the source's items in source order (a prefix of them)
        if len(r.out) > len(items) or builtins.any(x is not y for x, y in builtins.zip(r.out, items)):
            return "order", "child %d yielded %r, source items are %r" % (i, r.out, items)
        if i in cancelled:
            continue
        # a child that was only advanced (never closed before) and asked for more than there is, saw everything
        wanted = 0
        for op in sc:
            if op == "close":
                break
            wanted += 1
        if len(r.out) != builtins.min(wanted, len(items)):
            return "loss", "child %d received %d items, expected %d (script %r)" % (i, len(r.out), builtins.min(wanted, len(items)), sc)
    if sysm.src.fetched > len(items):
        return "refetch", "more fetches than items"
    # retention: after every action, an item is buffered only for live children that have not yielded it
    for sn in snaps:
        lens = {c: n for c, n in sn["bufs"]}
        for c, n in lens.items():
            if c >= len(cfg["scripts"]):
                return "buffers", "unknown buffer registered"
            got = sn["children"][c][0]
            if sn["children"][c][1] and n:
                return "dead-buffer", "a finished child still has a registered buffer"
            if got + n != sn["fetched"] and guarded:
                return "retention", "child %d: yielded %d + buffered %d != fetched %d" % (c, got, n, sn["fetched"])
        for c, (got, dead, stops) in enumerate(sn["children"]):
            if dead and c in lens:
                return "closed-child-buffers", "child %d is done but its buffer is still registered" % c
    # the source is closed exactly when the last child is done
    for sn in snaps:
        live = [c for c, (got, dead, stops) in enumerate(sn["children"]) if not dead]
        if sn["closed"] > 1:
            return "double-close", "source closed %d times" % sn["closed"]
        if live and sn["closed"]:
            return "early-close", "source closed while children %r are live" % (live,)
        if not live and not sn["closed"]:
            return "not-closed", "all children done but the source is not closed"
    return None


def coq_cfg(cfg):
    return "(mkCfg %s %d [%s] [%s])" % ("true" if cfg["lock"] else "false", cfg["susp"],
                                        "; ".join("[%s]" % "; ".join("CNext" if o == "next" else "CClose" for o in sc) for sc in cfg["scripts"]),
                                        "; ".join(coq_val(x) for x in cfg["items"]))


def coq_snap(sn):
    return "(mkSnap %d %d %s [%s] [%s])" % (sn["fetched"], sn["closed"], "None" if sn["lock"] is None else "(Some %d)" % sn["lock"],
                                          "; ".join("(%d, %d)" % p for p in sn["bufs"]),
                                          "; ".join("(%d, %s, %d)" % (g, "true" if d else "false", s) for g, d, s in sn["children"]))


def coq_case(cfg, actions, sysm, snaps):
    return "(mkTC %s [%s] [%s] [%s])" % (coq_cfg(cfg), "; ".join(("Run %d" if k == "run" else "Cancel %d") % i for k, i in actions),
                                       "; ".join(coq_snap(s) for s in snaps),
                                       "; ".join("[%s]" % "; ".join(coq_val(x) for x in r.out) for r in sysm.recs))


def mk_items(n):
    return [Obj(i + 1, i % 2) for i in range(n)]


def configs(tier, rng):
    out = []
    # exhaustively explored small configurations
    small = []
    for lock in (True, False):
        for susp in (0, 1):
            for nitems in (0, 1, 2):
                small.append({"lock": lock, "susp": susp, "items": mk_items(nitems), "scripts": [["next"] * (nitems + 1)] * 2})
    small.append({"lock": True, "susp": 1, "items": mk_items(2), "scripts": [["next", "next", "next"], ["close"]]})
    small.append({"lock": True, "susp": 1, "items": mk_items(2), "scripts": [["next", "close"], ["next", "next", "next"]]})
    small.append({"lock": True, "susp": 0, "items": mk_items(2), "scripts": [["next", "next", "next"], ["next", "close"], ["close"]]})
    small.append({"lock": True, "susp": 1, "items": mk_items(1), "scripts": [["next", "next"], ["next", "next"], ["next", "next"]]})
    if tier != "quick":
        for lock in (True, False):
            for susp in (0, 1, 2):
                small.append({"lock": lock, "susp": susp, "items": mk_items(3), "scripts": [["next"] * 4] * 2})
                small.append({"lock": lock, "susp": susp, "items": mk_items(2), "scripts": [["next"] * 3] * 3})
        small.append({"lock": True, "susp": 2, "items": mk_items(3), "scripts": [["next"] * 4, ["next", "close"], ["close", "next"]]})
    return small


def random_cfg(rng, tier):
    n = rng.choice([2, 2, 3, 3, 4])
    nitems = rng.randrange(0, 5)
    lock = rng.random() < 0.6
    susp = rng.choice([0, 1, 2])
    scripts = []
    for _ in range(n):
        r = rng.random()
        if r < 0.55:
            sc = ["next"] * (nitems + 1)
        elif r < 0.8:
            j = rng.randrange(0, nitems + 1)
            sc = ["next"] * j + ["close"] + (["next"] if rng.random() < 0.3 else [])
        else:
            sc = ["next"] * rng.randrange(0, nitems + 1)
        scripts.append(sc)
    return {"lock": lock, "susp": susp, "items": mk_items(nitems), "scripts": scripts}


def abandoned_first_step_probe(rep):
    """A child's first step is created and abandoned before it ever runs (a task cancelled before its first step leaves
    exactly this behind), for every subset of the children; the others may have been advanced.  Closing the tee then
    still closes the source exactly once and deregisters every child."""
    from gencalc import drive
    fails = 0
    for n in (1, 2, 3):
        for mask in range(1, 2 ** n):
            for advanced_others in (False, True):
                src = Source(mk_items(4), 0)
                t = a.tee(src, n)
                kids = list(t)
                why = None
                try:
                    for i in range(n):
                        if mask >> i & 1:
                            aw = kids[i].__anext__()       # never awaited
                            close = getattr(aw, "close", None)
                            if close is not None:
                                close()
                        elif advanced_others:
                            async def _adv(ch):
                                return await ch.__anext__()
                            drive(_adv(kids[i]))
                    drive(t.aclose())
                    drive(t.aclose())
                except BaseException as e:  # noqa
                    why = "failed with %r" % (e,)
                bufs = getattr(t, "_buffers", [])
                rep.count(("tee-abandoned-first-step", n, mask, advanced_others), True)
                if why is None and (src.closed != 1 or len(bufs) != 0):
                    why = "after tee.aclose(): source closed %d times, %d buffers still registered" % (src.closed, len(bufs))
                if why:
                    fails += 1
                    rep.violation("tee:abandoned-first-step", {"children": n, "abandoned_mask": mask, "others_advanced": advanced_others,
                                                               "why": "children whose first __anext__() awaitable was created but never run: " + why})
                    return fails
    return fails


def closed_child_retention_probe(rep):
    """A child that was advanced, fell behind and is then closed (or whose consumer was unwound by an error) holds nothing any
    more: what was buffered only for it is released although the tee and its sibling live on"""
    import gc
    import weakref
    from gencalc import drive
    fails = 0

    class Item:
        pass

    for lag in (1, 3, 6):
        for started in (True, False):
            made = []

            class Lazy:
                def __aiter__(self):
                    return self

                async def __anext__(self):
                    it = Item()
                    made.append(weakref.ref(it))
                    return it

            async def go():
                t = a.tee(Lazy(), 2)
                slow, fast = t[0], t[1]
                if started:
                    await slow.__anext__()
                for _ in range(lag):
                    await fast.__anext__()
                await slow.aclose()
                gc.collect()
                alive = builtins.sum(1 for w in made if w() is not None)
                await t.aclose()
                return alive
            try:
                alive = drive(go())
                why = None if alive <= 1 else "%d of the %d fetched items are still alive after the lagging child was closed (its sibling consumed them all)" % (alive, len(made))
            except BaseException as e:  # noqa
                why = "failed with %r" % (e,)
            rep.count(("tee-closed-child-retention", lag, started), True)
            if why:
                fails += 1
                rep.violation("tee:closed-child-retention", {"lag": lag, "slow_child_started": started, "why": why})
    return fails


def run(tier, seed):
    rep = Report("C09", tier, seed)
    proofs_ok = proof_stage(rep, "C09")
    rng = random.Random(seed)
    texts, fails = [], 0
    nexh = 0
    dist = {}

    def handle(cfg, actions, nontrivial=True):
        nonlocal fails
        sysm, snaps = run_schedule(cfg, actions)
        key = (cfg["lock"], cfg["susp"], len(cfg["items"]), tuple(tuple(s) for s in cfg["scripts"]), tuple(actions))
        rep.count(key, nontrivial and len(actions) > 3,
                  sample={"lock": cfg["lock"], "susp": cfg["susp"], "items": len(cfg["items"]), "scripts": cfg["scripts"], "schedule": actions[:12]})
        dk = "lock=%s susp=%d children=%d" % (cfg["lock"], cfg["susp"], len(cfg["scripts"]))
        dist[dk] = dist.get(dk, 0) + 1
        bad = oracle(cfg, actions, sysm, snaps)
        if bad:
            fails += 1
            rep.violation("tee:%s" % bad[0], {"config": {"lock": cfg["lock"], "susp": cfg["susp"], "items": len(cfg["items"]), "scripts": cfg["scripts"]},
                                             "schedule": actions, "why": bad[1]})
            return
        if (cfg["lock"] or cfg["susp"] == 0) and cfg["lock"] != "yielding":
            texts.append(coq_case(cfg, actions, sysm, snaps))    # (the model has no step for a lock that suspends on release)

    cap = 1500 if tier == "quick" else 60000
    for cfg in configs(tier, rng):
        for actions, deadlock in all_schedules(cfg, cap):
            nexh += 1
            handle(cfg, actions)
            # one cancellation at a random point of some schedules
            if rng.random() < (0.15 if tier == "quick" else 0.3) and actions:
                k = rng.randrange(len(actions))
                sysm, _ = run_schedule(cfg, actions[:k])
                cand = sysm.sched.cancellable()
                if cand:
                    c = rng.choice(cand)
                    pre = actions[:k] + [("cancel", c)]
                    # complete the run: remaining tasks in the first runnable order
                    sysm2, _ = run_schedule(cfg, pre)
                    tail = []
                    while sysm2.sched.runnable() and len(tail) < 300:
                        t = sysm2.sched.runnable()[0]
                        sysm2.sched.run(t)
                        tail.append(("run", t))
                    handle(cfg, pre + tail)
    rep.notes["exhaustively_enumerated_schedules"] = nexh
    nrand = 400 * common.scale(rep) if tier == "quick" else 20000
    for _ in range(nrand):
        cfg = random_cfg(rng, tier)
        actions = random_schedule(cfg, rng, cancel_prob=0.08)
        handle(cfg, actions)
    # a user lock that suspends after releasing: the property's predicates on random schedules (no model comparison)
    for _ in range(nrand // 2):
        cfg = dict(random_cfg(rng, tier), lock="yielding")
        actions = random_schedule(cfg, rng, cancel_prob=0.05)
        handle(cfg, actions)
    # the handle: after any sequential progress, tee.aclose() / `async with tee` closes every child (advanced or not),
    # deregisters every buffer and closes the source exactly once
    from gencalc import drive
    for k in range(60 if tier == "quick" else 1000):
        n = rng.choice([1, 2, 3, 4])
        src = make_source(mk_items(rng.randrange(0, 5)), 0)
        t = a.tee(src, n)
        kids = list(t)
        if len(t) != n or t[0] is not kids[0]:
            fails += 1
            rep.violation("tee:handle", {"why": "tee handle is not indexable/iterable as documented"})
            break

        async def go():
            for _ in range(rng.randrange(0, 8)):
                i = rng.randrange(n)
                r = rng.random()
                try:
                    if r < 0.8:
                        await kids[i].__anext__()
                    else:
                        await kids[i].aclose()
                except StopAsyncIteration:
                    pass
            if rng.random() < 0.5:
                await t.aclose()
            else:
                async with t:
                    pass
            await t.aclose()          # closing again is harmless
        try:
            drive(go())
            why = None
        except BaseException as e:  # noqa
            why = "closing the tee failed: %r" % (e,)
        bufs = getattr(t, "_buffers", [])
        rep.count(("tee-handle", k), True)
        if why is None and (src.closed != 1 or len(bufs) != 0):
            why = "after tee.aclose(): source closed %d times, %d buffers still registered" % (src.closed, len(bufs))
        if why:
            fails += 1
            rep.violation("tee:handle", {"children": n, "why": why})
            break
    # the whole tee is closed while one task is suspended inside a child's __anext__: closing that child is refused
    # (RuntimeError), every *other* child is closed and deregistered all the same
    for busy in (0, 1, 2):
        src = Source(mk_items(6), 1)
        t = a.tee(src, 3)
        kids = list(t)

        async def _adv(ch):
            return await ch.__anext__()
        try:
            started = (busy + 1) % 3
            drive_steps = _adv(kids[started])
            try:
                drive_steps.send(None)
                drive_steps.send(None)
            except StopIteration:
                pass
            drive(_adv(kids[busy]))                  # takes the buffered item: its buffer is empty again
            pending = _adv(kids[busy])
            pending.send(None)                       # now suspended in the source, inside child `busy`
            try:
                drive(t.aclose())
                closed_ok = "closed"
            except RuntimeError:
                closed_ok = "refused for the busy child"
            others = [i for i in range(3) if i != busy]
            after = []
            for i in others:
                try:
                    c_ = kids[i].__anext__()
                    c_.send(None)
                    after.append("child %d advanced the source" % i)
                    c_.close()
                except StopAsyncIteration:
                    after.append("dead")
                except StopIteration:
                    after.append("child %d still yields" % i)
            bufs = getattr(t, "_buffers", [])
            why = None
            if after != ["dead", "dead"]:
                why = "after tee.aclose() (%s) the other children: %r" % (closed_ok, after)
            elif len(bufs) > 1:
                why = "after tee.aclose() %d buffers are still registered" % len(bufs)
            elif closed_ok != "closed" and src.closed:
                why = "tee.aclose() (%s) closed the source although that child is still live (a tee closes its source when its last child is done)" % closed_ok
            pending.close()
        except BaseException as e:  # noqa
            why = "failed with %r" % (e,)
        rep.count(("tee-close-busy", busy), True)
        if why:
            fails += 1
            rep.violation("tee:handle", {"children": 3, "busy_child": busy, "why": why})
    fails += abandoned_first_step_probe(rep)
    fails += closed_child_retention_probe(rep)
    # items are opaque to a tee: objects that claim to equal everything (or whose comparison / truth test raises) travel
    # through it like any other item, for every interleaving of the children
    class EqualsAll:
        def __eq__(self, other):
            return True

        def __ne__(self, other):
            return False

        def __hash__(self):
            return 1

    class NoTouch:
        def _no(self, *a_):
            raise AssertionError("a tee inspected an item")
        __eq__ = __ne__ = __bool__ = __hash__ = __lt__ = __len__ = _no
    for k in range(30 if tier == "quick" else 600):
        n = rng.choice([2, 3])
        items = [rng.choice([EqualsAll, NoTouch, object])() for _ in range(rng.randrange(1, 6))]
        src = make_source(items, 0)
        kids = list(a.tee(src, n))
        outs = [[] for _ in range(n)]

        async def go2():
            live = list(range(n))
            while live:
                i = rng.choice(live)
                try:
                    outs[i].append(await kids[i].__anext__())
                except StopAsyncIteration:
                    live.remove(i)
        try:
            drive(go2())
            why = None
            for i in range(n):
                if len(outs[i]) != len(items) or builtins.any(x is not y for x, y in builtins.zip(outs[i], items)):
                    why = "child %d received %d of %d items (kinds %r)" % (i, len(outs[i]), len(items), [type(x).__name__ for x in items])
                    break
        except BaseException as e:  # noqa
            why = "failed: %r" % (e,)
        rep.count(("tee-opaque-items", k), True)
        if why:
            fails += 1
            rep.violation("tee:opaque-items", {"children": n, "items": [type(x).__name__ for x in items], "why": why})
            break
    rep.notes["configuration_distribution"] = dist
    shards = [texts[i:i + 300] for i in range(0, len(texts), 300)]
    outs = coq_eval_files("c09", [HEADER + "Definition cases : list tcase := [\n" + ";\n".join(sh) + "\n].\nEval vm_compute in (tfailing cases).\n" for sh in shards])
    mism = 0
    for sh, (rc, out) in builtins.zip(shards, outs):
        f = parse_nat_list(out) if rc == 0 else None
        if f is None:
            rep.violation("coq-eval", {"broken": "correspondence evaluation failed", "log": out[-1500:]}, no_input=True)
            break
        mism += len(f)
        for j in f[:2]:
            rep.violation("tee:model-mismatch", {"broken": "correspondence impl<->Model/Tee.v (trun), per-action snapshots", "case": sh[j][:4000]}, no_input=not rep.has_failing_input())
    rep.cov["traces_validated_against_impl"] = len(texts)
    rep.notes["model_mismatches"] = mism
    if not proofs_ok:
        rep.violation("proof-broken", {"broken": rep.notes.get("broken_file", "?"), "log": rep.notes.get("build_log_tail", "")[-1500:]}, no_input=True)
    return rep.finish()
