"""check.py <Cxx> --replay <file>: re-run the recorded input / history / schedule against the current /repo and
evaluate the property's oracle on it. Exit 1 (and a VIOLATION line) if it still fails, 0 otherwise."""
import ast
import builtins
import json
import sys


def _say(prop, path, failed, why):
    if failed:
        print("VIOLATION property=%s replay=%s" % (prop, path))
        print("  still fails: %s" % (why,))
        return 1
    print("replay %s: the recorded input no longer fails (%s)" % (path, why))
    return 0


def replay(prop, path):
    d = json.load(open(path))
    r = d.get("replay", {})
    if r.get("broken") and "case" not in r and "config" not in r:
        print("replay %s names a broken obligation, not an input: %s" % (path, r.get("broken")))
        print("re-running the check instead")
        return _rerun(prop)
    if prop in ("C01", "C02", "C04", "C05", "C06", "C18") and isinstance(r.get("case"), dict):
        import calc_checks as cc
        from gencalc import run_impl, use_kinds, no_close, same_log
        c = cc.decode_case(r["case"])
        run = run_impl(c)
        if prop in ("C01", "C02"):
            why = cc.oracle_values(c, run, cc.std_run_for(c, run)) or (cc.mutation_check(c) if prop == "C02" else None)
            return _say(prop, path, why is not None, why or "same as the stdlib counterpart")
        if prop == "C05":
            s = cc.std_run_for(c, run)
            bad = s is not None and not same_log(no_close(run["log"]), s["log"])
            return _say(prop, path, bad, "trace %r vs stdlib %r" % (no_close(run["log"]), s["log"] if s else None))
        uk = use_kinds(run_impl(cc.with_plan(c, None))["log"]) if c.plan else use_kinds(run["log"])
        if c.plan is None:
            bad = cc.released_problem(c, run)
            return _say(prop, path, bad, "source states %r" % (run["states"],))
        if prop == "C18":
            rp, why = cc.run_cancel(c, uk)
        else:
            rp, why = run, None
        why = why or cc.fault_oracle(prop, cc.with_plan(c, None), c, rp, uk)
        return _say(prop, path, why is not None, why or "fault handled as required")
    if prop in ("C09", "C11", "C12", "C15") and "config" in r and "schedule" in r:
        mod = __import__("check_" + prop.lower())
        cfg = r["config"]
        if prop == "C09":
            from gencalc import Obj
            cfg = {"lock": cfg["lock"], "susp": cfg["susp"], "items": mod.mk_items(cfg["items"]), "scripts": cfg["scripts"]}
        actions = [tuple(a_) for a_ in r["schedule"]]
        if prop == "C11":
            cfg = dict(cfg, scripts=[[tuple(op) for op in sc] for sc in cfg["scripts"]])
        if prop == "C15":
            sysm = mod.run_schedule(cfg, actions)
            bad = mod.oracle(cfg, actions, sysm)
        else:
            sysm, snaps = mod.run_schedule(cfg, actions)
            bad = mod.oracle(cfg, actions, sysm, snaps)
        return _say(prop, path, bad is not None, bad[1] if bad else "the property's predicates hold on this schedule")
    if prop == "C16" and "ops" in r:
        import check_c16 as m
        from gencalc import Obj
        items = ast.literal_eval(_objs(r["items"]))
        items = [Obj(*t) for t in items]
        ops = [tuple(o) for o in r["ops"]]
        key = tuple(r["key"]) if r.get("key") else None
        obs, pulls, closes = m.run_impl(items, key, "sync", ops)
        adv = builtins.all(o[0] in ("adv", "grp", "drop") for o in ops)
        std = m.run_std(items, key, ops) if adv else None
        bad = builtins.any(o[0] == "error" for o in obs) or (std is not None and not (len(std) == len(obs) and builtins.all(m.same_obs(x, y) for x, y in builtins.zip(obs, std))))
        return _say(prop, path, bad, "asyncstdlib %r itertools %r" % (obs, std))
    print("no specific replay driver for this record; re-running the check")
    return _rerun(prop)


def _objs(text):
    """'[O1:2, O2:0c1]' -> '[(1,2,0),(2,0,1)]'"""
    import re
    return re.sub(r"O(\d+):(-?\d+)(?:c(\d+))?", lambda m: "(%s,%s,%s)" % (m.group(1), m.group(2), m.group(3) or 0), text)


def _rerun(prop):
    import subprocess
    p = subprocess.run([sys.executable, "/verif/check.py", prop], capture_output=True, text=True)
    sys.stdout.write(p.stdout)
    return p.returncode
