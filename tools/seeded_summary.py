#!/venv/bin/python
"""Writes /verif/seeded/SUMMARY.md from the meta.json files (which checks raise an alarm on which seeded change)."""
import json, os
S = "/verif/seeded"
rows = []
for d in sorted(os.listdir(S)):
    mp = os.path.join(S, d, "meta.json")
    if not os.path.exists(mp):
        continue
    m = json.load(open(mp))
    res = m.get("checks_run", {})
    own = res.get(m.get("property"), "?")
    others = ", ".join("%s: %s" % (k, v) for k, v in res.items() if k != m.get("property"))
    rows.append((d, m.get("property"), (m.get("summary") or "")[:150].replace("|", "/").replace("\n", " "), (m.get("needs") or "")[:120].replace("|", "/").replace("\n", " "), own, others))
caught = sum(1 for r in rows if r[4].startswith("alarm") or "alarm" in r[5].replace("no alarm", ""))
own_caught = sum(1 for r in rows if r[4].startswith("alarm"))
with open(os.path.join(S, "SUMMARY.md"), "w") as f:
    f.write("# Seeded changes (produced by sub-agents from the property text only) and the checks that catch them\n\n")
    f.write("%d changes confirmed (tests pass with the change, the demonstration fails with it and passes without it); "
            "%d raise an alarm in the check of the property they were written for, %d in that or a related check.\n\n" % (len(rows), own_caught, caught))
    f.write("| id | property | change | needs | own check | other checks |\n|---|---|---|---|---|---|\n")
    for r in rows:
        f.write("| %s | %s | %s | %s | %s | %s |\n" % r)
print(len(rows), own_caught, caught)
