#!/bin/bash
# usage: try_revert.sh <commit-subject-substring> <Cxx>...  -- un-applies one fix: commit in the working tree, runs checks, restores
pat=$1; shift
cd /repo || exit 2
git diff --quiet || { echo "repo dirty"; exit 2; }
c=$(git log --format='%h %s' | grep -F "$pat" | head -1 | cut -d' ' -f1)
[ -z "$c" ] && { echo "no commit for $pat"; exit 2; }
if ! git show $c | git apply -R 2>/dev/null; then echo "cannot revert $c mechanically"; git reset -q --hard HEAD; exit 3; fi
git reset -q
for p in "$@"; do
  out=$(cd /verif && timeout 1500 env ${DEV:+VERIF_DEV_SKIP_PROOFS=1} /venv/bin/python check.py $p 2>&1 | grep -E "VIOLATION|Traceback|Error" | head -2)
  echo "[$pat][$p] ${out:-no alarm}"
done
cd /repo && git checkout -- . ; find /repo -name "*.orig" -o -name "*.rej" | xargs -r rm -f
