#!/venv/bin/python
"""Generate coq/Props/Cxx.v: each property theorem restated verbatim and closed by `exact <lemma>`,
followed by Print Assumptions.  Run by hand when the lemma set changes; the output is committed."""
import re, sys, os
COQ = "/verif/coq"
MAP = {
 "C01": [("Zip", ["zip_trace", "zip_yields", "spec_zip_length"]), ("Map", ["map_trace", "map_yields"]), ("Filter", ["filter_trace", "filter_yields"]),
         ("Enumerate", ["enumerate_trace", "enumerate_yields"]),
         ("Accumulate", ["accumulate_trace_partial", "accumulate_empty_typeerror", "accumulate_yields"]),
         ("Batched", ["batched_trace_partial", "batched_trace_exact", "batched_yields"]),
         ("Chain", ["chain_trace", "chain_yields"]), ("Compress", ["compress_trace", "compress_yields"]), ("Cycle", ["cycle_trace", "cycle_yields"]),
         ("TakeDrop", ["takewhile_trace", "takewhile_yields", "dropwhile_trace", "dropwhile_yields"]),
         ("Starmap", ["filterfalse_trace", "filterfalse_yields", "starmap_trace", "starmap_yields"]),
         ("Islice", ["islice_trace", "islice_yields"]), ("Pairwise", ["pairwise_trace", "pairwise_yields"]),
         ("ZipLongest", ["zip_longest_trace", "zip_longest_yields"]),
         ("Merge", ["merge_spec", "merge_yields"]), ("MergeSorted", ["spec_merge_perm", "spec_merge_sorted"]),
         ("PylEquivIter", ["iter_sources_supported", "src_filter_ok", "src_enumerate_ok", "src_map_ok", "src_takewhile_ok", "src_dropwhile_ok", "src_filterfalse_ok",
                           "src_starmap_ok", "src_pairwise_ok", "src_accumulate_ok", "src_islice_ok", "src_compress_ok"]),
         ("PylEquivZip", ["zip_sources_supported", "src_zip_inner_ok", "src_zip_inner_strict_ok", "src_zip_ok", "src_batched_ok"]),
         ("PylEquivChain", ["chain_sources_supported", "src_chain_iterator_ok", "src_cycle_ok", "a_cycle_wf_passes"]),
         ("PylCorollariesIter", ["filter_source_trace", "enumerate_source_trace", "map_source_trace", "zip_source_trace", "takewhile_source_trace", "dropwhile_source_trace", "filterfalse_source_trace", "starmap_source_trace", "pairwise_source_trace", "accumulate_source_trace_partial", "accumulate_source_empty_typeerror", "islice_source_trace", "compress_source_trace", "batched_source_trace_partial", "batched_source_trace_exact", "chain_source_trace", "cycle_source_trace"])],
 "C02": [("MinMax", ["min_max_spec", "spec_min_first_minimal", "spec_max_first_maximal", "spec_min_max_type_error", "spec_min_max_value_error"]),
         ("AllAny", ["all_spec", "any_spec"]), ("Folds", ["sum_spec", "list_spec", "tuple_spec", "set_spec", "dict_spec", "reduce_spec"]),
         ("Sorted", ["sorted_spec", "spec_sorted_perm", "spec_sorted_sorted", "spec_sorted_stable", "sorted_type_error_exact", "sorted_outcome_cases"]),
         ("Largest", ["nlargest_spec", "nsmallest_spec"]),
         ("PylEquivAgg", ["agg_sources_supported", "src_all_ok", "src_any_ok", "src_list_ok", "src_tuple_ok", "src_set_ok", "src_sum_ok",
                          "src_min_max_ok", "min_max_wrappers_ok", "src_reduce_ok"]),
         ("PylCorollariesAgg", ["all_source_spec", "any_source_spec", "list_source_spec", "tuple_source_spec", "set_source_spec", "sum_source_spec", "reduce_source_spec", "min_max_source_spec", "min_max_wrappers_source_spec", "max_source_spec", "min_source_spec"])],
 "C04": [("ReleaseAll", ["tool_releases", "tool_releases_closed", "tool_releases_partial", "tool_releases_refuted"]),
         ("Release", ["scoped_releases", "close_all_releases"]), ("ReleaseChain", ["chain_releases", "chain_close_releases"]),
         ("Static", ["scoping_releases", "scoping_nonempty"])],
 "C05": [("Zip", ["zip_trace"]), ("Map", ["map_trace"]), ("Filter", ["filter_trace"]), ("Enumerate", ["enumerate_trace"]),
         ("Accumulate", ["accumulate_trace_partial", "accumulate_trace_refuted"]), ("Batched", ["batched_trace_partial", "batched_trace_refuted"]),
         ("Chain", ["chain_trace"]), ("Compress", ["compress_trace"]), ("Cycle", ["cycle_trace"]),
         ("TakeDrop", ["takewhile_trace", "dropwhile_trace"]), ("Starmap", ["filterfalse_trace", "starmap_trace"]),
         ("Islice", ["islice_trace", "islice_pulls"]), ("Pairwise", ["pairwise_trace"]), ("ZipLongest", ["zip_longest_trace"]),
         ("Merge", ["merge_trace"]), ("AllAny", ["all_spec", "any_spec"]), ("RegularTools", ["fault_prefix"]),
         ("PylEquivAgg", ["agg_sources_supported", "src_all_ok", "src_any_ok", "src_min_max_ok", "src_reduce_ok", "src_sum_ok"]),
         ("PylEquivIter", ["iter_sources_supported", "src_filter_ok", "src_enumerate_ok", "src_map_ok", "src_takewhile_ok", "src_dropwhile_ok",
                           "src_filterfalse_ok", "src_starmap_ok", "src_pairwise_ok", "src_accumulate_ok", "src_islice_ok", "src_compress_ok"]),
         ("PylEquivZip", ["zip_sources_supported", "src_zip_inner_ok", "src_zip_inner_strict_ok", "src_zip_ok", "src_batched_ok"]),
         ("PylEquivChain", ["chain_sources_supported", "src_chain_iterator_ok", "src_cycle_ok", "a_cycle_wf_passes"]),
         ("PylCorollariesIter", ["filter_source_trace", "enumerate_source_trace", "map_source_trace", "zip_source_trace", "takewhile_source_trace", "dropwhile_source_trace", "filterfalse_source_trace", "starmap_source_trace", "pairwise_source_trace", "accumulate_source_trace_partial", "accumulate_source_empty_typeerror", "islice_source_trace", "compress_source_trace", "batched_source_trace_partial", "batched_source_trace_exact", "chain_source_trace", "cycle_source_trace"]),
         ("PylCorollariesAgg", ["all_source_spec", "any_source_spec", "list_source_spec", "tuple_source_spec", "set_source_spec", "sum_source_spec", "reduce_source_spec", "min_max_source_spec", "min_max_wrappers_source_spec", "max_source_spec", "min_source_spec"])],
 "C16": [("GroupBy", ["groupby_refines", "stale_group_stops", "group_items_in_order", "group_items_no_duplicates", "group_numbers_sequential",
                     "groupby_close_releases", "closed_groupby_stops_partial", "closed_groupby_stops_refuted"])],
 "C10": [("LruKeys", ["key_classes", "key_classes_explicit"]),
         ("Lru", ["lru_refines", "lru_refines_decorator", "errors_never_cached", "size_bounded", "keys_unique", "discard_exact", "zero_disables", "hit_returns_cached"])],
 "C14": [("ExitStack", ["unwind_nested", "unwind_order", "callbacks_cannot_suppress", "exit_receives_in_flight", "exits_at_most_once", "exits_only_registered",
                       "failed_enter_never_executed", "unwound_stack_is_empty", "pop_all_transfers", "exits_exactly_once", "exits_exactly_once_unwind_all"])],
 "C13": [("ContextManager", ["aenter_equal", "aexit_equal_partial", "with_outcome_equal_partial", "aexit_equal_refuted", "aexit_equal_iff",
                            "cls_passthrough", "cls_suppressed", "cls_yields_again", "cls_other_exception", "cls_stop_misattribution", "cls_runtime_same_object",
                            "cls_normal_stop", "cls_normal_yield", "cls_normal_raise", "genexit_propagates", "genexit_uses_aclose", "genexit_close_fails"])],
 "C09": [("Tee", ["tee_inv", "tee_prefix", "tee_complete", "tee_mutex", "tee_source_closed", "tee_needs_guard_refuted", "tee_no_deadlock"])],
 "C11": [("LruConc", ["size_bounded_conc", "keys_unique_conc", "values_genuine", "stats_conc", "misses_le_invocations", "stats_conc_with_clear_refuted",
                      "failed_or_cancelled_stores_nothing", "conc_quiesces_to_seq", "conc_quiesces_to_seq_reachable"]),
         ("LruLink", ["akey_eq", "seq_do_is_l_do", "quiescent_conc_is_sequential_lru", "quiescent_conc_is_functools", "quiescent_conc_then_sequential_is_functools"])],
 "C15": [("Decorator", ["call_projection", "call_projection_general", "cancelled_in_enter", "cancelled_in_body", "fresh_generators", "one_generator_per_call",
                       "projection_independent", "actions_commute", "sequential_calls", "sequential_calls_generator_based"])],
 "C12": [("CachedProperty", ["values_genuine", "lock_discipline", "failed_or_cancelled_caches_nothing", "computes_once_per_deletion", "computes_once",
                            "all_results_equal", "getter_mutex", "value_stable", "served_from_cache", "getter_runs_iff_not_cached",
                            "seq_recompute_after_del", "computes_once_nolock_refuted"])],
 "C07": [("Borrow", ["borrow_never_closes", "u_closed_counts", "only_exit_changes_closed", "delivered_always", "delivered_prefix_general", "owner_gets_next",
                    "closed_handle_is_dead", "reborrowed_from_closed_is_dead", "reborrowed_send_is_dead_refuted"])],
 "C08": [("Borrow", ["scope_keeps_alive", "close_on_scoped_is_noop", "outermost_exit_closes_once", "inner_exit_closes_only_itself",
                    "inner_exit_on_borrowed_closes_it_not_U", "neutral_context", "neutral_context_enter", "delivered_always"])],
 "C19": [("Adapters", ["any_iter_yields", "any_iter_shape_independent", "any_iter_lazy", "any_iter_outer_once", "any_iter_closes_async_source",
                      "await_each_yields", "await_each_lazy", "await_each_one_at_a_time", "apply_order", "apply_call_last_once",
                      "apply_positional_before_keyword", "apply_awaits_before_call"])],
 "C20": [("Retention", ["tee_buffer_is_lead", "tee_done_children_hold_nothing", "largest_fill_bound", "replace_lent_length", "merge_heads_bound",
                       "put_src_length", "drop_src_length", "fill_batch_bound"])],
 "C06": [("RegularTools", ["fault_transparent", "fault_outcome", "fault_prefix", "run_tool_regular"]), ("Static", ["handlers_only_protocol"])],
 "C18": [("RegularTools", ["fault_transparent", "run_tool_regular"]), ("ReleaseAll", ["tool_releases", "tool_releases_closed"])],
}
HEADER = """(* Property %s -- theorems only: each statement is restated here and closed by [exact] of the lemma
   proved in Proofs/, followed by Print Assumptions.  Generated by tools/gen_props.py. *)
From Coq Require Import List ZArith NArith Bool Arith Lia Sorting.Permutation Sorting.Sorted.
Import ListNotations.
Require Import V.Kernel.Values.
"""
CALC = ("Require Import V.Kernel.Monad V.Kernel.Fn V.Model.Builtins V.Model.Itertools V.Model.Heapq V.Model.Tool.\n"
        "Require Import V.Std.Filter V.Std.Builtins V.Std.Itertools1 V.Std.Multi V.Std.Heapq.\n")
PYL = CALC + "Require Import V.Model.Pyl V.Gen.PylSrc.\n"
MODELS = {"C01": PYL, "C02": PYL, "C04": CALC, "C05": PYL, "C06": CALC, "C18": CALC,
          "C07": "Require Import V.Model.Borrow.\n", "C08": "Require Import V.Model.Borrow.\n",
          "C09": "Require Import V.Model.Tee.\n", "C10": "Require Import V.Model.Lru.\n", "C11": "Require Import V.Model.LruConc V.Model.Lru V.Proofs.Lru V.Proofs.LruConc.\n",
          "C12": "Require Import V.Model.CachedProperty.\n", "C13": "Require Import V.Model.ContextManager.\n",
          "C14": "Require Import V.Model.ExitStack.\n", "C15": "Require Import V.Model.Decorator.\n", "C16": "Require Import V.Model.GroupBy.\n", "C19": "Require Import V.Model.Adapters.\n",
          "C20": "Require Import V.Kernel.Monad V.Model.Builtins V.Model.Itertools V.Model.Heapq V.Model.Tee V.Proofs.Tee.\n"}
def statement(mod, name):
    src = open(os.path.join(COQ, "Proofs", mod + ".v")).read()
    m = re.search(r"^(Theorem|Corollary|Lemma|Example|Fact)\s+%s\b(.*?)\n\s*Proof\." % re.escape(name), src, flags=re.S | re.M)
    if not m:
        raise SystemExit("statement of %s not found in %s" % (name, mod))
    return m.group(2).rstrip()
def main():
    for prop, groups in MAP.items():
        mods = []
        body = []
        for mod, names in groups:
            if mod not in mods:
                mods.append(mod)
            for n in names:
                st = statement(mod, n)
                body.append("Theorem %s_%s%s\nProof. first [ exact (@%s) | apply (@%s) ]. Qed.\nPrint Assumptions %s_%s.\n" % (prop, n, st, n, n, prop, n))
        extra = ["Regular", "RegularTools", "Release", "ReleaseChain", "ReleaseAll"] if prop in ("C04", "C05", "C06", "C18") else []
        allmods = [m for m in extra if m not in mods] + mods
        head = HEADER % prop
        if MODELS.get(prop) is PYL:
            # String first, so that List's length / ++ are the ones in force afterwards
            head = head.replace("From Coq Require Import List", "From Coq Require Import String.\nFrom Coq Require Import List", 1)
        out = head + MODELS.get(prop, "") + "Require Import " + " ".join("V.Proofs." + m for m in allmods) + ".\n\n" + "\n".join(body)
        open(os.path.join(COQ, "Props", prop + ".v"), "w").write(out)
        print(prop, len(body), "theorems")
main()
