#!/venv/bin/python
"""recheck_seeded.py [--all | <id> ...] [--checks Cxx,Cyy]: apply a stored seeded change to /repo, run the registered
quick checks of its property (plus the related ones), undo the change, and record the outcome in seeded/<id>/meta.json.
Never run while other checks are running: /repo is modified for the duration of each run."""
import json, os, subprocess, sys
SEEDED = "/verif/seeded"
EXTRA = {"C01": ["C09"], "C04": ["C09"], "C18": ["C16", "C08", "C09", "C11"], "C20": ["C09", "C19"], "C17": ["C19", "C18", "C14", "C03"], "C03": ["C14", "C02", "C19", "C01", "C06"], "C07": ["C08"], "C11": ["C10"],
         "C15": ["C13"], "C06": ["C16", "C02"], "C05": ["C16", "C09"], "C13": ["C15"], "C14": ["C03"]}


def sh(cmd, timeout=3000):
    p = subprocess.run(cmd, shell=True, capture_output=True, text=True, timeout=timeout)
    return p.returncode, p.stdout + p.stderr


def main():
    args = sys.argv[1:]
    checks = None
    if "--checks" in args:
        i = args.index("--checks")
        checks = args[i + 1].split(",")
        del args[i:i + 2]
    own_only = "--own" in args
    args = [a for a in args if a != "--own"]
    names = sorted(os.listdir(SEEDED)) if "--all" in args or not args else args
    names = [n for n in names if os.path.isdir(os.path.join(SEEDED, n))]
    for name in names:
        d = os.path.join(SEEDED, name)
        meta = json.load(open(os.path.join(d, "meta.json")))
        prop = meta["property"]
        rc, _ = sh("git -C /repo diff --quiet")
        assert rc == 0, "repo dirty"
        rc, out = sh("git -C /repo apply %s/patch.diff" % d)
        if rc != 0:
            print(name, "PATCH DOES NOT APPLY", out[:200])
            continue
        results = dict(meta.get("checks_run", {}))
        try:
            todo = checks or ([prop] if own_only else [prop] + EXTRA.get(prop, []))
            for c in todo:
                try:
                    rc, out = sh("/venv/bin/python /verif/check.py %s" % c, timeout=2400)
                except subprocess.TimeoutExpired:
                    results[c] = "timeout"
                    continue
                vio = [l for l in out.splitlines() if l.startswith("VIOLATION")]
                if rc == 1 and vio:
                    results[c] = "alarm (no-failing-input-found)" if all(v.rstrip().endswith("no-failing-input-found") for v in vio) else "alarm with failing input"
                elif rc == 0:
                    results[c] = "no alarm"
                else:
                    results[c] = "exit %d without VIOLATION line" % rc
        finally:
            sh("git -C /repo checkout -- . && git -C /repo clean -fdq")
        meta["checks_run"] = results
        json.dump(meta, open(os.path.join(d, "meta.json"), "w"), indent=1)
        print(name, results, flush=True)


if __name__ == "__main__":
    main()
