#!/venv/bin/python
"""Confirm every seeded change produced by the sub-agents (in a scratch worktree: tests pass with it, its demonstration
fails with it and passes without it), store it under /verif/seeded/<id>/, then run the registered quick checks against it
(applied to /repo, undone straight afterwards) and record which of them raise an alarm."""
import json, os, subprocess, sys, shutil
OUTS = [("/tmp/mut/out", ""), ("/tmp/mut/out2", "r2"), ("/tmp/mut/out3", "r3"), ("/tmp/mut/out4", "r4"), ("/tmp/mut/out5", "r5"), ("/tmp/mut/out6", "r6"), ("/tmp/mut/out7", "r7"), ("/tmp/mut/out8", "r8"), ("/tmp/mut/out9", "r9"), ("/tmp/mut/out10", "r10")]
WT = "/tmp/mut/confirm"
SEEDED = "/verif/seeded"
EXTRA = {"C01": ["C09"], "C04": ["C09"], "C18": ["C16", "C08", "C09", "C11"], "C20": ["C09", "C19"], "C17": ["C19", "C18", "C14", "C03"], "C03": ["C14", "C02", "C19", "C01", "C06"], "C07": ["C08"], "C11": ["C10"], "C15": ["C13"], "C06": ["C16", "C02"], "C05": ["C16", "C09"], "C13": ["C15"], "C14": ["C03"]}
def sh(cmd, cwd=None, timeout=3000):
    p = subprocess.run(cmd, shell=True, cwd=cwd, capture_output=True, text=True, timeout=timeout)
    return p.returncode, p.stdout + p.stderr
def main():
    only = sys.argv[1:]
    sh("git -C /repo worktree remove --force %s" % WT)
    rc, out = sh("git -C /repo worktree add -q --detach %s HEAD" % WT)
    assert rc == 0, out
    summary = []
    todo = []
    for OUT, tag in OUTS:
        if not os.path.isdir(OUT):
            continue
        for prop in sorted(os.listdir(OUT)):
            for m in sorted(os.listdir(os.path.join(OUT, prop))):
                todo.append((OUT, prop, m, "%s-%s%s" % (prop, tag, m)))
    for OUT, prop, m, name in todo:
        if True:
            if only and name not in only and prop not in only:
                continue
            d = os.path.join(OUT, prop, m)
            if not os.path.exists(os.path.join(d, "patch.diff")):
                continue
            meta = json.load(open(os.path.join(d, "meta.json"))) if os.path.exists(os.path.join(d, "meta.json")) else {}
            sh("git checkout -q -- . && git clean -fdq", cwd=WT)
            rc, out = sh("git apply %s/patch.diff" % d, cwd=WT)
            if rc != 0:
                rc, out = sh("patch -p1 -s -F3 < %s/patch.diff" % d, cwd=WT)
                sh("find . -name '*.orig' -delete; find . -name '*.rej' -delete", cwd=WT)
            if rc != 0:
                summary.append((name, "PATCH DOES NOT APPLY", ""))
                continue
            rc_t, out_t = sh("/venv/bin/python -m pytest -q -p no:cacheprovider -x 2>&1 | tail -1", cwd=WT)
            tests_ok = " passed" in out_t and "failed" not in out_t
            rc_d1, out_d1 = sh("PYTHONPATH=%s timeout 120 /venv/bin/python %s/demo.py" % (WT, d))
            rc_p, patch = sh("git diff", cwd=WT)
            sh("git checkout -q -- .", cwd=WT)
            rc_d0, out_d0 = sh("PYTHONPATH=%s timeout 120 /venv/bin/python %s/demo.py" % (WT, d))
            confirmed = tests_ok and rc_d1 != 0 and rc_d0 == 0
            if not confirmed:
                summary.append((name, "NOT CONFIRMED tests_ok=%s demo_with=%d demo_without=%d" % (tests_ok, rc_d1, rc_d0), ""))
                continue
            dest = os.path.join(SEEDED, name)
            os.makedirs(dest, exist_ok=True)
            open(os.path.join(dest, "patch.diff"), "w").write(patch)
            shutil.copy(os.path.join(d, "demo.py"), os.path.join(dest, "demo.py"))
            # run the checks against it
            props = [prop] + EXTRA.get(prop, [])
            results = {}
            rc, out = sh("git -C /repo diff --quiet")
            assert rc == 0, "repo dirty"
            rc, out = sh("git -C /repo apply %s/patch.diff" % dest)
            assert rc == 0, out
            try:
                for p in props:
                    rc, out = sh("cd /verif && timeout 900 /venv/bin/python check.py %s 2>/dev/null | grep -E '^VIOLATION' | head -3" % p, timeout=1000)
                    lines = [l for l in out.splitlines() if l.startswith("VIOLATION")]
                    results[p] = ("alarm" + (" (no-failing-input-found)" if lines and all("no-failing-input-found" in l for l in lines) else " with failing input")) if lines else "no alarm"
            finally:
                sh("git -C /repo checkout -- .")
            meta.update({"property": prop, "confirmed_by": "tools/confirm_seeded.py: applied to a scratch worktree of /repo HEAD; full test-suite: %s; demo.py exit with change: %d, without: %d" % (out_t.strip(), rc_d1, rc_d0),
                         "checks_run": results})
            json.dump(meta, open(os.path.join(dest, "meta.json"), "w"), indent=1)
            summary.append((name, "confirmed", results))
    sh("git -C /repo worktree remove --force %s" % WT)
    for s in summary:
        print(s)
main()
