#!/bin/bash
# usage: try_mutant.sh <patch.diff> <Cxx> [Cyy ...]   -- applies a seeded change to /repo, runs checks, reverts
patch=$1; shift
cd /repo || exit 2
git diff --quiet || { echo "repo dirty"; exit 2; }
if git apply --check "$patch" 2>/dev/null; then git apply "$patch"
elif patch -p1 --dry-run -F3 < "$patch" >/dev/null 2>&1; then patch -p1 -F3 -s < "$patch"
else echo "PATCH-DOES-NOT-APPLY $patch"; exit 3; fi
for p in "$@"; do
  out=$(cd /verif && timeout 1500 env ${DEV:+VERIF_DEV_SKIP_PROOFS=1} /venv/bin/python check.py $p 2>&1 | grep -E "VIOLATION|Traceback|Error" | head -3)
  echo "[$p] ${out:-no alarm}"
done
cd /repo && git checkout -- . && git clean -fdq -e '*.pyc' asyncstdlib >/dev/null 2>&1; find /repo -name "*.orig" -o -name "*.rej" | xargs -r rm -f
