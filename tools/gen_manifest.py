#!/venv/bin/python
"""Writes /verif/MANIFEST.json from the table below (kept in one place so that it stays valid)."""
import json
import os

ids = [json.loads(l)["id"] for l in open("/verif/properties.jsonl")]
TB = ("Trusted: Coq 8.16.1 kernel and vm_compute (no native_compute, no extraction); no axioms (Print Assumptions: closed under the global "
      "context for every theorem of the Props file); the correspondence harness (instrumented sources/callables, hand-driven coroutines, "
      "serialisation to Coq literals, comparison functions in Model/*Case.v); modelled, not verified: CPython's await/async-generator/aclose "
      "semantics and atomicity between suspension points, heapq and list.sort (abstract priority queue / stable sort), dict/set/OrderedDict/deque; "
      "item domain = objects with integer keys and comparison classes.")

CHECKS = {
 "C01": ("For every iterator tool the Coq model's full event trace (hence items, identities, order, ending) is proved equal to an independently written stdlib specification for all inputs (Props/C01.v); the model is tied to /repo by evaluating it in Coq on the traces the implementation just produced, the specification is tied to CPython the same way, and the CPython namesake is the direct oracle on every explored input. tee children are covered by C09's model.",
         "Rocq/Coq proof (per-tool induction: model trace = stdlib spec) + vm_compute correspondence impl<->model and CPython<->spec", "6 C01", "coq-calculus"),
 "C02": ("Value theorems for min/max (first extremal element, default untouched, ValueError/TypeError), all/any, sum, list, tuple, set, dict, reduce, sorted (stable, both directions), nlargest/nsmallest (= first n of the stable sort, all n) over all inputs (Props/C02.v); tie and oracle as for C01 plus an argument-mutation check and direct probes outside the item domain (strings, floats, one-shot iterators).",
         "Rocq/Coq proof (induction, heap invariant, stable-sort spec) + vm_compute correspondence + CPython oracle", "6 C02", "coq-calculus"),
 "C03": ("awaitify_faithful / awaitify_flavour_independent: for every flavour of callable and every call history (including failing first calls) the wrapper invokes the callable exactly once per call and delivers its result or exception; aiter yields the same items for every kind of iterable (Props/C03.v). The calculus models of C01/C02 have no notion of flavour at all. Tied by re-running every generated C01/C02 case under random assignments of five iterable flavours and four callable flavours (mixed within one call) against the all-async run, the awaitify wrapper against the model in Coq, ExitStack exit callables in every flavour, and a probe of every public name for an awaitable / async iterator / async context manager result.",
         "Rocq/Coq proof (state machine of the awaitify wrapper, dispatch lemma) + flavour-matrix differential on the implementation", "6 C03", "coq-machines"),
 "C04": ("tool_releases / tool_releases_closed: for every valid tool, every input and every single fault position and exception (or consumer close at a yield) every source is exhausted or has had aclose invoked when the run ends (Props/C04.v), by generic closure lemmas of the calculus; groupby/tee handle clauses are theorems of C16/C09. Tied to /repo by correspondence on every fault/close position of each generated case and the release predicate evaluated on the real instrumented sources.",
         "Rocq/Coq proof (regularity/closure lemmas, scoped_releases, close_all_releases) + exhaustive per-case fault enumeration with vm_compute correspondence", "6 C04", "coq-calculus"),
 "C05": ("The full interleaved trace of pulls, end detections, calls and yields of every iterator tool and all/any is proved equal to the stdlib trace specification for all inputs, and fault_prefix lifts it to every number of consumer steps (Props/C05.v); tied by comparing, after every consumer step count, implementation log vs CPython log and vs the model in Coq.",
         "Rocq/Coq proof (trace equality + prefix determinism) + per-step vm_compute correspondence", "6 C05", "coq-calculus"),
 "C06": ("fault_transparent: for every tool, input, fault index k and exception object, the run ends with that very exception, having followed the fault-free trace up to the failing use and emitting only aclose events afterwards (Props/C06.v); tied by enumerating every fault position of each generated case on the implementation (identity checked with `is`) and over the CPython counterpart's own use sequence.",
         "Rocq/Coq proof (two-run regularity relation closed under all combinators) + exhaustive per-case fault enumeration", "6 C06", "coq-calculus"),
 "C07": ("Invariants over arbitrary operation histories of a model of _BorrowedAsyncIterator handles (nesting through re-borrowing) over one underlying iterator (Props/C07.v): the underlying iterator is never closed by any handle operation, everything delivered through any handle or to the owner is a prefix of its items in order, a closed handle yields nothing and no longer advances it; tied by random and directed histories on real handles over async-generator and class-based iterators with every capability mix, real tools as closing clients.",
         "Rocq/Coq proof (invariant by induction over operation lists) + vm_compute correspondence on operation histories", "6 C07", "coq-machines"),
 "C08": ("The same machine with scopes (Props/C08.v): inside any nesting of scoped_iter blocks nothing closes the underlying iterator, inner exits end only their own handle, the outermost exit closes it exactly once, afterwards the handle yields nothing; tied by histories with nested scopes and all exit kinds, plus blocks of real tools compared with the stdlib tools over a shared synchronous iterator.",
         "Rocq/Coq proof (invariant over histories with a scope stack) + vm_compute correspondence + shared-iterator oracle with the stdlib tools", "6 C08", "coq-machines"),
 "C19": ("any_iter_yields / any_iter_shape_independent / any_iter_lazy, await_each_lazy / await_each_one_at_a_time, apply_order and its consequences for all items, shapes and numbers of consumer steps (Props/C19.v); the event traces of the real adapters are compared with the model for all 12 shapes x lengths 0..6 x every step count (exhaustive over the quantifier's domain), apply for all positional/keyword splits up to 4, sync on six kinds of callables.",
         "Rocq/Coq proof (induction over item lists) + exhaustive vm_compute correspondence over the quantified domain", "6 C19", "coq-machines"),
 "C09": ("Inductive invariant over arbitrary schedules of a small-step model of tee_peer/_TeePeer (Props/C09.v): each live child has yielded-or-buffered exactly what was fetched, outputs are prefixes of the source, mutual exclusion on the source with a lock, closed children deregistered, source closed exactly when the last child is done, cancellation releases the lock; the model is compared after every action with the implementation under a hand-driven scheduler that enumerates interleavings exhaustively for small configurations.",
         "Rocq/Coq proof (invariant by induction over schedule lists) + exhaustive small-scope schedule enumeration with per-step vm_compute correspondence", "6 C09", "coq-machines"),
 "C10": ("key_classes (argument patterns distinguished exactly as functools._make_key does) and lru_refines (outputs, invocations and statistics equal the abstract LRU specification after every operation, for all maxsize/typed/histories) plus corollaries (Props/C10.v); three-way differential on every generated history: asyncstdlib, Coq model, functools.lru_cache.",
         "Rocq/Coq proof (refinement to an abstract LRU, key-class equivalence) + three-way vm_compute correspondence", "6 C10", "coq-machines"),
 "C11": ("Invariant over arbitrary schedules of a small-step model of overlapping cached calls (Props/C11.v): entries never exceed maxsize, keys unique, every stored and returned value was produced for an equal key, misses = invocations and hits+misses = calls started (without cache_clear), failed/cancelled calls store nothing, and from a quiescent state a call behaves as the sequential cache of C10; compared after every action with the real lru_cache under the hand-driven scheduler (exhaustive interleavings of small configurations, random larger ones, cancellation at suspension points).",
         "Rocq/Coq proof (invariant by induction over schedule lists; quiescence = sequential step) + schedule enumeration with per-step vm_compute correspondence", "6 C11", "coq-machines"),
 "C12": ("Invariants over arbitrary schedules of a small-step model of the descriptor, the placeholder and its lock (Props/C12.v): every awaiter receives a value some getter run returned, a lock is held only inside the getter (cancellation and failure release it), with a lock and no deletion at most one successful computation and a stable value, at most one more per deletion, sequential semantics (getter runs iff no value is cached); compared after every action with the real cached_property under the hand-driven scheduler.",
         "Rocq/Coq proof (invariant by induction over schedule lists) + schedule enumeration with per-step vm_compute correspondence", "6 C12", "coq-machines"),
 "C13": ("aexit_equal_partial / aenter_equal: for all generator responses and block outcomes (other than GeneratorExit) the __aexit__ classification of asyncstdlib equals CPython 3.12's, with the classification lemmas and the GeneratorExit difference (Props/C13.v); all 90 generator programs x 8 block outcomes are run against asyncstdlib.contextmanager, contextlib.asynccontextmanager and the model (exhaustive).",
         "Rocq/Coq proof (case analysis over all generator responses) + exhaustive program x outcome correspondence", "6 C13", "coq-machines"),
 "C14": ("unwind_nested (the unwinding loop equals the recursive semantics of nested with statements: outcome and the exception handed to each exit) and the run-once theorems over arbitrary histories with pop_all (Props/C14.v); tied by running random stacks against real nested `async with` statements and random histories against contextlib.AsyncExitStack, both compared with the model in Coq.",
         "Rocq/Coq proof (fold = nested-with recursion; permutation/NoDup over histories) + vm_compute correspondence + nested-with and AsyncExitStack oracles", "6 C14", "coq-machines"),
 "C15": ("For all schedules of concurrent calls of a decorated coroutine function (Props/C15.v): each call's projection of the global event log is enter; body; exit with the body's exception; result, generator-based managers use a fresh generator per call, and a call's projection is independent of the other calls' actions (isolation); the global log of the real decorator under the hand-driven scheduler is compared with the model for every explored interleaving.",
         "Rocq/Coq proof (projection/commutation over schedule lists) + schedule enumeration with vm_compute correspondence", "6 C15", "coq-machines"),
 "C16": ("groupby_refines: for all key functions, items and operation sequences the transliterated implementation state machine yields exactly what the positional itertools.groupby specification yields; stale groups stop, items come out as a subsequence, closing works from every state (Props/C16.v); tied by random and bounded-exhaustive operation sequences run on asyncstdlib.groupby and itertools.groupby and compared with model and spec in Coq.",
         "Rocq/Coq proof (simulation between implementation machine and positional spec) + vm_compute correspondence", "6 C16", "coq-machines"),
 "C17": ("await_graph_closed / await_impls_transparent / asyncio_only_detection are decided by computation over Gen/AwaitGraph.v, which a fail-closed extractor regenerates from the library source on every run: every await / async for / async with site awaits a user-supplied awaitable or a library coroutine, every __await__ delegates, asyncio is imported only for coroutine-function detection; suspends_only_where_users_suspend states what the closed graph means (Props/C17.v). Tied dynamically by driving every tool, aggregation and stateful operation by hand with user awaitables that yield unique tokens and check token-specific replies and thrown exceptions at every suspension, with asyncio's loop accessors poisoned, and zero suspensions for synchronous arguments. Partial: that `await` forwards yields/sends/throws unchanged is PEP 492 semantics (trusted).",
         "Rocq/Coq proof by computation over tables extracted from the source on every run + token/reply pass-through driving", "6 C17", "coq-machines"),
 "C18": ("Cancellation = a BaseException thrown at an arbitrary use: fault_transparent and tool_releases instantiated with it (Props/C18.v) for the iterator tools and aggregations; tied by throwing into the hand-driven coroutine at every suspension point of executions whose sources (pull and aclose) and callables all suspend, then closing the iterator and checking release on the real sources. The tee / lru_cache / cached_property / ExitStack / scoped_iter clauses are covered by the machines of C09/C11/C12/C14/C08.",
         "Rocq/Coq proof (regularity with BaseException faults + release) + cancellation injected at every suspension point", "6 C18", "coq-calculus"),
}
NOT_YET = "check not built yet (build round in progress); see DESIGN.md section 6"


def chk(pid, text, tech, ref, engine):
    return {"property_id": pid, "quick_cmd": "/venv/bin/python /verif/check.py %s --tier quick" % pid,
            "thorough_cmd": "/venv/bin/python /verif/check.py %s --tier thorough" % pid,
            "evidence_file": "/verif/evidence/%s.json" % pid, "replay_cmd_template": "/venv/bin/python /verif/check.py %s --replay {path}" % pid,
            "engine": engine, "level_claimed": {"category": "proof", "text": text, "design_ref": ref}, "level_note": TB, "technique": tech}


def main():
    claimed = [p for p in sorted(CHECKS) if os.path.exists("/verif/coq/Props/%s.v" % p)]
    checks = [chk(p, *CHECKS[p]) for p in claimed]
    m = {"version": 1,
         "setup_cmd": "/venv/bin/python /verif/harness/extract.py && cd /verif/coq && coq_makefile -f _CoqProject -o Makefile && timeout 3000 make -j16",
         "hooks": {"guard": "ASYNCSTDLIB_VERIF", "enable": "no hooks: all instrumentation is harness-side (private attributes are only read)",
                   "baseline_off_cmd": "cd /repo && /venv/bin/python -m pytest -q -p no:cacheprovider --timeout=900", "source_commits": [], "add_only": True},
         "engines": [{"name": "coq-calculus", "path": "/verif/coq", "serves_properties": [p for p in claimed if CHECKS[p][3] == "coq-calculus"],
                      "kind_free_text": "Rocq/Coq 8.16.1: executable generator-calculus models, stdlib specifications, theorems; vm_compute evaluation for the correspondence"},
                     {"name": "coq-machines", "path": "/verif/coq", "serves_properties": [p for p in claimed if CHECKS[p][3] == "coq-machines"],
                      "kind_free_text": "Rocq/Coq 8.16.1: state machines of handles / caches / context managers with abstract specifications, invariants over histories and schedules"}],
         "checks": checks,
         "not_applicable": [{"property_id": i, "reason": NOT_YET} for i in ids if i not in claimed],
         "notes": "fix: commits and known findings are listed in /verif/known_findings.json; DESIGN.md describes models, theorems, trusted base and which checks catch which seeded changes"}
    json.dump(m, open("/verif/MANIFEST.json", "w"), indent=1)
    print("claimed:", " ".join(claimed))


main()
