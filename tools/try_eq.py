#!/venv/bin/python
"""try_eq.py <dir-with-numbered-patches>: behaviour-preserving refactorings (written by a sub-agent that saw nothing of
/verif) are applied to /repo one at a time; all 20 quick checks run against each; the outcome is recorded in
/verif/seeded_eq/<n>/meta.json. A check that reports a failing input on such a change is a false alarm of the machinery;
`no-failing-input-found` means a proof obligation or the correspondence broke although the search found no witness
(which the brief requires to be reported). Never run while other checks are running."""
import json, os, shutil, subprocess, sys
from concurrent.futures import ThreadPoolExecutor
SRC = sys.argv[1] if len(sys.argv) > 1 else "/tmp/mut/out_eq"
DEST = "/verif/seeded_eq" + ("2" if SRC.rstrip("/").endswith("out_eq2") else "")
PROPS = ["C%02d" % i for i in range(1, 21)]


def sh(cmd, timeout=3000):
    p = subprocess.run(cmd, shell=True, capture_output=True, text=True, timeout=timeout)
    return p.returncode, p.stdout + p.stderr


def run_check(c):
    try:
        rc, out = sh("/venv/bin/python /verif/check.py %s" % c, timeout=2400)
    except subprocess.TimeoutExpired:
        return c, "timeout", ""
    vio = [l for l in out.splitlines() if l.startswith("VIOLATION")]
    if rc == 1 and vio:
        kind = "alarm (no-failing-input-found)" if all(v.rstrip().endswith("no-failing-input-found") for v in vio) else "alarm with failing input"
        detail = ""
        for v in vio[:1]:
            path = v.split("replay=")[1].split()[0]
            try:
                detail = json.dumps(json.load(open(path)))[:600]
            except Exception as e:  # noqa
                detail = str(e)
        return c, kind, detail
    if rc == 0:
        return c, "no alarm", ""
    return c, "exit %d without VIOLATION line" % rc, out[-300:]


def main():
    only = sys.argv[2:]
    for n in sorted(os.listdir(SRC)):
        d = os.path.join(SRC, n)
        if not os.path.exists(os.path.join(d, "patch.diff")) or (only and n not in only):
            continue
        rc, _ = sh("git -C /repo diff --quiet")
        assert rc == 0, "repo dirty"
        rc, out = sh("git -C /repo apply --3way %s/patch.diff 2>&1 || (cd /repo && patch -p1 -s -F3 < %s/patch.diff)" % (d, d))
        sh("cd /repo && git reset -q && find . -name '*.orig' -delete -o -name '*.rej' -delete")
        if rc != 0:
            print(n, "PATCH DOES NOT APPLY", out[:200])
            sh("git -C /repo checkout -- . && git -C /repo clean -fdq")
            continue
        rc_t, out_t = sh("cd /repo && /venv/bin/python -m pytest -q -p no:cacheprovider -x 2>&1 | tail -1")
        results, details = {}, {}
        try:
            with ThreadPoolExecutor(int(os.environ.get("TRY_EQ_JOBS", "6"))) as ex:
                for c, kind, det in ex.map(run_check, PROPS):
                    results[c] = kind
                    if det:
                        details[c] = det
        finally:
            rc_p, patch = sh("git -C /repo diff")
            sh("git -C /repo checkout -- . && git -C /repo clean -fdq")
        dest = os.path.join(DEST, n)
        os.makedirs(dest, exist_ok=True)
        open(os.path.join(dest, "patch.diff"), "w").write(patch)
        meta = json.load(open(os.path.join(d, "meta.json"))) if os.path.exists(os.path.join(d, "meta.json")) else {}
        meta["tests"] = out_t.strip()
        meta["checks_run"] = results
        meta["alarm_details"] = details
        json.dump(meta, open(os.path.join(dest, "meta.json"), "w"), indent=1)
        print(n, out_t.strip(), {c: k for c, k in results.items() if k != "no alarm"}, flush=True)


if __name__ == "__main__":
    main()
