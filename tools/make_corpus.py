#!/venv/bin/python
"""Writes corpus/calc.jsonl: the witnesses of the defects fixed in /repo (and of the known findings) for the
generator-calculus checks. They run first on every check, so a returning defect is reported again."""
import sys, json
sys.path.insert(0, "/verif/harness"); sys.path.insert(0, "/repo")
from gencalc import Obj, Case, FILL
from calc_checks import encode_case
O = Obj
out = []
def add(props, case, note):
    d = encode_case(case, props); d["note"] = note; out.append(d)
A = [O(1, 5), O(2, 5)]; B = [O(3, 5), O(4, 5)]
add(["C01", "C05"], Case("merge", {"n": 2, "key": None, "reverse": True}, [A, B]), "F-merge-rev: ties under reverse=True come from the earlier iterable first")
add(["C01", "C05"], Case("merge", {"n": 3, "key": ("KeyDiv", 2), "reverse": True}, [[O(1, 3), O(2, 2)], [O(3, 3), O(4, 1)], [O(5, 2)]]), "F-merge-rev with key")
X = [O(1, 5), O(2, 7), O(3, 7), O(4, 5)]
add(["C02"], Case("max", {"key": None, "default": None}, [X]), "F-max-last: first maximum")
add(["C02"], Case("max", {"key": ("KeyDiv", 2), "default": None}, [X]), "F-max-last with key")
add(["C02"], Case("min", {"key": None, "default": None}, [X]), "first minimum")
add(["C02", "C06"], Case("min", {"key": ("KeyDiv", 2), "default": (O(9, 1),)}, [[]]), "F-key-default: default untouched, key not called")
add(["C02", "C06"], Case("max", {"key": ("NegKey",), "default": (O(9, 1),)}, [[]]), "F-key-default")
add(["C02"], Case("sum", {"start": [O(1, 1)]}, [[[O(2, 2)], [O(3, 3)]]]), "F-sum-mutates: list start must not be extended in place")
Y = [O(i, k) for i, k in enumerate([3, 1, 3, 2, 1, 3, 2, 1])]
for n in (2, 3, 4, 8, 10):
    add(["C02"], Case("nlargest", {"n": n, "key": None}, [Y]), "F-nlargest-ties")
    add(["C02"], Case("nsmallest", {"n": n, "key": None}, [Y]), "F-nlargest-ties")
    add(["C02"], Case("nsmallest", {"n": n, "key": ("KeyDiv", 2)}, [Y]), "F-nlargest-ties with key")
add(["C05", "C06"], Case("zip", {"n": 2, "strict": True}, [[], []]), "F-repoll zip strict: first iterable not polled again")
add(["C05", "C06"], Case("zip", {"n": 3, "strict": True}, [[], [], [O(1, 1)]]), "F-repoll zip strict")
add(["C05", "C06"], Case("dropwhile", {"f": ("TruthMod", 1, 0)}, [[O(1, 1), O(2, 2)]]), "F-repoll dropwhile: exhausted while dropping")
add(["C05", "C06"], Case("pairwise", {}, [[]]), "F-repoll pairwise: empty input polled once")
add(["C05", "C06"], Case("islice", {"args": (3, 5)}, [[O(1, 1)]]), "F-repoll islice: ended before start")
add(["C05", "C06"], Case("islice", {"args": (3, None)}, [[O(1, 1), O(2, 2), O(3, 3)]]), "islice start == length")
add(["C05", "C06"], Case("batched", {"n": 2, "strict": False}, [[O(1, 1), O(2, 2), O(3, 3)]]), "known finding: batched trailing poll")
add(["C04", "C18"], Case("merge", {"n": 3, "key": None, "reverse": False}, [[O(1, 1)], [O(2, 2)], [O(3, 3)]]), "F-merge-head-leak: every fault position incl. head pulls")
add(["C04", "C18"], Case("merge", {"n": 2, "key": ("KeyDiv", 2), "reverse": False}, [[O(1, 1), O(2, 3)], [O(3, 2)]]), "F-merge-head-leak with key")
add(["C04", "C18"], Case("zip", {"n": 3, "strict": False}, [[O(1, 1), O(2, 2)], [O(3, 1)], [O(4, 1), O(5, 1)]]), "F-cleanup-cancel: fault inside one aclose must not skip the others")
add(["C04", "C18"], Case("zip_longest", {"n": 3, "fill": None}, [[O(1, 1), O(2, 2)], [O(3, 1)], [O(4, 1), O(5, 1)]]), "F-cleanup-cancel")
add(["C04", "C18"], Case("chain", {"n": 3}, [[O(1, 1)], [O(2, 2)], [O(3, 3)]]), "F-chain-fail-leak / F-cleanup-cancel")
add(["C04", "C18"], Case("map", {"n": 2, "f": ("Sum",)}, [[O(1, 1), O(2, 2)], [O(3, 1), O(4, 1)]]), "F-cleanup-cancel via map")
add(["C04", "C18"], Case("sum", {"start": 0}, [[O(1, 1), [O(2, 2)], O(3, 3)]]), "F-agg-unscoped: TypeError in the fold must release the source")
add(["C04", "C18"], Case("set", {}, [[O(1, 1), [O(2, 2)], O(3, 3)]]), "F-agg-unscoped: unhashable")
add(["C04", "C18"], Case("dict", {}, [[(O(1, 1), O(2, 2)), (O(3, 3),)]]), "F-agg-unscoped: unpack error")
add(["C04", "C18"], Case("sorted", {"key": ("KeyDiv", 2), "reverse": False}, [[O(1, 1), O(2, 2), O(3, 0)]]), "F-agg-unscoped: key fails")
add(["C04", "C18"], Case("list", {}, [[O(1, 1), O(2, 2)]]), "F-agg-unscoped")
add(["C04", "C18"], Case("tuple", {}, [[O(1, 1), O(2, 2)]]), "F-agg-unscoped")
add(["C04", "C18"], Case("islice", {"args": (1, 3)}, [[O(1, 1), O(2, 2), O(3, 3), O(4, 4)]]), "F-abandoned-inner-gen (islice)")
add(["C04", "C18"], Case("compress", {}, [[O(1, 1), O(2, 2), O(3, 3)], [O(4, 1), O(5, 0), O(6, 1)]]), "F-abandoned-inner-gen (compress)")
with open("/verif/corpus/calc.jsonl", "w") as f:
    for d in out:
        f.write(json.dumps(d) + "\n")
print(len(out), "corpus cases")
