From Coq Require Import List ZArith Bool Lia.
Import ListNotations.
Require Import K G.

Lemma wfM_fuel {A} : wfM (fun w => (@Fuel A, w)).
Proof. split; cbn; auto. - intros w; exists []; reflexivity.
  - intros w wf k e Hw Hf Hs. left. exists k. cbn. auto. Qed.

Lemma wfM_get_src i : wfM (get_src i).
Proof. split; cbn; auto. - intros w; exists []; reflexivity.
  - intros w wf k e Hw Hf [Hs Hl]. left. exists k. cbn. rewrite Hs. repeat split; auto. Qed.

Lemma wfM_set_src i s : wfM (set_src i s).
Proof. split; cbn; auto. - intros w; exists []; reflexivity.
  - intros w wf k e Hw Hf [Hs Hl]. left. exists k. cbn. rewrite Hs. repeat split; auto. Qed.

Lemma wfM_pull i : wfM (pull i).
Proof.
  unfold pull. apply wfM_bind; [apply wfM_emit|intros _].
  apply wfM_bind; [apply wfM_use|intros _].
  apply wfM_bind; [apply wfM_get_src|intros s].
  destruct (st s), (items s); repeat (apply wfM_bind; [|intros _]);
    try apply wfM_emit; try apply wfM_set_src; try apply wfM_ret.
Qed.

Lemma wfM_for_each_fuel i (body : val -> M unit) :
  (forall x, wfM (body x)) -> forall n, wfM (for_each_fuel n i body).
Proof.
  intros Hb n. induction n as [|n IH]; cbn [for_each_fuel].
  - apply wfM_fuel.
  - apply wfM_bind; [apply wfM_pull|intros [x|]]; [|apply wfM_ret].
    apply wfM_bind; [apply Hb | intros _; exact IH].
Qed.

Lemma wfM_call f impl a : wfM (call f impl a).
Proof. unfold call. repeat (apply wfM_bind; [|intros _]); try apply wfM_emit; try apply wfM_use; apply wfM_ret. Qed.

(* a whole tool body: derivation only, no induction *)
Lemma wfM_filter_body p yield_ (Hy : forall v, wfM (yield_ v)) n :
  wfM (for_each_fuel n 0 (fun item => r <- call 0 p [item] ;; if truthy r then yield_ item else ret tt)).
Proof.
  apply wfM_for_each_fuel. intros x. apply wfM_bind; [apply wfM_call|intros r].
  destruct (truthy r); [apply Hy | apply wfM_ret].
Qed.
Print Assumptions wfM_filter_body.
