From Coq Require Import List ZArith Bool Lia.
Import ListNotations.
Require Import K.

Fixpoint filter_spec (p : list val -> val) (xs : list val) : list event :=
  match xs with
  | [] => [EPull 0; EEnd 0]
  | x :: xs' => [EPull 0; EItem 0 x; ECall 0 [x]] ++ (if truthy (p [x]) then [EYield x] else []) ++ filter_spec p xs'
  end.

Definition w1 (xs : list val) (lg : list event) := {| srcs := [{| items := xs; st := Open |}]; log := lg; fault := None |}.

(* step lemmas: the interface later proofs depend on *)
Lemma bind_ok {A B} (m : M A) (f : A -> M B) w a w' : m w = (Ok a, w') -> bind m f w = f a w'.
Proof. unfold bind; intros ->; reflexivity. Qed.
Lemma pull_cons x xs lg : pull 0 (w1 (x :: xs) lg) = (Ok (Some x), w1 xs (EItem 0 x :: EPull 0 :: lg)).
Proof. reflexivity. Qed.
Lemma pull_nil lg : pull 0 (w1 [] lg) = (Ok None, {| srcs := [{| items := []; st := Exhausted |}]; log := EEnd 0 :: EPull 0 :: lg; fault := None |}).
Proof. reflexivity. Qed.
Lemma call_ok f impl a xs lg : call f impl a (w1 xs lg) = (Ok (impl a), w1 xs (ECall f a :: lg)).
Proof. reflexivity. Qed.
Lemma yield_ok v xs lg : yield_to 0 v (w1 xs lg) = (Ok tt, w1 xs (EYield v :: lg)).
Proof. reflexivity. Qed.

Lemma for_each_filter p :
  forall xs n lg, length xs < n ->
  for_each_fuel n 0 (fun item => r <- call 0 p [item] ;; if truthy r then yield_to 0 item else ret tt) (w1 xs lg)
  = (Ok tt, {| srcs := [{| items := []; st := Exhausted |}]; log := rev (filter_spec p xs) ++ lg; fault := None |}).
Proof.
  induction xs as [|x xs IH]; intros n lg Hn; destruct n as [|n]; try (simpl in Hn; lia).
  - reflexivity.
  - cbn [for_each_fuel].
    rewrite (bind_ok _ _ _ _ _ (pull_cons x xs lg)).
    rewrite (bind_ok _ _ _ (tt) (w1 xs ((if truthy (p [x]) then [EYield x] else []) ++ ECall 0 [x] :: EItem 0 x :: EPull 0 :: lg))).
    + rewrite IH by (simpl in Hn; lia). f_equal. f_equal.
      cbn [filter_spec]. destruct (truthy (p [x])); cbn; rewrite ?rev_app_distr; cbn; rewrite <- ?app_assoc; reflexivity.
    + rewrite (bind_ok _ _ _ _ _ (call_ok 0 p [x] xs _)).
      destruct (truthy (p [x])); [apply yield_ok | reflexivity].
Qed.

Theorem filter_functional p xs :
  let '(o, w) := run (a_filter p) (mkw xs None) in
  o = Ok tt /\ rev (log w) = filter_spec p xs ++ [EClose 0].
Proof.
  unfold run, a_filter, scoped, finally, for_each, mkw. cbn [srcs nth items].
  change ({| srcs := [{| items := xs; st := Open |}]; log := []; fault := None |}) with (w1 xs []).
  rewrite for_each_filter by lia.
  cbn. split; [reflexivity|]. rewrite app_nil_r. cbn. rewrite rev_involutive. reflexivity.
Qed.
Print Assumptions filter_functional.

Definition released (i : nat) (w : world) : Prop :=
  match st (nth i (srcs w) {| items := []; st := Closed |}) with Open => False | _ => True end.
Lemma scoped_releases {A} i (body : M A) w : i < length (srcs (snd (body w))) -> released i (snd (scoped i body w)).
Proof.
  unfold scoped, finally, close, bind, get_src, emit, set_src, released. destruct (body w) as [o w']. cbn. intros Hi.
  rewrite app_nth2; rewrite firstn_length_le by lia; [|lia]. rewrite Nat.sub_diag. cbn.
  destruct (st (nth i (srcs w') _)); exact I.
Qed.
