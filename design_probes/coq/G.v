From Coq Require Import List ZArith Bool Lia.
Import ListNotations.
Require Import K.

Definition same (w wf : world) := srcs w = srcs wf /\ log w = log wf.
Definition nc (l : list event) := filter (fun e => match e with EClose _ => false | _ => true end) l.
Definition earlier (lf l : list event) := exists d, nc l = d ++ nc lf.
Lemma earlier_refl l : earlier l l. Proof. exists []; reflexivity. Qed.
Lemma earlier_trans a b c : earlier a b -> earlier b c -> earlier a c.
Proof. intros [d1 H1] [d2 H2]. exists (d2 ++ d1). rewrite H2, H1, app_assoc. reflexivity. Qed.
Lemma earlier_ext d l : earlier l (d ++ l).
Proof. exists (nc d). unfold nc. apply filter_app. Qed.

Definition regular {A} (m : M A) : Prop :=
  forall w wf k e, fault w = None -> fault wf = Some (k, e) -> same w wf ->
    (exists k', fault (snd (m wf)) = Some (k', e) /\ fst (m wf) = fst (m w) /\ same (snd (m w)) (snd (m wf)))
    \/ (fault (snd (m wf)) = None /\ fst (m wf) = Exn e /\ earlier (log (snd (m wf))) (log (snd (m w)))).

Record wfM {A} (m : M A) : Prop := {
  wf_nofault : forall w, fault w = None -> fault (snd (m w)) = None;
  wf_extends : forall w, exists d, log (snd (m w)) = d ++ log w;
  wf_regular : regular m }.

Lemma wfM_ret {A} (a : A) : wfM (ret a).
Proof. split; cbn; auto. - intros w; exists []; reflexivity.
  - intros w wf k e Hw Hf Hs. left. exists k. cbn. auto. Qed.
Lemma wfM_emit ev : wfM (emit ev).
Proof. split; cbn; auto. - intros w; exists [ev]; reflexivity.
  - intros w wf k e Hw Hf [Hs Hl]. left. exists k. cbn. repeat split; cbn; congruence. Qed.
Lemma wfM_use : wfM use.
Proof. split.
  - intros w Hw. unfold use. rewrite Hw. assumption.
  - intros w. exists []. unfold use. destruct (fault w) as [[[|n] e]|]; reflexivity.
  - intros w wf k e Hw Hf [Hs Hl]. unfold use. rewrite Hw, Hf. destruct k; cbn.
    + right. repeat split. rewrite Hl. apply earlier_refl.
    + left. exists k. repeat split; assumption.
Qed.

Lemma wfM_bind {A B} (m : M A) (f : A -> M B) : wfM m -> (forall a, wfM (f a)) -> wfM (bind m f).
Proof.
  intros [Hn He Hr] Hf. split.
  - intros w Hw. unfold bind. specialize (Hn w Hw). destruct (m w) as [[a| |] w1]; cbn in *; auto.
    apply (wf_nofault _ (Hf a)); assumption.
  - intros w. unfold bind. destruct (He w) as [d Hd]. destruct (m w) as [[a| |] w1]; cbn in *; eauto.
    destruct (wf_extends _ (Hf a) w1) as [d2 Hd2]. exists (d2 ++ d). rewrite Hd2, Hd, app_assoc. reflexivity.
  - intros w wf k e Hw Hfl Hs. unfold bind.
    specialize (Hr w wf k e Hw Hfl Hs). specialize (Hn w Hw). 
    destruct (m w) as [o w1], (m wf) as [of wf1]. cbn in *.
    destruct Hr as [(k' & Hk' & -> & Hs1) | (Hnn & -> & Hea)].
    + destruct o as [a| |]; cbn.
      * apply (wf_regular _ (Hf a) w1 wf1 k' e); assumption.
      * left; exists k'; auto.
      * left; exists k'; auto.
    + cbn. right. repeat split; auto.
      destruct o as [a| |]; cbn; auto.
      destruct (wf_extends _ (Hf a) w1) as [d Hd]. rewrite Hd.
      eapply earlier_trans; [eassumption | apply earlier_ext].
Qed.

(* cleanup code: only close events, never fails, never touches the fault *)
Definition cleanup (fin : M unit) : Prop :=
  forall w, fst (fin w) = Ok tt /\ fault (snd (fin w)) = fault w /\ nc (log (snd (fin w))) = nc (log w)
            /\ (exists d, log (snd (fin w)) = d ++ log w)
            /\ (forall w2, same w w2 -> same (snd (fin w)) (snd (fin w2))).

Lemma wfM_finally {A} (m : M A) fin : wfM m -> cleanup fin -> wfM (finally m fin).
Proof.
  intros [Hn He Hr] Hc. split.
  - intros w Hw. unfold finally. specialize (Hn w Hw). destruct (m w) as [o w1]. cbn in *.
    destruct (Hc w1) as (Ho & Hf & _). destruct (fin w1) as [o2 w2]. cbn in *. subst o2. cbn. congruence.
  - intros w. unfold finally. destruct (He w) as [d Hd]. destruct (m w) as [o w1]. cbn in *.
    destruct (Hc w1) as (Ho & _ & _ & [d2 Hd2] & _). destruct (fin w1) as [o2 w2]. cbn in *. subst o2. cbn.
    exists (d2 ++ d). rewrite Hd2, Hd, app_assoc. reflexivity.
  - intros w wf k e Hw Hfl Hs. unfold finally.
    specialize (Hr w wf k e Hw Hfl Hs). destruct (m w) as [o w1], (m wf) as [of wf1]. cbn in *.
    destruct (Hc w1) as (Ho1 & Hf1 & Hn1 & _ & Hs1). destruct (Hc wf1) as (Ho2 & Hf2 & Hn2 & _ & _).
    specialize (Hs1 wf1).
    destruct (fin w1) as [o1 w2], (fin wf1) as [o2 wf2]. cbn in *. subst o1 o2. cbn.
    destruct Hr as [(k' & Hk' & -> & Hss) | (Hnn & -> & Hea)].
    + left. exists k'. repeat split; try congruence; apply Hs1; assumption.
    + right. repeat split; try congruence. destruct Hea as [d Hd]. exists d. congruence.
Qed.
Print Assumptions wfM_finally.
