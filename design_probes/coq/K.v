From Coq Require Import List ZArith Bool Lia.
Import ListNotations.

(* values: identity + key *)
Inductive val := VObj (id : nat) (key : Z) | VTup (l : list val) | VNone.
Inductive exn := EUser (n : nat) | ETypeError | EValueError | EGenExit.

Inductive event :=
| EPull (s : nat) | EItem (s : nat) (v : val) | EEnd (s : nat) | EClose (s : nat)
| ECall (f : nat) (a : list val) | EYield (v : val).

Inductive outcome (A : Type) := Ok (a : A) | Exn (e : exn) | Fuel.
Arguments Ok {A}. Arguments Exn {A}. Arguments Fuel {A}.

Inductive sstate := Open | Exhausted | Closed.
Record src := { items : list val; st : sstate }.
Record world := { srcs : list src; log : list event; fault : option (nat * exn) }.

Definition M A := world -> outcome A * world.
Definition ret {A} (a : A) : M A := fun w => (Ok a, w).
Definition bind {A B} (m : M A) (f : A -> M B) : M B :=
  fun w => match m w with (Ok a, w') => f a w' | (Exn e, w') => (Exn e, w') | (Fuel, w') => (Fuel, w') end.
Notation "x <- m ;; k" := (bind m (fun x => k)) (at level 61, m at next level, right associativity).
Notation "m ;;; k" := (bind m (fun _ => k)) (at level 61, right associativity).

Definition emit (e : event) : M unit := fun w => (Ok tt, {| srcs := srcs w; log := e :: log w; fault := fault w |}).
(* a "use": a point where user code runs and may raise the injected fault *)
Definition use : M unit := fun w =>
  match fault w with
  | Some (0, e) => (Exn e, {| srcs := srcs w; log := log w; fault := None |})
  | Some (S n, e) => (Ok tt, {| srcs := srcs w; log := log w; fault := Some (n, e) |})
  | None => (Ok tt, w)
  end.
Definition set_src (i : nat) (s : src) : M unit := fun w =>
  (Ok tt, {| srcs := firstn i (srcs w) ++ s :: skipn (S i) (srcs w); log := log w; fault := fault w |}).
Definition get_src (i : nat) : M src := fun w => (Ok (nth i (srcs w) {| items := []; st := Closed |}), w).

(* __anext__ on source i : Some item | None = StopAsyncIteration *)
Definition pull (i : nat) : M (option val) :=
  emit (EPull i) ;;; use ;;;
  s <- get_src i ;;
  match st s, items s with
  | Open, x :: xs => set_src i {| items := xs; st := Open |} ;;; emit (EItem i x) ;;; ret (Some x)
  | Open, [] => set_src i {| items := []; st := Exhausted |} ;;; emit (EEnd i) ;;; ret None
  | _, _ => emit (EEnd i) ;;; ret None
  end.
Definition close (i : nat) : M unit :=
  s <- get_src i ;; emit (EClose i) ;;; set_src i {| items := items s; st := match st s with Exhausted => Exhausted | _ => Closed end |}.

Definition finally {A} (m : M A) (fin : M unit) : M A := fun w =>
  match m w with
  | (o, w') => match fin w' with (Ok _, w'') => (o, w'') | (Exn e, w'') => (Exn e, w'') | (Fuel, w'') => (Fuel, w'') end
  end.
Definition scoped {A} (i : nat) (body : M A) : M A := finally body (close i).

Definition gen := (val -> M unit) -> M unit.

Fixpoint for_each_fuel (n : nat) (i : nat) (body : val -> M unit) : M unit :=
  match n with
  | 0 => fun w => (Fuel, w)
  | S n' => o <- pull i ;; match o with None => ret tt | Some x => body x ;;; for_each_fuel n' i body end
  end.
Definition for_each (i : nat) (body : val -> M unit) : M unit := fun w =>
  for_each_fuel (S (length (items (nth i (srcs w) {| items := []; st := Closed |})))) i body w.

Definition call (f : nat) (impl : list val -> val) (a : list val) : M val :=
  emit (ECall f a) ;;; use ;;; ret (impl a).
Definition truthy (v : val) : bool := match v with VObj _ k => negb (Z.eqb k 0) | VTup l => negb (Nat.eqb (length l) 0) | VNone => false end.

(* consumer: takes n items then closes (GeneratorExit at the yield) *)
Definition yield_to (budget : nat) : val -> M unit := fun v =>
  emit (EYield v) ;;; use.

Definition a_filter (p : list val -> val) : gen := fun yield =>
  scoped 0 (for_each 0 (fun item => r <- call 0 p [item] ;; if truthy r then yield item else ret tt)).

Definition run (g : gen) (w : world) := g (yield_to 0) w.
Definition mkw (l : list val) f := {| srcs := [{| items := l; st := Open |}]; log := []; fault := f |}.
Definition isodd (a : list val) : val := match a with [VObj _ k] => VObj 0 (k mod 2) | _ => VNone end.
Eval vm_compute in let '(o, w) := run (a_filter isodd) (mkw [VObj 1 1; VObj 2 2; VObj 3 3] None) in (o, rev (log w), srcs w).
Eval vm_compute in let '(o, w) := run (a_filter isodd) (mkw [VObj 1 1; VObj 2 2; VObj 3 3] (Some (4, EGenExit))) in (o, rev (log w), srcs w).
