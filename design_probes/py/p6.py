import sys, itertools, contextlib, random
sys.path.insert(0, '/repo')
import asyncstdlib as a
def run(coro):
    try: coro.send(None)
    except StopIteration as e: return e.value
    raise RuntimeError("suspended")
class E(Exception): pass
R=random.Random(3)
KINDS=['acm','scm','apush','spush','cb']
BEH=['falsy','truthy','raise','raise_handling']
def build(stack_cls, entries, block_raises, log, is_std):
    excs={}
    def behave(i, beh, et):
        log.append((i, None if et is None else getattr(excs.get('last_seen'), 'x', None) or et.__name__))
    async def main():
        made=[]
        def mk_exit(i, beh, is_async):
            def core(et, ev, tb):
                log.append(('exit', i, None if ev is None else ev.args))
                if beh=='falsy': return 0
                if beh=='truthy': return 1
                if beh=='raise': raise E('new', i)
                if beh=='raise_handling':
                    try: raise E('inner', i)
                    except E: raise E('while', i)
            if is_async:
                async def ax(et, ev, tb): return core(et, ev, tb)
                return ax
            return core
        st=stack_cls()
        try:
            async with st:
                for i,(kind,beh) in enumerate(entries):
                    if kind=='acm':
                        class CM:
                            async def __aenter__(s): log.append(('enter',i)); return i
                        CM.__aexit__=(lambda ex: (lambda s,*a_: ex(*a_)))(mk_exit(i,beh,True))
                        if is_std: await st.enter_async_context(CM())
                        else: await st.enter_context(CM())
                    elif kind=='scm':
                        class CM:
                            def __enter__(s): log.append(('enter',i)); return i
                        CM.__exit__=(lambda ex: (lambda s,*a_: ex(*a_)))(mk_exit(i,beh,False))
                        if is_std: st.enter_context(CM())
                        else: await st.enter_context(CM())
                    elif kind=='apush':
                        if is_std: st.push_async_exit(mk_exit(i,beh,True))
                        else: st.push(mk_exit(i,beh,True))
                    elif kind=='spush':
                        st.push(mk_exit(i,beh,False))
                    elif kind=='cb':
                        def cb(x, i=i, beh=beh):
                            log.append(('cb', i, x))
                            if beh in ('raise','raise_handling'): raise E('cb', i)
                            return beh=='truthy'
                        st.callback(cb, i*10)
                if block_raises: raise E('block')
        except BaseException as e:
            return ('raised', e.args, None if e.__context__ is None else e.__context__.args)
        return 'ok'
    return run(main())
bad=0
for _ in range(5000):
    entries=[(R.choice(KINDS), R.choice(BEH)) for _ in range(R.randint(0,4))]
    br=R.random()<0.5
    l1=[]; o1=build(contextlib.AsyncExitStack, entries, br, l1, True)
    l2=[]; o2=build(a.ExitStack, entries, br, l2, False)
    if o1!=o2 or l1!=l2:
        bad+=1
        if bad<4: print("ES DIFF", entries, br, "\n  std", o1, l1, "\n  asl", o2, l2)
print("exitstack diffs", bad)
