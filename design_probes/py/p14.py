"""Abandoned inner library generators + sources whose cleanup suspends (no asyncgen hooks installed)."""
import sys, gc
sys.path.insert(0, '/repo')
import asyncstdlib as a
class Tok:
    def __init__(s, t): s.t=t
    def __await__(s):
        r = yield s.t
        return r
def drive(coro, log):
    try:
        t=coro.send(None)
        while True:
            log.append(t); t=coro.send(('reply', t))
    except StopIteration as e: return e.value
def src(log, n=5):
    async def g():
        try:
            for i in range(n): yield i
        finally:
            log.append('cleanup-start')
            await Tok('cleanup-await')
            log.append('cleanup-done')
    return g()
TOOLS={
 'islice(2)': lambda s: a.islice(s, 2),
 'islice(1,3)': lambda s: a.islice(s, 1, 3),
 'compress': lambda s: a.compress(s, [1,1,1,1,1]),
 'map': lambda s: a.map(lambda x:x, s),
 'zip': lambda s: a.zip(s, range(9)),
 'filter': lambda s: a.filter(lambda x: True, s),
 'takewhile': lambda s: a.takewhile(lambda x: x<1, s),
 'enumerate': lambda s: a.enumerate(s),
 'zip_longest': lambda s: a.zip_longest(s, [1]),
 'merge': lambda s: a.merge(s, [9]),
 'chain': lambda s: a.chain(s),
 'pairwise': lambda s: a.pairwise(s),
 'batched': lambda s: a.batched(s, 2),
 'nlargest': None, 'any': None,
}
for name, mk in TOOLS.items():
    log=[]
    async def main():
        if name=='nlargest': return await a.nlargest(src(log), 2)
        if name=='any': return await a.any(a.map(lambda x: x==1, src(log)))
        t=mk(src(log)); out=[]
        async for x in t:
            out.append(x)
            if len(out)==2: break
        await t.aclose()
        return out
    try: r=drive(main(), log)
    except BaseException as e: r=f'RAISED {type(e).__name__}: {e}'
    gc.collect()
    ok = log.count('cleanup-start')==1 and log.count('cleanup-done')==1 and log.count('cleanup-await')==1
    print(f"{name:12s} {'OK ' if ok else 'BAD'} result={r} log={log}")
