import sys; sys.path.insert(0,'/repo')
import asyncstdlib as a, functools, itertools, fractions
def run(c):
    try: c.send(None)
    except StopIteration as e: return e.value
xs=[0.1]*10
print("sum floats", run(a.sum(xs)), sum(xs))
xs=[1e100, 1.0, -1e100]
print("sum floats2", run(a.sum(xs)), sum(xs))
print("sum mixed", run(a.sum([1, 2.5, True])), sum([1,2.5,True]))
print("sum start", run(a.sum([[1],[2]], [])), sum([[1],[2]], []))
def t(f):
    try: return f()
    except BaseException as e: return type(e).__name__
print("sum str", t(lambda: run(a.sum(['a','b'], ''))), t(lambda: sum(['a','b'], '')))
print("dict", t(lambda: run(a.dict([(1,2),(1,3)]))), dict([(1,2),(1,3)]))
print("set unhashable", t(lambda: run(a.set([[1]]))), t(lambda: set([[1]])))
print("min mixed", t(lambda: run(a.min([1,'a']))), t(lambda: min([1,'a'])))
print("max nan", run(a.max([1.0, float('nan'), 2.0])), max([1.0, float('nan'), 2.0]))
print("reduce", t(lambda: run(a.reduce(lambda x,y:x+y, [], ))), t(lambda: functools.reduce(lambda x,y:x+y, [])))
print("all/any", run(a.all([])), run(a.any([])))
print("tuple", run(a.tuple(iter([1,2]))), run(a.list()), run(a.dict()), run(a.set()), run(a.tuple()))
