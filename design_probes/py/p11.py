from sched import *
import asyncstdlib as a
# ---- lru concurrency
def mk_lru(maxsize, plans, susp, clear_task=False):
    def mk():
        st={'inv':0,'maxcur':0,'calls':0,'bad':[]}
        @a.lru_cache(maxsize=maxsize)
        async def f(k):
            st['inv']+=1; n=st['inv']
            for _ in range(susp):
                await Susp('f'); 
                cur=f.cache_info().currsize
                if maxsize is not None and cur>maxsize: st['bad'].append(('over',cur))
            return (k,n)
        async def task(plan):
            for k in plan:
                st['calls']+=1
                r=await f(k)
                if r[0]!=k: st['bad'].append(('wrongval',k,r))
                ci=f.cache_info()
                if maxsize is not None and ci.currsize>maxsize: st['bad'].append(('over',ci.currsize))
        async def clearer():
            await Susp('c'); f.cache_clear()
        def fin():
            ci=f.cache_info()
            if not clear_task:
                if ci.hits+ci.misses!=st['calls']: st['bad'].append(('hm',ci,st['calls']))
                if ci.misses!=st['inv']: st['bad'].append(('mi',ci,st['inv']))
            return st['bad']
        return [task(p) for p in plans]+([clearer()] if clear_task else []), fin
    return mk
for cfg in [(1,[[1,2],[2,1]],1),(2,[[1,2,3],[3,1]],1),(1,[[1],[1],[2]],2),(None,[[1,2],[1,2]],1),(2,[[1,2],[2,3],[3,1]],1),(1,[[1,2],[1]],1,True)]:
    runs,res=explore(mk_lru(*cfg))
    print("lru",cfg,"runs",runs,"bad",len(res),res[:2])

# ---- cached_property
def mk_cp(ntasks, susp, lock, deleter=False, fail_first=False):
    def mk():
        st={'runs':0,'vals':[],'bad':[]}
        deco = a.cached_property(Lock) if lock else a.cached_property
        class C:
            @deco
            async def p(self):
                st['runs']+=1; n=st['runs']
                for _ in range(susp): await Susp('g')
                if fail_first and n==1: raise KeyError('first')
                return n
        c=C()
        async def task(i):
            try: v=await c.p
            except KeyError: v='err'
            st['vals'].append(v)
        async def dele():
            await Susp('d')
            try: del c.p
            except AttributeError: pass
        def fin():
            vals=[v for v in st['vals'] if v!='err']
            if lock and not deleter and not fail_first:
                if st['runs']!=1: st['bad'].append(('runs',st['runs']))
                if set(vals)!={1}: st['bad'].append(('vals',vals))
            if any(v!='err' and not (1<=v<=st['runs']) for v in st['vals']): st['bad'].append(('vals',vals))
            if fail_first and lock and st['runs']>2: st['bad'].append(('runs',st['runs'], st['vals']))
            return st['bad']
        return [task(i) for i in range(ntasks)]+([dele()] if deleter else []), fin
    return mk
for cfg in [(2,1,True),(3,1,True),(3,2,True),(2,1,False),(3,1,True,True),(3,1,True,False,True)]:
    runs,res=explore(mk_cp(*cfg))
    print("cp",cfg,"runs",runs,"bad",len(res),res[:2])
