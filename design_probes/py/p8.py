import sys, itertools, contextlib, random, functools, operator
sys.path.insert(0, '/repo')
import asyncstdlib as a
def run(coro):
    try: coro.send(None)
    except StopIteration as e: return e.value
    raise RuntimeError("suspended")
class Boom(Exception): pass
class Src:
    def __init__(s, items, name, fail_at=None): s.items=list(items); s.i=0; s.closed=0; s.exh=False; s.name=name; s.fail_at=fail_at; s.started=False
    def __aiter__(s): return s
    async def __anext__(s):
        s.started=True
        if s.closed: raise StopAsyncIteration
        if s.fail_at is not None and s.i==s.fail_at: raise Boom(s.name)
        if s.i>=len(s.items): s.exh=True; raise StopAsyncIteration
        s.i+=1; return s.items[s.i-1]
    async def aclose(s): s.closed+=1
    def released(s): return s.closed>0 or s.exh
def AG(items, name, fail_at=None):
    class W:
        pass
    w=W(); w.closed=0; w.exh=False; w.started=False; w.name=name
    async def g():
        w.started=True
        try:
            for i,x in enumerate(items):
                if fail_at==i: raise Boom(name)
                yield x
            if fail_at==len(items): raise Boom(name)
            w.exh=True
        finally: w.closed+=1
    w.gen=g(); w.released=lambda: w.closed>0 or w.exh or not w.started and False
    return w
ITER_TOOLS={
 'zip': (2, lambda s: a.zip(*s)),
 'zip_strict': (2, lambda s: a.zip(*s, strict=True)),
 'map': (2, lambda s: a.map(lambda *x:x, *s)),
 'filter': (1, lambda s: a.filter(lambda x: True, *s)),
 'enumerate': (1, lambda s: a.enumerate(*s)),
 'accumulate': (1, lambda s: a.accumulate(*s)),
 'batched': (1, lambda s: a.batched(*s,2)),
 'chain': (2, lambda s: a.chain(*s)),
 'chain.fi': (2, lambda s: a.chain.from_iterable(s)),
 'compress': (2, lambda s: a.compress(*s)),
 'cycle': (1, lambda s: a.cycle(*s)),
 'dropwhile': (1, lambda s: a.dropwhile(lambda x: x<1, *s)),
 'filterfalse': (1, lambda s: a.filterfalse(lambda x: False, *s)),
 'islice': (1, lambda s: a.islice(*s, 1, 3)),
 'pairwise': (1, lambda s: a.pairwise(*s)),
 'starmap': (1, lambda s: a.starmap(lambda *x:x, a.map(lambda x:(x,), *s))),
 'takewhile': (1, lambda s: a.takewhile(lambda x: x<2, *s)),
 'tee0': (1, lambda s: a.tee(*s, 1)[0]),
 'zip_longest': (2, lambda s: a.zip_longest(*s)),
 'merge': (3, lambda s: a.merge(*s)),
 'groupby': (1, lambda s: a.groupby(*s)),
 'any_iter': (1, lambda s: a.any_iter(*s)),
}
AGG={
 'all': lambda s: a.all(s), 'any': lambda s: a.any(s), 'sum': lambda s: a.sum(s), 'min': lambda s: a.min(s), 'max': lambda s: a.max(s),
 'list': lambda s: a.list(s), 'tuple': lambda s: a.tuple(s), 'set': lambda s: a.set(s), 'dict': lambda s: a.dict(a.map(lambda x:(x,x), s)), 'sorted': lambda s: a.sorted(s), 'sortedk': lambda s: a.sorted(s, key=lambda x:x),
 'reduce': lambda s: a.reduce(operator.add, s), 'nlargest': lambda s: a.nlargest(s, 2), 'nsmallest': lambda s: a.nsmallest(s,2),
}
found=set()
for kind in ('cls','agen'):
  for name,(k,mk) in ITER_TOOLS.items():
    for take in range(0,6):
      for failsrc in [None]+list(range(k)):
        for fail_at in ([None] if failsrc is None else range(0,4)):
            srcs=[]
            for i in range(k):
                fa = fail_at if failsrc==i else None
                srcs.append(Src([0,1,2][:3-i], f"s{i}", fa) if kind=='cls' else AG([0,1,2][:3-i], f"s{i}", fa))
            objs=[s if kind=='cls' else s.gen for s in srcs]
            async def main():
                t=mk(objs); status='closed'
                try:
                    for _ in range(take): await a.anext(t)
                except StopAsyncIteration: status='exhausted'
                except (Boom, ValueError, TypeError): status='raised'
                try: await t.aclose()
                except BaseException as e: status+='+aclose:'+type(e).__name__
                return status
            st=run(main())
            if take==0 and 'aclose' not in st: continue  # never advanced
            leaks=[s.name for s in srcs if not (s.closed>0 or s.exh) and (s.started or True)]
            if leaks or 'aclose' in st:
                key=(name,kind,st, tuple(leaks), failsrc is not None)
                if (name, st, bool(leaks), failsrc is not None) not in found:
                    found.add((name, st, bool(leaks), failsrc is not None))
                    print("LEAK iter", kind, name, "take",take,"failsrc",failsrc,"fail_at",fail_at, st, "unreleased", leaks)
  for name,mk in AGG.items():
    for fail_at in [None,0,1,2,3]:
        s=Src([0,1,2],'s',fail_at) if kind=='cls' else AG([0,1,2],'s',fail_at)
        try: run(mk(s if kind=='cls' else s.gen)); st='ok'
        except (Boom, ValueError, TypeError): st='raised'
        if not (s.closed>0 or s.exh):
            if (name,kind,st) not in found:
                found.add((name,kind,st)); print("LEAK agg", kind, name, fail_at, st)
