import sys
sys.path.insert(0, '/repo')
class Susp:
    def __init__(s, tag=None): s.tag=tag
    def __await__(s): return (yield s)
class Lock:
    """FIFO lock cooperating with the explorer: blocked tasks are not runnable"""
    def __init__(s): s.owner=None; s.held=False; s.waiters=0
    async def __aenter__(s):
        while s.held:
            await Susp(('lockwait', s))
        s.held=True
    async def __aexit__(s,*a): s.held=False
def explore(mk, max_runs=200000, cancel=False):
    """mk() -> (list of coroutines, check(final) ); DFS over all schedules. Each schedule = list of task indices"""
    results=[]; stack=[[]]; runs=0
    while stack:
        prefix=stack.pop(); runs+=1
        if runs>max_runs: print("cap"); break
        tasks, fin = mk()
        n=len(tasks); done=[False]*n; blocked=[None]*n; started=[False]*n
        sched=list(prefix); pos=0; trace=[]
        while True:
            runnable=[i for i in range(n) if not done[i] and not (blocked[i] is not None and blocked[i].held)]
            if not runnable:
                break
            if pos<len(sched): c=sched[pos]
            else:
                c=runnable[0]
                for alt in runnable[1:]:
                    stack.append(sched[:pos]+[alt])
                sched.append(c)
            pos+=1
            if c not in runnable: raise RuntimeError("bad replay")
            try:
                ev=tasks[c].send(None); 
                blocked[c]= ev.tag[1] if isinstance(ev.tag, tuple) and ev.tag[0]=='lockwait' else None
            except StopIteration: done[c]=True
            trace.append(c)
        if not all(done): results.append(('DEADLOCK', trace))
        else:
            r=fin()
            if r: results.append((r, trace))
    return runs, results
