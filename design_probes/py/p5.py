import sys, itertools, contextlib
sys.path.insert(0, '/repo')
import asyncstdlib as a
def run(coro):
    try: coro.send(None)
    except StopIteration as e: return e.value
    raise RuntimeError("suspended")

class MyErr(Exception): pass
class OtherErr(Exception): pass
class MyBase(BaseException): pass

PRE=['raise','noyield','yield']
HANDLER=['none','finally','swallow','reraise','raisenew','raisenew_none','raisesame','return','yieldagain','raise_sai']
AFTER=['stop','yieldagain','raise']
BLOCK=[None, MyErr, MyBase, StopIteration, StopAsyncIteration, RuntimeError, GeneratorExit, KeyboardInterrupt]

def mkgen(pre, handler, after, log):
    async def gen():
        log.append('enter')
        if pre=='raise': raise OtherErr('pre')
        if pre=='noyield': return
        try:
            if handler=='none':
                yield 'V'
            elif handler=='finally':
                try: yield 'V'
                finally: log.append('finally')
            else:
                try:
                    yield 'V'
                except BaseException as e:
                    log.append(('caught', type(e).__name__))
                    if handler=='swallow': pass
                    elif handler=='reraise': raise
                    elif handler=='raisenew': raise OtherErr('new')
                    elif handler=='raisenew_none': raise OtherErr('new') from None
                    elif handler=='raisesame': raise type(e)('same type')
                    elif handler=='return': return
                    elif handler=='yieldagain': yield 'again'
                    elif handler=='raise_sai': raise StopAsyncIteration('x')
            log.append('after')
            if after=='yieldagain': yield 'again2'
            elif after=='raise': raise OtherErr('after')
        finally:
            log.append('genexit')
    return gen

def outcome(cmfactory, genf, block, log):
    async def main():
        exc = block('blk') if block else None
        try:
            async with cmfactory(genf)() as v:
                log.append(('body', v))
                if exc is not None: raise exc
        except BaseException as e:
            return ('raised', type(e).__name__, 'same' if e is exc else str(e)[:40])
        return ('ok',)
    return run(main())

bad=0
for pre in PRE:
  for h in HANDLER:
    for af in AFTER:
      for b in BLOCK:
        l1=[]; o1=outcome(contextlib.asynccontextmanager, mkgen(pre,h,af,l1), b, l1)
        l2=[]; o2=outcome(a.contextmanager, mkgen(pre,h,af,l2), b, l2)
        def norm(o): 
            if o[0]=='raised' and o[1]=='RuntimeError' and o[2]!='same': return (o[0],o[1],'rt')
            return o
        if norm(o1)!=norm(o2) or l1!=l2:
            bad+=1
            print("CM DIFF", pre,h,af,b.__name__ if b else None, "\n   std", o1, l1, "\n   asl", o2, l2)
print("cm diffs", bad)
