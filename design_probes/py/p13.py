"""C03 flavours, C17 token pass-through / zero suspensions, C19 adapters, C15 decorator concurrency."""
import sys, itertools, functools, operator, inspect
sys.path.insert(0, '/repo')
import asyncstdlib as a

class Tok:
    def __init__(s, t): s.t=t
    def __await__(s):
        r = yield s.t
        assert r == ('reply', s.t), (r, s.t)
        return None
def drive(coro, log=None):
    """hand-drive: reply to each token t with ('reply', t); return value, count suspensions"""
    n=0; val=None
    try:
        t=coro.send(None)
        while True:
            n+=1
            if log is not None: log.append(t)
            t=coro.send(('reply', t))
    except StopIteration as e:
        return e.value, n
def run(coro): return drive(coro)[0]

# ---------- flavours
def fl_iter(kind, items):
    items=list(items)
    if kind=='list': return items
    if kind=='seq':
        class S:
            def __getitem__(s,i): return items[i]
        return S()
    if kind=='iter': return iter(items)
    if kind=='agen':
        async def g():
            for x in items: yield x
        return g()
    if kind=='cls':
        class C:
            def __init__(s): s.i=0
            def __aiter__(s): return s
            async def __anext__(s):
                if s.i>=len(items): raise StopAsyncIteration
                s.i+=1; return items[s.i-1]
        return C()
def fl_fn(kind, f):
    if kind=='def': return f
    if kind=='async':
        async def g(*a_, **k): return f(*a_, **k)
        return g
    if kind=='partial':
        async def g(_pad, *a_, **k): return f(*a_, **k)
        return functools.partial(g, None)
    if kind=='obj':
        class O:
            def __call__(s, *a_, **k):
                async def c(): return f(*a_, **k)
                return c()
        return O()
IK=['list','seq','iter','agen','cls']; FK=['def','async','partial','obj']
def tryit(f):
    try: return ('ok', f())
    except BaseException as e: return ('exc', type(e).__name__)
A=[3,1,2,2,0]; B=[1,0,1,1]
CASES={
 'zip': lambda I,F: a.list(a.zip(I(A),I(B))),
 'map': lambda I,F: a.list(a.map(F(lambda x,y:x+y), I(A), I(B))),
 'filter': lambda I,F: a.list(a.filter(F(lambda x:x%2), I(A))),
 'filterfalse': lambda I,F: a.list(a.filterfalse(F(lambda x:x%2), I(A))),
 'accumulate': lambda I,F: a.list(a.accumulate(I(A), F(operator.add))),
 'starmap': lambda I,F: a.list(a.starmap(F(lambda x,y:x*y), I(list(zip(A,A))))),
 'dropwhile': lambda I,F: a.list(a.dropwhile(F(lambda x:x>1), I(A))),
 'takewhile': lambda I,F: a.list(a.takewhile(F(lambda x:x>0), I(A))),
 'compress': lambda I,F: a.list(a.compress(I(A), I(B))),
 'chain': lambda I,F: a.list(a.chain(I(A), I(B))),
 'chainfi': lambda I,F: a.list(a.chain.from_iterable(I([I(A), I(B)]))),
 'islice': lambda I,F: a.list(a.islice(I(A),1,4,2)),
 'batched': lambda I,F: a.list(a.batched(I(A),2)),
 'pairwise': lambda I,F: a.list(a.pairwise(I(A))),
 'cycle': lambda I,F: a.list(a.islice(a.cycle(I(B)), 9)),
 'zip_longest': lambda I,F: a.list(a.zip_longest(I(A),I(B))),
 'merge': lambda I,F: a.list(a.merge(I(sorted(A)), I(sorted(B)), key=F(lambda x:x))),
 'groupby': lambda I,F: a.list(a.map(lambda kg: kg[0], a.groupby(I(A), key=F(lambda x:x//2)))),
 'enumerate': lambda I,F: a.list(a.enumerate(I(A), 3)),
 'tee': lambda I,F: a.list(a.tee(I(A),2)[1]),
 'min': lambda I,F: a.min(I(A), key=F(lambda x:-x)), 'max': lambda I,F: a.max(I(A), key=F(lambda x:-x)),
 'sum': lambda I,F: a.sum(I(A)), 'all': lambda I,F: a.all(I(A)), 'any': lambda I,F: a.any(I(A)),
 'sorted': lambda I,F: a.sorted(I(A), key=F(lambda x:-x)), 'sorted0': lambda I,F: a.sorted(I(A)),
 'tuple': lambda I,F: a.tuple(I(A)), 'set': lambda I,F: a.set(I(A)), 'dict': lambda I,F: a.dict(I(list(zip(A,A)))),
 'reduce': lambda I,F: a.reduce(F(operator.add), I(A)),
 'nlargest': lambda I,F: a.nlargest(I(A), 2, key=F(lambda x:x)), 'nsmallest': lambda I,F: a.nsmallest(I(A), 2, key=F(lambda x:x)),
 'iter': lambda I,F: a.list(a.iter(F(iter(A).__next__), 0)),
}
bad=0
for name,mk in CASES.items():
    ref=None
    for ik in IK:
        for fk in FK:
            # all-sync flavours must not suspend
            o=mk(lambda x: fl_iter(ik,x), lambda f: fl_fn(fk,f))
            if not (inspect.isawaitable(o)): print("NOT AWAITABLE", name); 
            r=tryit(lambda: drive(o))
            val=(r[0], r[1][0] if r[0]=='ok' else r[1]); nsusp = r[1][1] if r[0]=='ok' else None
            if ref is None: ref=val
            if val!=ref: bad+=1; print("FLAVOUR DIFF", name, ik, fk, val, ref)
            if nsusp not in (0,None): print("SUSPENDED", name, ik, fk, nsusp)
print("flavour diffs", bad)

# ---------- C17 token pass-through: sources / callables that suspend with unique tokens
def tok_src(items, tag, log):
    class C:
        def __init__(s): s.i=0
        def __aiter__(s): return s
        async def __anext__(s):
            await Tok((tag,'pull',s.i))
            if s.i>=len(items): raise StopAsyncIteration
            s.i+=1; return items[s.i-1]
        async def aclose(s): await Tok((tag,'close'))
    return C()
def tok_fn(f, tag):
    cnt=[0]
    async def g(*a_):
        cnt[0]+=1; await Tok((tag,'call',cnt[0])); return f(*a_)
    return g
for name,mk in [
  ('map', lambda: a.list(a.map(tok_fn(lambda x,y:x+y,'f'), tok_src(A,'s0',[]), tok_src(B,'s1',[])))),
  ('zip_longest', lambda: a.list(a.zip_longest(tok_src(A,'s0',[]), tok_src(B,'s1',[])))),
  ('merge', lambda: a.list(a.merge(tok_src(sorted(A),'s0',[]), tok_src(sorted(B),'s1',[]), key=tok_fn(lambda x:x,'k')))),
  ('islice', lambda: a.list(a.islice(tok_src(A,'s0',[]), 1, 3))),
  ('min', lambda: a.min(tok_src(A,'s0',[]), key=tok_fn(lambda x:x,'k'))),
  ('nlargest', lambda: a.nlargest(tok_src(A,'s0',[]), 2, key=tok_fn(lambda x:x,'k'))),
  ('reduce', lambda: a.reduce(tok_fn(operator.add,'f'), tok_src(A,'s0',[]))),
  ('groupby', lambda: a.list(a.map(lambda kg: kg[0], a.groupby(tok_src(A,'s0',[]), key=tok_fn(lambda x:x//2,'k'))))),
]:
    log=[]; r=tryit(lambda: drive(mk(), log)); print("tokens", name, r[0], r[1][0] if r[0]=='ok' else r[1], "nsusp", len(log), "distinct", len(set(log)))

# ---------- C19
async def aw(x): return x
shapes=0; bad=0
for outer in (False, True):
    for ik in ('list','iter','agen'):
        for aw_items in (False, True):
            for n in range(0,5):
                items=list(range(n))
                its=[aw(x) for x in items] if aw_items else items
                it=fl_iter(ik, its)
                arg = aw(it) if outer else it
                r=run(a.list(a.any_iter(arg))); shapes+=1
                if r!=items: bad+=1; print("any_iter DIFF", outer, ik, aw_items, n, r)
print("any_iter shapes", shapes, "bad", bad)
order=[]
def mkaw(i):
    async def c(): order.append(('await',i)); return i
    return c()
async def c19():
    it=a.await_each([mkaw(i) for i in range(3)])
    out=[]
    async for x in it:
        order.append(('got',x)); out.append(x)
    return out
print("await_each", run(c19()), order)
print("apply", run(a.apply(lambda x,y,*,z: (x,y,z), aw(1), aw(2), z=aw(3))))
async def co(x): return x
print("sync identity", a.sync(co) is co, run(a.sync(lambda x: x+1)(1)), run(a.sync(functools.partial(co, 5))()), tryit(lambda: run(a.sync(lambda: 1/0)())))

# ---------- C15 decorator concurrency (two overlapping calls)
from sched import Susp, explore
def mk15():
    log=[]
    @a.contextmanager
    async def cm(tag):
        log.append(('enter',tag)); await Susp('e')
        try: yield
        finally:
            await Susp('x'); log.append(('exit',tag))
    calls=[0]
    @cm('d')
    async def fn(i):
        log.append(('body',i)); await Susp('b')
        if i==1: raise KeyError(i)
        return i
    res={}
    async def task(i):
        try: res[i]=('ok', await fn(i))
        except KeyError: res[i]=('err',)
    def fin():
        ok = res=={0:('ok',0),1:('err',),2:('ok',2)} and sum(1 for e in log if e[0]=='enter')==3 and sum(1 for e in log if e[0]=='exit')==3
        return None if ok else (res, log)
    return [task(0),task(1),task(2)], fin
runs,resx=explore(mk15); print("C15 decorator schedules", runs, "bad", len(resx), resx[:1])
