"""C18: cancellation at every suspension point (sources, callables, aclose all suspend); then owner closes; check release."""
import sys, gc, operator
sys.path.insert(0, '/repo')
import asyncstdlib as a
class Cancel(BaseException): pass
class Tok:
    def __init__(s, t): s.t=t
    def __await__(s): return (yield s.t)
class Src:
    def __init__(s, items, name): s.items=list(items); s.i=0; s.closed=0; s.exh=False; s.name=name; s.closing=0
    def __aiter__(s): return s
    async def __anext__(s):
        await Tok((s.name,'pull'))
        if s.closed: raise StopAsyncIteration
        if s.i>=len(s.items): s.exh=True; raise StopAsyncIteration
        s.i+=1; return s.items[s.i-1]
    async def aclose(s):
        s.closing+=1
        await Tok((s.name,'close'))
        s.closed+=1
    def released(s): return s.closed>0 or s.exh
def fn(f):
    async def g(*a_):
        await Tok('call'); return f(*a_)
    return g
TOOLS={
 'zip': (2, lambda s: a.zip(*s)), 'map': (2, lambda s: a.map(fn(lambda *x:x), *s)),
 'zip_longest': (2, lambda s: a.zip_longest(*s)), 'merge': (2, lambda s: a.merge(*s, key=fn(lambda x:x))),
 'chain': (2, lambda s: a.chain(*s)), 'compress': (2, lambda s: a.compress(*s)),
 'filter': (1, lambda s: a.filter(fn(lambda x:True), *s)), 'islice': (1, lambda s: a.islice(*s, 1, 3)),
 'accumulate': (1, lambda s: a.accumulate(*s, fn(operator.add))), 'pairwise': (1, lambda s: a.pairwise(*s)),
 'batched': (1, lambda s: a.batched(*s, 2)), 'takewhile': (1, lambda s: a.takewhile(fn(lambda x: x<2), *s)),
 'tee': (1, lambda s: a.tee(*s, 2)), 'groupby': (1, lambda s: a.groupby(*s, key=fn(lambda x:x))),
 'enumerate': (1, lambda s: a.enumerate(*s)), 'cycle': (1, lambda s: a.cycle(*s)),
 'min': (1, None), 'sum':(1,None), 'nlargest':(1,None), 'reduce':(1,None), 'sorted':(1,None), 'list':(1,None), 'any':(1,None),
}
AGG={'min': lambda s: a.min(s, key=fn(lambda x:x)), 'sum': lambda s: a.sum(s), 'nlargest': lambda s: a.nlargest(s,2,key=fn(lambda x:x)),
     'reduce': lambda s: a.reduce(fn(operator.add), s), 'sorted': lambda s: a.sorted(s, key=fn(lambda x:x)), 'list': lambda s: a.list(s), 'any': lambda s: a.any(s)}
for name,(k,mk) in TOOLS.items():
    # count suspension points of the un-cancelled run
    def build():
        srcs=[Src([0,1,2][:3-i], f"s{i}") for i in range(k)]
        async def main():
            if mk is None:
                return await AGG[name](srcs[0])
            t=mk(srcs); 
            it = t[0] if name=='tee' else t
            try:
                for _ in range(2): await a.anext(it)
            except StopAsyncIteration: pass
            await t.aclose()
        return srcs, main
    srcs, main = build(); c=main(); n=0
    try:
        c.send(None)
        while True: n+=1; c.send(None)
    except StopIteration: pass
    bad=[]
    for cp in range(1, n+1):
        srcs, main = build()
        # owner: on cancellation, closes the iterator it was advancing (where there is one) then re-raises
        holder={}
        async def owner():
            if mk is None:
                return await AGG[name](srcs[0])
            t=mk(srcs); holder['t']=t; it = t[0] if name=='tee' else t
            try:
                try:
                    for _ in range(2): await a.anext(it)
                except StopAsyncIteration: pass
            finally:
                await t.aclose()
        c=owner(); i=0; where=None; out=None
        try:
            tok=c.send(None)
            while True:
                i+=1
                if i==cp: where=tok; tok=c.throw(Cancel())
                else: tok=c.send(None)
        except StopIteration: out='returned'
        except Cancel: out='cancel-propagated'
        except BaseException as e: out=f'{type(e).__name__}: {e}'
        started=[s for s in srcs if s.i>0 or s.closing or s.exh]
        leaks=[s.name for s in srcs if not s.released() and (s.i>0 or s.exh or s.closing)]
        if leaks or out!='cancel-propagated':
            bad.append((cp, where, out, leaks))
    print(f"{name:12s} points={n:3d} bad={len(bad)}", bad[:3])
