import sys, itertools, heapq, functools, random, operator, contextlib
sys.path.insert(0, '/repo')
import asyncstdlib as a
def run(coro):
    try: coro.send(None)
    except StopIteration as e: return e.value
    raise RuntimeError("suspended")
def tryit(f):
    try: return f()
    except BaseException as e: return f"{type(e).__name__}"
R=random.Random(2)
# ---- groupby differential with random op sequences
def gb_sync(items, ops, key):
    log=[]; g=itertools.groupby(items, key); groups=[]
    for op in ops:
        if op==-1:
            try: k,grp=next(g); groups.append(grp); log.append(('key',k))
            except StopIteration: log.append('STOP')
        elif op<len(groups):
            try: log.append(('item',op,next(groups[op])))
            except StopIteration: log.append(('gstop',op))
    return log
def gb_async(items, ops, key):
    log=[]; g=a.groupby(items, key); groups=[]
    async def main():
        for op in ops:
            if op==-1:
                try: k,grp=await a.anext(g); groups.append(grp); log.append(('key',k))
                except StopAsyncIteration: log.append('STOP')
            elif op<len(groups):
                try: log.append(('item',op,await a.anext(groups[op])))
                except StopAsyncIteration: log.append(('gstop',op))
    run(main()); return log
bad=0
for _ in range(20000):
    items=[(R.randint(0,2),i) for i in range(R.randint(0,8))]
    ops=[R.choice([-1,-1,0,1,2,3,4]) for _ in range(R.randint(0,14))]
    key=lambda x:x[0]
    l1=gb_sync(items,ops,key); l2=gb_async(items,ops,key)
    if l1!=l2:
        bad+=1
        if bad<3: print("GROUPBY DIFF", items, ops, l1, l2)
print("groupby diffs", bad)

# ---- lru differential
class Fail(Exception): pass
def lru_diff(maxsize, typed, ops):
    calls1=[]; calls2=[]
    def f(*a_, **k):
        calls1.append((a_, tuple(k.items())))
        if a_ and a_[0]=='fail': raise Fail
        return (len(calls1), a_, tuple(k.items()))
    async def g(*a_, **k):
        calls2.append((a_, tuple(k.items())))
        if a_ and a_[0]=='fail': raise Fail
        return (len(calls2), a_, tuple(k.items()))
    F=functools.lru_cache(maxsize, typed)(f); G=a.lru_cache(maxsize, typed)(g)
    for i,op in enumerate(ops):
        if op[0]=='call':
            r1=tryit(lambda: F(*op[1], **op[2])); r2=tryit(lambda: run(G(*op[1], **op[2])))
            if repr(r1)!=repr(r2): return i, op, r1, r2
        elif op[0]=='clear': F.cache_clear(); G.cache_clear()
        i1=tuple(F.cache_info()); i2=tuple(G.cache_info())
        if i1!=i2 or calls1!=calls2: return i, op, i1, i2
        if F.cache_parameters()!=G.cache_parameters(): return i,'params',F.cache_parameters(),G.cache_parameters()
    return None
vals=[1,1.0,True,2,'a','1',None,(1,2),(1.0,2),0,False,0.0,'fail']
bad=0
for _ in range(5000):
    maxsize=R.choice([None,-1,0,1,2,3,5,128]); typed=R.choice([False,True])
    ops=[]
    for _ in range(R.randint(1,40)):
        if R.random()<0.05: ops.append(('clear',))
        else:
            na=R.randint(0,2); args=tuple(R.choice(vals) for _ in range(na))
            kw={}
            for k in R.sample(['x','y'], R.randint(0,2)): kw[k]=R.choice(vals)
            ops.append(('call',args,kw))
    d=lru_diff(maxsize,typed,ops)
    if d:
        bad+=1
        if bad<4: print("LRU DIFF", maxsize, typed, d)
print("lru diffs", bad)
