import sys, itertools, gc, weakref, operator
sys.path.insert(0, '/repo')
import asyncstdlib as a
def run(coro):
    try: coro.send(None)
    except StopIteration as e: return e.value
    raise RuntimeError("suspended")
class Item:
    __slots__=('k','__weakref__')
    def __init__(s,k): s.k=k
    def __lt__(s,o): return s.k<o.k
    def __add__(s,o): return Item(s.k+o.k)
    def __radd__(s,o): return Item(s.k+o)
    def __bool__(s): return True
    def __eq__(s,o): return s.k==o.k
    def __hash__(s): return hash(s.k)
    def __iter__(s): return iter((s.k,))
N=300
def src(refs, n=N, key=lambda i:i):
    async def g():
        for i in range(n):
            it=Item(key(i)); refs.append(weakref.ref(it)); yield it
            del it
    return g()
def live(refs): gc.collect(); return sum(1 for r in refs if r() is not None)
TOOLS={
 'zip': lambda r: a.zip(src(r), src(r)),
 'map': lambda r: a.map(lambda x:x.k, src(r)),
 'filter': lambda r: a.filter(lambda x: x.k%2, src(r)),
 'enumerate': lambda r: a.enumerate(src(r)),
 'accumulate': lambda r: a.accumulate(src(r), lambda x,y:y),
 'batched': lambda r: a.batched(src(r),3),
 'chain': lambda r: a.chain(src(r),src(r)),
 'compress': lambda r: a.compress(src(r), itertools.repeat(1)),
 'dropwhile': lambda r: a.dropwhile(lambda x: x.k<5, src(r)),
 'filterfalse': lambda r: a.filterfalse(lambda x: x.k%2, src(r)),
 'islice': lambda r: a.islice(src(r), 2, None, 3),
 'pairwise': lambda r: a.pairwise(src(r)),
 'starmap': lambda r: a.starmap(lambda x:x, src(r)),
 'takewhile': lambda r: a.takewhile(lambda x: True, src(r)),
 'zip_longest': lambda r: a.zip_longest(src(r), src(r,10)),
 'merge': lambda r: a.merge(src(r), src(r)),
 'merge_key': lambda r: a.merge(src(r), src(r), key=lambda x:x.k),
 'groupby': lambda r: a.groupby(src(r, key=lambda i:i//3)),
 'tee1': lambda r: a.tee(src(r),1)[0],
 'iter': lambda r: a.iter(src(r)),
 'any_iter': lambda r: a.any_iter(src(r)),
}
for name,mk in TOOLS.items():
    refs=[]; t=mk(refs); mx=0
    async def main():
        global mx
        async for x in t:
            del x
            mx=max(mx, live(refs))
    mx=0; run(main()); print(f"{name:12s} max live after drop: {mx}")
# aggregations: measure max live during run via callback in key/func
AGG={
 'all': lambda r,p: a.all(a.map(p, src(r))),
 'sum': lambda r,p: a.sum(a.map(lambda x:(p(x),x.k)[1], src(r))),
 'min': lambda r,p: a.min(src(r), key=lambda x:(p(x),x.k)[1]),
 'max': lambda r,p: a.max(src(r), key=lambda x:(p(x),x.k)[1]),
 'reduce': lambda r,p: a.reduce(lambda x,y:(p(y),y)[1], src(r)),
 'nlargest': lambda r,p: a.nlargest(src(r), 4, key=lambda x:(p(x),x.k)[1]),
 'nsmallest': lambda r,p: a.nsmallest(src(r), 4, key=lambda x:(p(x),x.k)[1]),
}
for name,mk in AGG.items():
    refs=[]; st={'mx':0}
    def probe(x): st['mx']=max(st['mx'], live(refs)); return True
    run(mk(refs,probe)); print(f"{name:12s} max live during: {st['mx']}")
# tee lag
refs=[]; t=a.tee(src(refs),3)
async def m2():
    out=[]
    for i in range(20): x=await a.anext(t[0]); del x
    out.append(live(refs))
    for i in range(20): x=await a.anext(t[1]); del x
    out.append(live(refs))
    await t[2].aclose(); out.append(live(refs))
    for i in range(5): x=await a.anext(t[1]); del x
    out.append(live(refs))
    return out
print("tee lag", run(m2()))
