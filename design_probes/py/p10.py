from sched import *
import asyncstdlib as a
# ---- tee
def mk_tee(nchild, items, susp, lock, close_after=None):
    def mk():
        st={'active':0,'overlap':False,'fetch':0,'closed':0}
        class S:
            def __init__(s): s.i=0
            def __aiter__(s): return s
            async def __anext__(s):
                st['active']+=1
                if st['active']>1: st['overlap']=True
                for _ in range(susp): await Susp('src')
                st['active']-=1
                if s.i>=len(items): raise StopAsyncIteration
                s.i+=1; st['fetch']+=1; return items[s.i-1]
            async def aclose(s): st['closed']+=1
        t=a.tee(S(), nchild, lock=Lock() if lock else None)
        outs=[[] for _ in range(nchild)]
        async def consumer(i):
            k=0
            async for x in t[i]:
                outs[i].append(x); k+=1
                if close_after is not None and i==0 and k>=close_after:
                    break
                await Susp('between')
            await t[i].aclose()
        def fin():
            bad=[]
            for i,o in enumerate(outs):
                exp = items if not (close_after is not None and i==0) else items[:close_after]
                if o!=exp: bad.append(('child',i,o))
            if st['fetch']!=len(items): bad.append(('fetch',st['fetch']))
            if lock and st['overlap']: bad.append('overlap')
            if st['closed']!=1: bad.append(('closed',st['closed']))
            return bad
        return [consumer(i) for i in range(nchild)], fin
    return mk
for cfg in [(2,[1,2],1,True,None),(2,[1,2,3],1,True,None),(3,[1,2],1,True,None),(2,[1,2],2,True,None),(2,[1,2,3],0,False,None),(3,[1,2],0,False,None),(2,[1,2,3],1,True,1),(3,[1,2,3],1,True,2),(2,[1,2],1,False,None)]:
    runs,res=explore(mk_tee(*cfg))
    print("tee",cfg,"runs",runs,"bad",len(res), res[:2])
