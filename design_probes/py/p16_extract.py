"""Feasibility of the fail-closed expression extractor (DESIGN §3.5/§4.2): a few real sites -> Coq `expr` text."""
import ast, sys
def E(n):
    if isinstance(n, ast.Name): return f'(EVar "{n.id}")'
    if isinstance(n, ast.Attribute) and isinstance(n.value, ast.Name): return f'(EVar "{n.value.id}.{n.attr}")'
    if isinstance(n, ast.Constant):
        if n.value is None: return 'ENone'
        if n.value is True: return 'ETrue'
        if n.value is False: return 'EFalse'
        if isinstance(n.value, int): return f'(EConst ({n.value})%Z)'
    if isinstance(n, ast.UnaryOp):
        if isinstance(n.op, ast.Not): return f'(ENot {E(n.operand)})'
        if isinstance(n.op, ast.USub): return f'(ENeg {E(n.operand)})'
    if isinstance(n, ast.BinOp):
        ops={ast.BitXor:'EXor', ast.Add:'EAdd', ast.Sub:'ESub', ast.Mult:'EMul', ast.Mod:'EMod'}
        if type(n.op) in ops: return f'({ops[type(n.op)]} {E(n.left)} {E(n.right)})'
    if isinstance(n, ast.BoolOp):
        c='EAnd' if isinstance(n.op, ast.And) else 'EOr'
        out=E(n.values[-1])
        for v in reversed(n.values[:-1]): out=f'({c} {E(v)} {out})'
        return out
    if isinstance(n, ast.Compare) and len(n.ops)==1:
        ops={ast.Lt:'ELt', ast.LtE:'ELe', ast.Eq:'EEq', ast.Is:'EIs'}
        if type(n.ops[0]) in ops: return f'({ops[type(n.ops[0])]} {E(n.left)} {E(n.comparators[0])})'
        if isinstance(n.ops[0], ast.GtE): return f'(ELe {E(n.comparators[0])} {E(n.left)})'
        if isinstance(n.ops[0], ast.Gt): return f'(ELt {E(n.comparators[0])} {E(n.left)})'
    if isinstance(n, ast.IfExp): return f'(EIf {E(n.test)} {E(n.body)} {E(n.orelse)})'
    if isinstance(n, ast.Tuple): return '(ETuple [' + '; '.join(E(e) for e in n.elts) + '])'
    raise SystemExit(f"FAIL-CLOSED: unsupported node {ast.dump(n)[:80]}")
def fn(tree, qual):
    cur=tree
    for part in qual.split('.'):
        cur=next(n for n in ast.walk(cur) if isinstance(n,(ast.FunctionDef,ast.AsyncFunctionDef,ast.ClassDef)) and n.name==part)
    return cur
b=ast.parse(open('/repo/asyncstdlib/builtins.py').read()); h=ast.parse(open('/repo/asyncstdlib/heapq.py').read()); it=ast.parse(open('/repo/asyncstdlib/itertools.py').read())
mm=fn(b,'_min_max')
sites=[n.test for n in ast.walk(mm) if isinstance(n, ast.If) and any(isinstance(s, ast.Assign) and getattr(s.targets[0],'id',None)=='best' for s in n.body)]
for i,t in enumerate(sites): print(f'Definition minmax_replace_{i} : expr := {E(t)}.')
print('Definition keyiter_lt : expr :=', E(fn(h,'_KeyIter.__lt__').body[-1].value)+'.')
print('Definition keyiter_eq : expr :=', E(fn(h,'_KeyIter.__eq__').body[-1].value)+'.')
print('Definition reverselt_lt : expr :=', E(fn(h,'ReverseLT.__lt__').body[-1].value)+'.')
mg=fn(h,'merge'); lc=next(n for n in ast.walk(mg) if isinstance(n, ast.ListComp)); print('Definition merge_entry : expr :=', E(lc.elt)+'.')
lg=fn(h,'_largest')
for n in ast.walk(lg):
    if isinstance(n, ast.Assign) and getattr(n.targets[0],'id','') in ('order_sign','next_index'): print(f'Definition largest_{n.targets[0].id} : expr :=', E(n.value)+'.')
    if isinstance(n, ast.If) and isinstance(n.test, ast.Compare) and 'worst_key' in ast.dump(n.test): print('Definition largest_replace : expr :=', E(n.test)+'.')
isl=fn(it,'islice')
for n in ast.walk(isl):
    if isinstance(n, ast.If): print('Definition islice_test : expr :=', E(n.test)+'.')
    if isinstance(n, ast.AugAssign): print('Definition islice_stop_adj : expr :=', E(n.value)+'.')
