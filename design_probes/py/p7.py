import sys, itertools, contextlib, random, functools
sys.path.insert(0, '/repo')
import asyncstdlib as a
def run(coro):
    try: coro.send(None)
    except StopIteration as e: return e.value
    raise RuntimeError("suspended")
def tryit(f):
    try: return f()
    except BaseException as e: return f"{type(e).__name__}: {e}"
class Src:
    def __init__(s, items): s.items=list(items); s.i=0; s.closed=0
    def __aiter__(s): return s
    async def __anext__(s):
        if s.closed or s.i>=len(s.items): raise StopAsyncIteration
        s.i+=1; return s.items[s.i-1]
    async def aclose(s): s.closed+=1
def agen(items, st):
    async def g():
        try:
            for x in items: st['i']=st.get('i',0)+1; yield x
        finally: st['closed']=st.get('closed',0)+1
    return g()
TOOLS={
 'zip': lambda it: a.zip(it, range(100)),
 'map': lambda it: a.map(lambda x:x, it),
 'filter': lambda it: a.filter(None, it),
 'enumerate': lambda it: a.enumerate(it),
 'accumulate': lambda it: a.accumulate(it),
 'batched': lambda it: a.batched(it,2),
 'chain': lambda it: a.chain(it),
 'chain.fi': lambda it: a.chain.from_iterable([it]),
 'compress': lambda it: a.compress(it, itertools.repeat(1)),
 'cycle': lambda it: a.cycle(it),
 'dropwhile': lambda it: a.dropwhile(lambda x: False, it),
 'filterfalse': lambda it: a.filterfalse(lambda x: False, it),
 'islice': lambda it: a.islice(it, 1, None),
 'pairwise': lambda it: a.pairwise(it),
 'starmap': lambda it: a.starmap(lambda *x:x, a.map(lambda x:(x,), it)),
 'takewhile': lambda it: a.takewhile(lambda x: True, it),
 'tee': lambda it: a.tee(it, 2)[0],
 'teeh': lambda it: a.tee(it, 2),
 'zip_longest': lambda it: a.zip_longest(it, [1]),
 'merge': lambda it: a.merge(it, [5]),
 'groupby': lambda it: a.groupby(it),
 'iter': lambda it: a.iter(it),
 'any_iter': lambda it: a.any_iter(it),
 'scoped': None,
}
for name, mk in TOOLS.items():
    for j in (0,1,2):
        for kind in ('cls','agen'):
            st={}
            src = Src(range(10)) if kind=='cls' else agen(range(10), st)
            async def main():
                b=a.borrow(src)
                if mk is None:
                    async with a.scoped_iter(b) as t:
                        for _ in range(j): await a.anext(t)
                else:
                    t=mk(b)
                    if name=='teeh':
                        for _ in range(j): await a.anext(t[0])
                    else:
                        for _ in range(j): await a.anext(t)
                    await t.aclose()
                nxt = await a.anext(src, 'END')
                return nxt
            r=tryit(lambda: run(main()))
            closed = src.closed if kind=='cls' else st.get('closed',0)
            if closed or not isinstance(r,int):
                print("BORROW", name, j, kind, "next underlying:", r, "closed", closed)
# scoped
for name, mk in TOOLS.items():
    if mk is None: continue
    for kind in ('cls','agen'):
        st={}
        src = Src(range(20)) if kind=='cls' else agen(range(20), st)
        async def main():
            res=[]
            async with a.scoped_iter(src) as s:
                t=mk(s)
                if name=='teeh': await a.anext(t[0])
                else: await a.anext(t)
                await t.aclose()
                closed_in = src.closed if kind=='cls' else st.get('closed',0)
                res.append(('in', closed_in, await a.anext(s,'END')))
            closed = src.closed if kind=='cls' else st.get('closed',0)
            res.append(('out', closed, await a.anext(s,'END')))
            return res
        r=tryit(lambda: run(main()))
        if not (isinstance(r,list) and r[0][1]==0 and isinstance(r[0][2],int) and r[1][1]==1 and r[1][2]=='END'):
            print("SCOPED", name, kind, r)
print('done')
