import sys, itertools, heapq, functools, random, operator
sys.path.insert(0, '/repo')
import asyncstdlib as a

def run(coro):
    try:
        coro.send(None)
    except StopIteration as e:
        return e.value
    raise RuntimeError("suspended")

class Boom(Exception): pass

class Ctx:
    def __init__(s, fault=None): s.log=[]; s.n=0; s.fault=fault
    def use(s, ev):
        s.n+=1
        s.log.append(ev)
        if s.fault is not None and s.n==s.fault:
            s.exc=Boom(s.n); raise s.exc

def sync_src(ctx, name, items):
    class S:
        def __iter__(s): return s
        def __next__(s):
            ctx.use(('pull',name))
            if not s.it: ctx.log.append(('end',name)); raise StopIteration
            return s.it.pop(0)
    o=S(); o.it=list(items); return o
def async_src(ctx, name, items):
    class S:
        def __aiter__(s): return s
        async def __anext__(s):
            ctx.use(('pull',name))
            if not s.it: ctx.log.append(('end',name)); raise StopAsyncIteration
            return s.it.pop(0)
    o=S(); o.it=list(items); return o
def fn(ctx, name, f):
    def g(*args):
        ctx.use(('call',name,args)); return f(*args)
    return g

def drive_sync(ctx, mk, steps):
    out=[]
    try:
        it=mk()
        for _ in range(steps):
            try: v=next(it)
            except StopIteration: ctx.log.append(('STOP',)); break
            ctx.log.append(('yield',v)); out.append(v)
    except BaseException as e:
        ctx.log.append(('RAISE', type(e).__name__, e is getattr(ctx,'exc',None)))
    return ctx.log
def drive_async(ctx, mk, steps):
    async def main():
        try:
            it=mk()
            for _ in range(steps):
                try: v=await it.__anext__()
                except StopAsyncIteration: ctx.log.append(('STOP',)); break
                ctx.log.append(('yield',v))
        except BaseException as e:
            ctx.log.append(('RAISE', type(e).__name__, e is getattr(ctx,'exc',None)))
    run(main()); return ctx.log

R=random.Random(1)
def rl(n=None, hi=3): 
    n = R.randint(0,5) if n is None else n
    return [R.randint(0,hi) for _ in range(n)]

def cases():
    for _ in range(300):
        k=R.randint(1,3); ls=[rl() for _ in range(k)]
        yield 'zip', ls, lambda c,S,ls=ls: zip(*[S(c,i,l) for i,l in enumerate(ls)]), lambda c,S,ls=ls: a.zip(*[S(c,i,l) for i,l in enumerate(ls)])
        yield 'zip_strict', ls, lambda c,S,ls=ls: zip(*[S(c,i,l) for i,l in enumerate(ls)],strict=True), lambda c,S,ls=ls: a.zip(*[S(c,i,l) for i,l in enumerate(ls)],strict=True)
        yield 'zip_longest', ls, lambda c,S,ls=ls: itertools.zip_longest(*[S(c,i,l) for i,l in enumerate(ls)],fillvalue='F'), lambda c,S,ls=ls: a.zip_longest(*[S(c,i,l) for i,l in enumerate(ls)],fillvalue='F')
        yield 'map', ls, lambda c,S,ls=ls: map(fn(c,'f',lambda *x: sum(x)), *[S(c,i,l) for i,l in enumerate(ls)]), lambda c,S,ls=ls: a.map(fn(c,'f',lambda *x: sum(x)), *[S(c,i,l) for i,l in enumerate(ls)])
        yield 'chain', ls, lambda c,S,ls=ls: itertools.chain(*[S(c,i,l) for i,l in enumerate(ls)]), lambda c,S,ls=ls: a.chain(*[S(c,i,l) for i,l in enumerate(ls)])
        srt=[sorted(l) for l in ls]
        yield 'merge', srt, lambda c,S,ls=srt: heapq.merge(*[S(c,i,l) for i,l in enumerate(ls)]), lambda c,S,ls=srt: a.merge(*[S(c,i,l) for i,l in enumerate(ls)])
        yield 'merge_key', srt, lambda c,S,ls=srt: heapq.merge(*[S(c,i,l) for i,l in enumerate(ls)], key=fn(c,'k',lambda x:x)), lambda c,S,ls=srt: a.merge(*[S(c,i,l) for i,l in enumerate(ls)], key=fn(c,'k',lambda x:x))
        l=rl(); l2=rl()
        yield 'filter', l, lambda c,S,l=l: filter(fn(c,'p',lambda x:x%2), S(c,0,l)), lambda c,S,l=l: a.filter(fn(c,'p',lambda x:x%2), S(c,0,l))
        yield 'filterNone', l, lambda c,S,l=l: filter(None, S(c,0,l)), lambda c,S,l=l: a.filter(None, S(c,0,l))
        yield 'filterfalse', l, lambda c,S,l=l: itertools.filterfalse(fn(c,'p',lambda x:x%2), S(c,0,l)), lambda c,S,l=l: a.filterfalse(fn(c,'p',lambda x:x%2), S(c,0,l))
        yield 'enumerate', l, lambda c,S,l=l: enumerate(S(c,0,l), 5), lambda c,S,l=l: a.enumerate(S(c,0,l), 5)
        yield 'accumulate', l, lambda c,S,l=l: itertools.accumulate(S(c,0,l), fn(c,'f',operator.add)), lambda c,S,l=l: a.accumulate(S(c,0,l), fn(c,'f',operator.add))
        yield 'accumulate_init', l, lambda c,S,l=l: itertools.accumulate(S(c,0,l), fn(c,'f',operator.add), initial=7), lambda c,S,l=l: a.accumulate(S(c,0,l), fn(c,'f',operator.add), initial=7)
        n=R.randint(1,3)
        yield 'batched', (l,n), lambda c,S,l=l,n=n: itertools.batched(S(c,0,l), n), lambda c,S,l=l,n=n: a.batched(S(c,0,l), n)
        yield 'compress', (l,l2), lambda c,S,l=l,l2=l2: itertools.compress(S(c,0,l), S(c,1,l2)), lambda c,S,l=l,l2=l2: a.compress(S(c,0,l), S(c,1,l2))
        yield 'dropwhile', l, lambda c,S,l=l: itertools.dropwhile(fn(c,'p',lambda x:x<2), S(c,0,l)), lambda c,S,l=l: a.dropwhile(fn(c,'p',lambda x:x<2), S(c,0,l))
        yield 'takewhile', l, lambda c,S,l=l: itertools.takewhile(fn(c,'p',lambda x:x<2), S(c,0,l)), lambda c,S,l=l: a.takewhile(fn(c,'p',lambda x:x<2), S(c,0,l))
        yield 'pairwise', l, lambda c,S,l=l: itertools.pairwise(S(c,0,l)), lambda c,S,l=l: a.pairwise(S(c,0,l))
        yield 'cycle', l, lambda c,S,l=l: itertools.cycle(S(c,0,l)), lambda c,S,l=l: a.cycle(S(c,0,l))
        yield 'starmap', l, lambda c,S,l=l: itertools.starmap(fn(c,'f',lambda x,y:x+y), S(c,0,[(x,x) for x in l])), lambda c,S,l=l: a.starmap(fn(c,'f',lambda x,y:x+y), S(c,0,[(x,x) for x in l]))
        sl=R.choice([(R.randint(0,6),), (R.randint(0,4),R.randint(0,6)), (R.randint(0,4),None), (None,R.randint(0,6),R.randint(1,3)), (R.randint(0,4),R.randint(0,6),R.randint(1,3)), (R.randint(0,3),None,R.randint(1,3)), (None,)])
        yield 'islice', (l,sl), lambda c,S,l=l,sl=sl: itertools.islice(S(c,0,l), *sl), lambda c,S,l=l,sl=sl: a.islice(S(c,0,l), *sl)
        yield 'iter_sentinel', l, lambda c,S,l=l: iter(fn(c,'f',iter(l+[2]).__next__), 2), lambda c,S,l=l: a.iter(fn(c,'f',iter(l+[2]).__next__), 2)

seen={}
for name, inp, ms, ma in cases():
    # total uses w/o fault
    c=Ctx(); drive_sync(c, lambda: ms(c,sync_src), 12); total=c.n
    for fault in [None]+list(range(1,total+2)):
        for steps in ([12] if fault else range(0,9)):
            c1=Ctx(fault); l1=drive_sync(c1, lambda: ms(c1,sync_src), steps)
            c2=Ctx(fault); l2=drive_async(c2, lambda: ma(c2,async_src), steps)
            if l1!=l2:
                key=(name, 'fault' if fault else 'lazy')
                if key not in seen:
                    seen[key]=1
                    print("DIFF", name, inp, "fault",fault,"steps",steps); print("   std:", l1); print("   asl:", l2)
print("done", len(seen))
