import sys, itertools, heapq, functools, contextlib
sys.path.insert(0, '/repo')
import asyncstdlib as a

def run(coro):
    try:
        coro.send(None)
    except StopIteration as e:
        return e.value
    raise RuntimeError("suspended")

class Src:
    def __init__(s, items, name="s", fail_at=None):
        s.items=list(items); s.i=0; s.closed=0; s.exhausted=False; s.name=name; s.fail_at=fail_at
    def __aiter__(s): return s
    async def __anext__(s):
        if s.closed: raise StopAsyncIteration
        if s.fail_at is not None and s.i==s.fail_at: raise KeyError(s.name)
        if s.i>=len(s.items): s.exhausted=True; raise StopAsyncIteration
        s.i+=1; return s.items[s.i-1]
    async def aclose(s): s.closed+=1
    def __repr__(s): return f"<{s.name} i={s.i} closed={s.closed} exh={s.exhausted}>"

def agen_src(items, log):
    async def g():
        try:
            for i in items: yield i
            log.append('exhausted')
        finally:
            log.append('finalized')
    return g()

def tryit(f):
    try: return f()
    except BaseException as e: return f"{type(e).__name__}: {e}"

# tee unstarted close
s=Src([1,2,3]); t=a.tee(s, 2); print("tee unstarted aclose:", tryit(lambda: run(t.aclose())), s)
s=Src([1,2,3]); t=a.tee(s, 2); run(a.anext(t[0])); print("tee one started aclose:", tryit(lambda: run(t.aclose())), s)
s=Src([1,2,3]); t=a.tee(s, 2); run(a.anext(t[0])); run(a.anext(t[1])); print("tee both started aclose:", tryit(lambda: run(t.aclose())), s)
# groupby unstarted
s=Src([1,2,3]); g=a.groupby(s); print("groupby unstarted aclose:", tryit(lambda: run(g.aclose())), s)
s=Src([1,2,3]); g=a.groupby(s); run(a.anext(g)); print("groupby started aclose:", tryit(lambda: run(g.aclose())), s)
# chain unstarted
s=Src([1,2,3]); s2=Src([4]); c=a.chain(s, s2); print("chain unstarted aclose:", tryit(lambda: run(c.aclose())), s, s2)
s=Src([1,2,3]); s2=Src([4]); c=a.chain.from_iterable([s, s2]); run(a.anext(c)); print("chain.from_iterable started aclose:", tryit(lambda: run(c.aclose())), s, s2)
# merge leak on head failure
s0=Src([1,2],"s0"); s1=Src([1,2],"s1", fail_at=0); s2=Src([1],"s2")
m=a.merge(s0,s1,s2); print("merge head fail:", tryit(lambda: run(a.anext(m))), tryit(lambda: run(m.aclose())), s0,s1,s2)
s0=Src([1,2],"s0"); s1=Src([1,2],"s1", fail_at=1); s2=Src([1],"s2")
m=a.merge(s0,s1,s2); print("merge later fail:", tryit(lambda: run(a.list(m))), s0,s1,s2)
# merge closed after first item
s0=Src([1,2],"s0"); s1=Src([],"s1"); s2=Src([1],"s2")
m=a.merge(s0,s1,s2); print("merge close after 1:", run(a.anext(m)), tryit(lambda: run(m.aclose())), s0,s1,s2)
# zip_longest
s0=Src([1,2],"s0"); s1=Src([],"s1"); s2=Src([1],"s2", fail_at=1)
m=a.zip_longest(s0,s1,s2); print("zip_longest fail:", tryit(lambda: run(a.list(m))), s0,s1,s2)
# sum / list / etc releasing source on failure
for name in ["sum","list","tuple","set","dict","sorted"]:
    s0=Src([1,2,3],"s0", fail_at=2)
    print(name, "fail:", tryit(lambda: run(getattr(a,name)(s0))), s0)
s0=Src([1,2,3],"s0", fail_at=2); print("sorted key fail:", tryit(lambda: run(a.sorted(s0, key=lambda x:x))), s0)
s0=Src([1,2,3],"s0"); print("sum typeerr:", tryit(lambda: run(a.sum(s0, start='x'))), s0)
s0=Src([1,2,3],"s0"); print("min ok:", tryit(lambda: run(a.min(s0))), s0)
# ExitStack twice
log=[]
async def es():
    st=a.ExitStack()
    async with st:
        st.callback(lambda: log.append('cb1'))
        st.callback(lambda: log.append('cb2'))
    await st.aclose()
run(es()); print("ExitStack exits:", log)
log=[]
async def es2():
    st=a.ExitStack()
    st.callback(lambda: log.append('cb1'))
    n=st.pop_all()
    await st.aclose(); log.append('--'); await n.aclose(); await n.aclose()
run(es2()); print("ExitStack pop_all:", log)
# dict
print("dict kw:", run(a.dict([(1,2)], x=3)), run(a.dict(x=3)))
# iter sentinel
vals=iter([1,2,3,0,5]); print("iter sentinel", run(a.list(a.iter(lambda: next(vals), 0))), list(iter(iter([1,2,3,0,5]).__next__, 0)))
# accumulate
print("acc", run(a.list(a.accumulate([1,2,3], initial=10))), list(itertools.accumulate([1,2,3], initial=10)))
print("acc empty initial None", tryit(lambda: run(a.list(a.accumulate([], initial=None)))), list(itertools.accumulate([], initial=None)))
print("islice step0", tryit(lambda: run(a.list(a.islice(range(5), 0, 4, 0)))), tryit(lambda: list(itertools.islice(range(5),0,4,0))))
print("islice neg", tryit(lambda: run(a.list(a.islice(range(5), -1)))), tryit(lambda: list(itertools.islice(range(5),-1))))
print("zip strict", tryit(lambda: run(a.list(a.zip([1],[1,2], strict=True)))), tryit(lambda: list(zip([1],[1,2], strict=True))))
print("zip strict", tryit(lambda: run(a.list(a.zip([1,2],[1], [1,2], strict=True)))), tryit(lambda: list(zip([1,2],[1],[1,2], strict=True))))
print("zip strict", tryit(lambda: run(a.list(a.zip([],[1], [1,2], strict=True)))), tryit(lambda: list(zip([],[1],[1,2], strict=True))))
print("batched", tryit(lambda: run(a.list(a.batched(range(5), 2)))), tryit(lambda: list(itertools.batched(range(5),2))))
print("batched0", tryit(lambda: run(a.list(a.batched(range(5), 0)))), tryit(lambda: list(itertools.batched(range(5),0))))
