import sys, itertools, heapq, functools, contextlib
sys.path.insert(0, '/repo')
import asyncstdlib as a

def run(coro):
    try:
        coro.send(None)
    except StopIteration as e:
        return e.value
    raise RuntimeError("suspended")

class It:
    """equal-but-distinguishable"""
    def __init__(s, k, tag): s.k, s.tag = k, tag
    def __lt__(s, o): return s.k < o.k
    def __gt__(s, o): return s.k > o.k
    def __eq__(s, o): return s.k == o.k
    def __hash__(s): return hash(s.k)
    def __repr__(s): return f"{s.k}{s.tag}"

def T(name, got, want):
    print(("OK   " if repr(got)==repr(want) else "DIFF "), name, "got", got, "want", want)

xs = [It(1,'a'), It(2,'b'), It(2,'c'), It(1,'d')]
T("max ties", run(a.max(xs)), max(xs))
T("min ties", run(a.min(xs)), min(xs))
T("max key ties", run(a.max(xs, key=lambda x: x.k)), max(xs, key=lambda x:x.k))
# default passed to key?
calls=[]
def key(x): calls.append(x); return x
T("max empty key default", run(a.max([], key=key, default='D')), max([], key=key, default='D')); print("  key calls", calls)
# sum mutates start
st=[]; r=run(a.sum([[1],[2]], st)); print("sum start mutated:", st, r)
# sorted one-shot iterator w/ unorderable
def tryit(f):
    try: return f()
    except BaseException as e: return type(e).__name__
T("sorted oneshot unorderable", tryit(lambda: run(a.sorted(iter([1,'a',2])))), tryit(lambda: sorted(iter([1,'a',2]))))
T("sorted ties rev", run(a.sorted(xs, reverse=True)), sorted(xs, reverse=True))
T("sorted key ties rev", run(a.sorted(xs, key=lambda x:x.k, reverse=True)), sorted(xs, key=lambda x:x.k, reverse=True))
# nlargest / nsmallest ties
for n in range(0,6):
    T(f"nlargest {n}", run(a.nlargest(xs, n)), heapq.nlargest(n, xs))
    T(f"nsmallest {n}", run(a.nsmallest(xs, n)), heapq.nsmallest(n, xs))
    T(f"nlargest key {n}", run(a.nlargest(xs, n, key=lambda x:x.k)), heapq.nlargest(n, xs, key=lambda x:x.k))
    T(f"nsmallest key {n}", run(a.nsmallest(xs, n, key=lambda x:x.k)), heapq.nsmallest(n, xs, key=lambda x:x.k))
# merge ties
A=[It(1,'a0'),It(2,'a1')]; B=[It(1,'b0'),It(2,'b1')]; C=[It(1,'c0'),It(2,'c1')]
T("merge", run(a.list(a.merge(A,B,C))), list(heapq.merge(A,B,C)))
T("merge rev", run(a.list(a.merge(A[::-1],B[::-1],C[::-1], reverse=True))), list(heapq.merge(A[::-1],B[::-1],C[::-1], reverse=True)))
T("merge key rev", run(a.list(a.merge(A[::-1],B[::-1],C[::-1], key=lambda x:x.k, reverse=True))), list(heapq.merge(A[::-1],B[::-1],C[::-1], key=lambda x:x.k, reverse=True)))
T("merge key", run(a.list(a.merge(A,B,C, key=lambda x:x.k))), list(heapq.merge(A,B,C, key=lambda x:x.k)))
