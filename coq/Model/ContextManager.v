(* asyncstdlib.contextlib.contextmanager (_AsyncGeneratorContextManager.__aenter__ / __aexit__) and the
   specification: CPython 3.12 contextlib._AsyncGeneratorContextManager, both as functions of how the
   generator responds to being resumed / thrown into / closed.  Definitions only. *)
From Coq Require Import List Bool Arith.
Import ListNotations.

Inductive ekind := KExc | KBaseExc | KStopIter | KStopAsync | KRuntime | KGenExit | KKbd.
Definition ekind_eqb (a b : ekind) : bool :=
  match a, b with
  | KExc, KExc | KBaseExc, KBaseExc | KStopIter, KStopIter | KStopAsync, KStopAsync
  | KRuntime, KRuntime | KGenExit, KGenExit | KKbd, KKbd => true
  | _, _ => false
  end.
(* isinstance(exception of class a, b) for the classes involved *)
Definition subclass (a b : ekind) : bool :=
  match b with
  | KBaseExc => true
  | KExc => match a with KExc | KStopIter | KStopAsync | KRuntime => true | _ => false end
  | _ => ekind_eqb a b
  end.
Record ex := mkEx { e_kind : ekind; e_id : nat }.     (* identity = e_id *)
Definition same_ex (a b : ex) : bool := Nat.eqb (e_id a) (e_id b).

(* how the generator responds to one __anext__ / athrow(value) / aclose() *)
Inductive gresp :=
| GYield                                   (* it yields (again) *)
| GStop                                    (* it finishes: the call raises a fresh StopAsyncIteration / aclose returns None *)
| GRaise (e : ex) (cause_is_thrown : bool). (* the call raises e; whether e.__cause__ is the thrown value *)

(* what __aexit__ does *)
Inductive aexit :=
| RetTrue | RetFalse                       (* returned truthy (suppress) / falsy *)
| Raises (e : ex)                          (* an exception coming from the generator propagates *)
| RuntimeNotStopped.                       (* the library's own RuntimeError "generator did not stop" *)
Inductive aenter := Entered | RuntimeNoYield | EnterRaises (e : ex).

(* ---------------- asyncstdlib ---------------- *)
Definition asl_aenter (first : gresp) : aenter :=
  match first with
  | GYield => Entered
  | GStop => RuntimeNoYield
  | GRaise e _ => EnterRaises e
  end.
(* the except-clauses of __aexit__ in source order: StopAsyncIteration, RuntimeError, exc_type *)
Definition asl_handlers (value : ex) (raised : ex) (cause_is_value : bool) : aexit :=
  if subclass (e_kind raised) KStopAsync then RetTrue                       (* exc is not exc_tb: always true *)
  else if subclass (e_kind raised) KRuntime then
         if same_ex raised value then RetFalse
         else if (subclass (e_kind value) KStopIter || subclass (e_kind value) KStopAsync) && cause_is_value then RetFalse
         else Raises raised
  else if subclass (e_kind raised) (e_kind value) then
         if same_ex raised value then RetFalse else Raises raised
  else Raises raised.                                                       (* no clause matches *)
Definition fresh_stop : ex := mkEx KStopAsync 0.     (* id 0 is reserved for the interpreter-made StopAsyncIteration *)
Definition asl_aexit (block : option ex) (resp : gresp) : aexit :=
  match block with
  | None =>
      match resp with
      | GStop => RetFalse
      | GYield => RuntimeNotStopped
      | GRaise e _ => Raises e
      end
  | Some value =>
      match resp with
      | GStop =>
          if ekind_eqb (e_kind value) KGenExit then RetFalse               (* aclose() returned None *)
          else asl_handlers value fresh_stop false
      | GYield => RuntimeNotStopped      (* athrow returned a value; for GeneratorExit aclose raises instead, see harness *)
      | GRaise e c => asl_handlers value e c
      end
  end.
(* for a GeneratorExit block outcome the generator is closed (aclose), otherwise thrown into (athrow) *)
Definition asl_uses_aclose (block : option ex) : bool :=
  match block with Some v => ekind_eqb (e_kind v) KGenExit | None => false end.

(* ---------------- CPython 3.12 contextlib.asynccontextmanager ---------------- *)
Definition std_aenter (first : gresp) : aenter :=
  match first with
  | GYield => Entered
  | GStop => RuntimeNoYield
  | GRaise e _ => EnterRaises e
  end.
(* except StopAsyncIteration / except RuntimeError / except BaseException *)
Definition std_handlers (value : ex) (raised : ex) (cause_is_value : bool) : aexit :=
  if subclass (e_kind raised) KStopAsync then (if same_ex raised value then RetFalse else RetTrue)
  else if subclass (e_kind raised) KRuntime then
         if same_ex raised value then RetFalse
         else if (subclass (e_kind value) KStopIter || subclass (e_kind value) KStopAsync) && cause_is_value then RetFalse
         else Raises raised
  else if same_ex raised value then RetFalse else Raises raised.
Definition std_aexit (block : option ex) (resp : gresp) : aexit :=
  match block with
  | None =>
      match resp with
      | GStop => RetFalse
      | GYield => RuntimeNotStopped
      | GRaise e _ => Raises e
      end
  | Some value =>
      match resp with
      | GStop => std_handlers value fresh_stop false
      | GYield => RuntimeNotStopped
      | GRaise e c => std_handlers value e c
      end
  end.

(* ---------------- the with statement around it ---------------- *)
Inductive wout := WNormal | WRaises (e : ex) | WRuntimeLib.    (* WRuntimeLib: a RuntimeError made by the library *)
Definition with_outcome (block : option ex) (r : aexit) : wout :=
  match r with
  | Raises e => WRaises e
  | RuntimeNotStopped => WRuntimeLib
  | RetTrue => WNormal
  | RetFalse => match block with None => WNormal | Some v => WRaises v end
  end.

(* well-formed responses: what an async generator can actually do *)
Definition resp_wf (block : option ex) (resp : gresp) : bool :=
  match resp with
  | GRaise e c =>
      negb (ekind_eqb (e_kind e) KStopAsync)            (* an escaping StopAsyncIteration is converted to RuntimeError (PEP 525) *)
      && negb (Nat.eqb (e_id e) 0)
      && (negb c || ekind_eqb (e_kind e) KRuntime)
      && match block with
         | Some v => negb (same_ex e v) || ekind_eqb (e_kind e) (e_kind v)
         | None => negb c
         end
  | _ => true
  end.

(* ---------------- comparison for the correspondence check ---------------- *)
Definition ex_eqb (a b : ex) : bool := ekind_eqb (e_kind a) (e_kind b) && Nat.eqb (e_id a) (e_id b).
Definition wout_eqb (a b : wout) : bool :=
  match a, b with
  | WNormal, WNormal | WRuntimeLib, WRuntimeLib => true
  | WRaises e, WRaises e' => ex_eqb e e'
  | _, _ => false
  end.
Record ccase := mkCC {
  cc_block : option ex;        (* how the with-block ended *)
  cc_resp : gresp;             (* how the generator responded (observed on the real generator) *)
  cc_asl : wout;               (* outcome of `async with asyncstdlib.contextmanager(gen)()` *)
  cc_std : wout                (* outcome with contextlib.asynccontextmanager *)
}.
Definition ccase_ok (c : ccase) : bool :=
  wout_eqb (with_outcome (cc_block c) (asl_aexit (cc_block c) (cc_resp c))) (cc_asl c)
  && (asl_uses_aclose (cc_block c)
      || wout_eqb (with_outcome (cc_block c) (std_aexit (cc_block c) (cc_resp c))) (cc_std c)).
Fixpoint cfailing_from (i : nat) (l : list ccase) : list nat :=
  match l with [] => [] | c :: r => if ccase_ok c then cfailing_from (S i) r else i :: cfailing_from (S i) r end.
Definition cfailing (l : list ccase) : list nat := cfailing_from 0 l.
