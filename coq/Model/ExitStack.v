(* asyncstdlib.contextlib.ExitStack: the unwinding loop of __aexit__ and the stack operations, and the
   specification: the recursive semantics of nested (async) with statements.  Definitions only. *)
From Coq Require Import List ZArith NArith Bool Arith.
Import ListNotations.

(* what an exit does when called with the exception in flight (or none) *)
Inductive behaviour := BFalsy | BTruthy | BRaise (e : nat).
Inductive xkind := KExit | KCallback.    (* exit signature (CM / pushed exit) | callback with arguments: cannot suppress *)
Record entry := mkEntry {
  x_id : nat;
  x_kind : xkind;
  x_on_none : behaviour;      (* behaviour when no exception is in flight *)
  x_on_exc : behaviour        (* behaviour when one is *)
}.
Definition behave (x : entry) (inflight : option nat) : behaviour :=
  match inflight with None => x_on_none x | Some _ => x_on_exc x end.

Inductive xoutcome := XNormal | XRaises (e : nat).
(* one exit invocation as it is observed: who ran, and which exception it was handed *)
Definition xcall := (nat * option nat)%type.

(* ---------------- the implementation: the loop of ExitStack.__aexit__ ---------------- *)
(* state of the loop: exception in flight (exc_val), suppress_exc, reraise_exc *)
Fixpoint unwind_loop (newest_first : list entry) (exc : option nat) (suppress reraise : bool) (log : list xcall)
  : option nat * bool * bool * list xcall :=
  match newest_first with
  | [] => (exc, suppress, reraise, log)
  | x :: r =>
      let log' := log ++ [(x_id x, exc)] in
      match x_kind x, behave x exc with
      | _, BRaise e => unwind_loop r (Some e) suppress true log'
      | KExit, BTruthy => unwind_loop r None true false log'
      | _, _ => unwind_loop r exc suppress reraise log'          (* falsy result, or a callback's ignored result *)
      end
  end.
(* __aexit__(exc) followed by what the [async with] statement (or aclose) does with its result *)
Definition stack_exit (registered : list entry) (block : xoutcome) : xoutcome * list xcall :=
  let received := match block with XNormal => None | XRaises e => Some e end in
  let '(exc, suppress, reraise, log) := unwind_loop (rev registered) received false false [] in
  (match reraise, exc with
   | true, Some e => XRaises e
   | _, _ => match block with
             | XNormal => XNormal
             | XRaises e => if suppress then XNormal else XRaises e
             end
   end, log).

(* ---------------- the specification: nested with statements ---------------- *)
(* async with x1: async with x2: ... block   (x1 registered first = outermost) *)
Fixpoint nested (registered : list entry) (block : xoutcome) : xoutcome * list xcall :=
  match registered with
  | [] => (block, [])
  | x :: inner =>
      let '(o, log) := nested inner block in
      let inflight := match o with XNormal => None | XRaises e => Some e end in
      (match behave x inflight, x_kind x with
       | BRaise e, _ => XRaises e
       | BTruthy, KExit => XNormal
       | _, _ => o
       end, log ++ [(x_id x, inflight)])
  end.

(* ---------------- histories over several stacks ---------------- *)
Inductive xop :=
| XRegister (stack : nat) (x : entry)        (* push / callback / successful enter_context *)
| XEnterFails (stack : nat) (x : entry)      (* enter_context whose __aenter__ raises: nothing is registered *)
| XPopAll (stack : nat)                      (* the new stack gets the next free number *)
| XUnwind (stack : nat) (block : xoutcome).  (* aclose() = XNormal; leaving the with-block normally / by exception *)
Inductive xobs := XDone | XNewStack (n : nat) | XUnwound (o : xoutcome) (calls : list xcall).
Record xstate := mkX { stacks : list (list entry) }.    (* per stack: entries in registration order *)
Definition x_init := mkX [[]].
Fixpoint set_nth {A} (n : nat) (x : A) (l : list A) : list A :=
  match l, n with
  | [], _ => []
  | _ :: t, 0 => x :: t
  | h :: t, S n' => h :: set_nth n' x t
  end.
Definition x_do (s : xstate) (op : xop) : xstate * xobs :=
  match op with
  | XRegister i x => (mkX (set_nth i (nth i (stacks s) [] ++ [x]) (stacks s)), XDone)
  | XEnterFails i x => (s, XDone)
  | XPopAll i => (mkX (set_nth i [] (stacks s) ++ [nth i (stacks s) []]), XNewStack (length (stacks s)))
  | XUnwind i block =>
      let '(o, calls) := stack_exit (nth i (stacks s) []) block in
      (mkX (set_nth i [] (stacks s)), XUnwound o calls)       (* every callback is popped while unwinding *)
  end.
Fixpoint x_run (s : xstate) (ops : list xop) : list xobs :=
  match ops with
  | [] => []
  | op :: r => let '(s', o) := x_do s op in o :: x_run s' r
  end.

(* ---------------- comparison for the correspondence check ---------------- *)
Definition xout_eqb (a b : xoutcome) : bool :=
  match a, b with XNormal, XNormal => true | XRaises e, XRaises e' => Nat.eqb e e' | _, _ => false end.
(* [cb]: ids of callbacks -- a real callback is not handed the exception in flight, so what it received is not
   observable and is not compared for those ids *)
Definition xcall_eqb (cb : list nat) (a b : xcall) : bool :=
  Nat.eqb (fst a) (fst b) &&
  (existsb (Nat.eqb (fst a)) cb ||
   match snd a, snd b with None, None => true | Some x, Some y => Nat.eqb x y | _, _ => false end).
Fixpoint xcalls_eqb (cb : list nat) (a b : list xcall) : bool :=
  match a, b with [], [] => true | x :: a', y :: b' => xcall_eqb cb x y && xcalls_eqb cb a' b' | _, _ => false end.
Definition xobs_eqb (cb : list nat) (a b : xobs) : bool :=
  match a, b with
  | XDone, XDone => true
  | XNewStack n, XNewStack m => Nat.eqb n m
  | XUnwound o c, XUnwound o' c' => xout_eqb o o' && xcalls_eqb cb c c'
  | _, _ => false
  end.
Fixpoint xobs_list_eqb (cb : list nat) (a b : list xobs) : bool :=
  match a, b with [], [] => true | x :: a', y :: b' => xobs_eqb cb x y && xobs_list_eqb cb a' b' | _, _ => false end.
Record xcase := mkXC { xc_ops : list xop; xc_obs : list xobs; xc_cb : list nat }.
Definition xcase_ok (c : xcase) : bool := xobs_list_eqb (xc_cb c) (x_run x_init (xc_ops c)) (xc_obs c).
Fixpoint xfailing_from (i : nat) (l : list xcase) : list nat :=
  match l with [] => [] | c :: r => if xcase_ok c then xfailing_from (S i) r else i :: xfailing_from (S i) r end.
Definition xfailing (l : list xcase) : list nat := xfailing_from 0 l.
(* single-unwind comparison against real nested with statements *)
Record ncase := mkNC { nc_entries : list entry; nc_block : xoutcome; nc_out : xoutcome; nc_calls : list xcall; nc_cb : list nat }.
Definition ncase_ok (c : ncase) : bool :=
  let '(o, calls) := nested (nc_entries c) (nc_block c) in xout_eqb o (nc_out c) && xcalls_eqb (nc_cb c) calls (nc_calls c).
Fixpoint nfailing_from (i : nat) (l : list ncase) : list nat :=
  match l with [] => [] | c :: r => if ncase_ok c then nfailing_from (S i) r else i :: nfailing_from (S i) r end.
Definition nfailing (l : list ncase) : list nat := nfailing_from 0 l.
