(* One datatype for every modelled tool/aggregation, its interpreter, and the comparison
   functions the correspondence check evaluates with vm_compute. *)
From Coq Require Import List ZArith NArith Bool Arith.
Import ListNotations.
Require Import V.Kernel.Values V.Kernel.Monad V.Kernel.Fn V.Model.Builtins V.Model.Itertools V.Model.Heapq.

Inductive tool :=
| TZip (strict : bool) (n : nat) | TMap (f : fn) (n : nat) | TFilter (f : option fn) | TEnumerate (start : Z)
| TIterSentinel (sentinel : val)
| TAll | TAny | TMin (key : option fn) (default : option val) | TMax (key : option fn) (default : option val)
| TSum (start : val) | TList | TTuple | TSet | TDict | TSorted (key : option fn) (reverse : bool)
| TCycle (passes : nat) | TAccumulate (f : option fn) (initial : option val) | TBatched (n : Z) (strict : bool)
| TChain (n : nat) | TChainUnstartedClose (n : nat) | TCompress | TDropwhile (f : fn) | TTakewhile (f : fn)
| TFilterfalse (f : option fn) | TStarmap (f : fn) | TIslice (start : Z) (stop : option Z) (step : Z)
| TPairwise | TZipLongest (n : nat) (fill : val)
| TMerge (n : nat) (key : option fn) (reverse : bool)
| TNlargest (n : Z) (key : option fn) | TNsmallest (n : Z) (key : option fn)
| TReduce (f : fn) (initial : option val).

Definition ofn (f : option fn) : option (list val -> val) := option_map apply_fn f.
Definition gen_run (g : gen) : M val := run_gen g ;;; ret VNone.

Definition run_tool (t : tool) : M val :=
  match t with
  | TZip strict n => gen_run (a_zip strict (seq 0 n))
  | TMap f n => gen_run (a_map (apply_fn f) (seq 0 n))
  | TFilter f => gen_run (a_filter (ofn f))
  | TEnumerate s => gen_run (a_enumerate s)
  | TIterSentinel s => gen_run (a_iter_sentinel s)
  | TAll => a_all | TAny => a_any
  | TMin k d => a_min_max false (ofn k) d
  | TMax k d => a_min_max true (ofn k) d
  | TSum s => a_sum s
  | TList => a_list | TTuple => a_tuple | TSet => a_set | TDict => a_dict
  | TSorted k r => a_sorted (ofn k) r
  | TCycle p => gen_run (a_cycle p)
  | TAccumulate f i => gen_run (a_accumulate (ofn f) i)
  | TBatched n s => gen_run (a_batched n s)
  | TChain n => run_chain (seq 0 n) ;;; ret VNone
  | TChainUnstartedClose n => chain_close_unstarted (seq 0 n) ;;; ret VNone
  | TCompress => gen_run a_compress
  | TDropwhile f => gen_run (a_dropwhile (apply_fn f))
  | TTakewhile f => gen_run (a_takewhile (apply_fn f))
  | TFilterfalse f => gen_run (a_filterfalse (ofn f))
  | TStarmap f => gen_run (a_starmap (apply_fn f))
  | TIslice a b c => gen_run (a_islice a b c)
  | TPairwise => gen_run a_pairwise
  | TZipLongest n v => gen_run (a_zip_longest (seq 0 n) v)
  | TMerge n k r => gen_run (a_merge (seq 0 n) (ofn k) r)
  | TNlargest n k => a_nlargest n (ofn k)
  | TNsmallest n k => a_nsmallest n (ofn k)
  | TReduce f i => a_reduce (apply_fn f) i
  end.

(* ---- what the harness observes of one run ---- *)
Inductive obs_out := OOk (v : val) | OExn (e : exn) | OFuel.
Record observed := mkObs {
  o_out : obs_out;
  o_log : list event;                          (* oldest first *)
  o_srcs : list (bool * nat * nat)             (* per source: exhausted, aclose invoked, aclose completed *)
}.
Definition out_eqb (a b : obs_out) : bool :=
  match a, b with
  | OOk v, OOk v' => val_eqb v v'
  | OExn e, OExn e' => exn_eqb e e'
  | OFuel, OFuel => true
  | _, _ => false
  end.
Definition src_obs (s : src) : bool * nat * nat := (s_exh s, s_closing s, s_closed s).
Definition srcobs_eqb (a b : bool * nat * nat) : bool :=
  let '(e, c, d) := a in let '(e', c', d') := b in Bool.eqb e e' && Nat.eqb c c' && Nat.eqb d d'.

Record case := mkCase {
  c_tool : tool;
  c_srcs : list (list val);
  c_acl : list bool;                           (* per source: has aclose *)
  c_fault : option (nat * exn);
  c_obs : observed
}.
Definition case_world (c : case) : world :=
  mkW (map (fun p => fresh_src (snd p) (fst p)) (combine (c_srcs c) (c_acl c))) [] (c_fault c) 0.
Definition model_obs (c : case) : observed :=
  let '(o, w) := run_tool (c_tool c) (case_world c) in
  mkObs (match o with Ok v => OOk v | Exn e => OExn e | Fuel => OFuel end)
        (rev (log w)) (map src_obs (srcs w)).
Definition obs_eqb (a b : observed) : bool :=
  out_eqb (o_out a) (o_out b) && list_eqb event_eqb (o_log a) (o_log b) && list_eqb srcobs_eqb (o_srcs a) (o_srcs b).
Definition case_ok (c : case) : bool := obs_eqb (model_obs c) (c_obs c).

Fixpoint failing_from (i : nat) (l : list case) : list nat :=
  match l with
  | [] => []
  | c :: r => if case_ok c then failing_from (S i) r else i :: failing_from (S i) r
  end.
Definition failing (l : list case) : list nat := failing_from 0 l.
