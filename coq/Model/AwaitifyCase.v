From Coq Require Import List Bool Arith.
Import ListNotations.
Require Import V.Model.Awaitify.
Definition reaction_eqb (a b : reaction) : bool :=
  match a, b with RValue x, RValue y | RRaises x, RRaises y => Nat.eqb x y | _, _ => false end.
Fixpoint outs_eqb (a b : list (nat * reaction)) : bool :=
  match a, b with
  | [], [] => true
  | (n, r) :: a', (n', r') :: b' => Nat.eqb n n' && reaction_eqb r r' && outs_eqb a' b'
  | _, _ => false
  end.
Record wcase := mkWC { wc_flavour : flavour; wc_reactions : list reaction; wc_obs : list (nat * reaction) }.
Definition wcase_ok (c : wcase) : bool := outs_eqb (calls (wc_flavour c) (awaitify (wc_flavour c)) (wc_reactions c)) (wc_obs c).
Fixpoint wfailing_from (i : nat) (l : list wcase) : list nat :=
  match l with [] => [] | c :: r => if wcase_ok c then wfailing_from (S i) r else i :: wfailing_from (S i) r end.
Definition wfailing (l : list wcase) : list nat := wfailing_from 0 l.
