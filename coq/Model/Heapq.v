(* Models of asyncstdlib/heapq.py (merge, nlargest, nsmallest) and functools.reduce.
   heapq itself is modelled as an abstract priority queue: the entry returned by heap[0] /
   replaced by heapreplace is the least entry under the tuple order of the entries. *)
From Coq Require Import List ZArith NArith Bool Arith.
Import ListNotations.
Require Import V.Kernel.Values V.Kernel.Monad V.Model.Builtins.

Definition keyof (key : option (list val -> val)) (x : val) : M val :=
  match key with None => ret x | Some f => call 0 f [x] end.

(* ---------- merge ---------- *)
Record ment := mkMent { m_head : val; m_key : val; m_src : nat }.
(* _KeyIter.__lt__ : reverse ^ (a < b) ; _KeyIter.__eq__ : not (a < b or b < a) *)
Definition keyiter_lt (rev : bool) (a b : val) : option bool := option_map (xorb rev) (py_lt a b).
Definition keyiter_eq (a b : val) : option bool :=
  match py_lt a b, py_lt b a with
  | Some x, Some y => Some (negb (x || y))
  | _, _ => None
  end.
(* tuple order of the heap entries (itr, idx): first position where not ==, then < *)
Definition ment_lt (rev : bool) (a b : ment) : option bool :=
  match keyiter_eq (m_key a) (m_key b) with
  | None => None
  | Some true => Some (Nat.ltb (m_src a) (m_src b))
  | Some false => keyiter_lt rev (m_key a) (m_key b)
  end.
Fixpoint min_ment (rev : bool) (best : ment) (l : list ment) : option ment :=
  match l with
  | [] => Some best
  | e :: r => match ment_lt rev e best with
              | None => None
              | Some true => min_ment rev e r
              | Some false => min_ment rev best r
              end
  end.
Definition drop_src (i : nat) (l : list ment) : list ment := filter (fun e => negb (Nat.eqb (m_src e) i)) l.
Definition put_src (e : ment) (l : list ment) : list ment :=
  map (fun x => if Nat.eqb (m_src x) (m_src e) then e else x) l.

Fixpoint merge_heads (ss : list nat) (key : option (list val -> val)) : M (list ment) :=
  match ss with
  | [] => ret []
  | i :: r => o <- pull i ;;
              match o with
              | None => merge_heads r key
              | Some h => k <- keyof key h ;; rest <- merge_heads r key ;; ret (mkMent h k i :: rest)
              end
  end.
Fixpoint merge_loop (fuel : nat) (rev : bool) (key : option (list val -> val)) (heap : list ment)
  (yield : val -> M unit) : M unit :=
  match fuel with
  | 0 => out_of_fuel
  | S f =>
      match heap with
      | [] => ret tt
      | [e] => yield (m_head e) ;;; each (m_src e) yield       (* one iterator left: no more key calls *)
      | e0 :: rest =>
          match min_ment rev e0 rest with
          | None => raise XTypeError
          | Some m =>
              yield (m_head m) ;;;
              o <- pull (m_src m) ;;
              match o with
              | None => merge_loop f rev key (drop_src (m_src m) heap) yield
              | Some h => k <- keyof key h ;;
                          merge_loop f rev key (put_src (mkMent h k (m_src m)) heap) yield
              end
          end
      end
  end.
Definition a_merge (ss : list nat) (key : option (list val -> val)) (rev : bool) : gen := fun yield =>
  finally (heap <- merge_heads ss key ;;
           fun w => merge_loop (S (total_left w + length ss)) rev key heap yield w)
          (close_all ss).

(* ---------- nlargest / nsmallest (_largest) ---------- *)
Record lent := mkLent { l_key : val; l_ord : Z; l_item : val }.
(* ordered(k): ReverseLT(k) if reverse else k ;  ReverseLT.__lt__ : other.key < self.key *)
Definition ord_lt (reverse : bool) (a b : val) : option bool := if reverse then py_lt b a else py_lt a b.
(* tuple order of (ordered(key), order, item): order values are distinct, the item is never compared *)
Definition lent_lt (reverse : bool) (a b : lent) : option bool :=
  if py_eq (l_key a) (l_key b) then Some (Z.ltb (l_ord a) (l_ord b)) else ord_lt reverse (l_key a) (l_key b).
Fixpoint min_lent (reverse : bool) (best : lent) (l : list lent) : option lent :=
  match l with
  | [] => Some best
  | e :: r => match lent_lt reverse e best with
              | None => None
              | Some true => min_lent reverse e r
              | Some false => min_lent reverse best r
              end
  end.
(* zip(range(n), borrow(iterator)): reads at most n items, one extra poll only if the source is shorter *)
Fixpoint largest_fill (n : nat) (index : Z) (key : option (list val -> val)) : M (list lent) :=
  match n with
  | 0 => ret []
  | S n' => o <- pull 0 ;;
            match o with
            | None => ret []
            | Some x => k <- keyof key x ;; rest <- largest_fill n' (index + 1)%Z key ;;
                        ret (mkLent k (- index)%Z x :: rest)
            end
  end.
Definition replace_lent (old new : lent) (l : list lent) : list lent :=
  map (fun e => if Z.eqb (l_ord e) (l_ord old) then new else e) l.
(* n_heap.sort(reverse=True): descending in the (total) entry order *)
Fixpoint insert_desc (reverse : bool) (x : lent) (l : list lent) : option (list lent) :=
  match l with
  | [] => Some [x]
  | y :: r => match lent_lt reverse y x with
              | None => None
              | Some true => Some (x :: y :: r)
              | Some false => option_map (cons y) (insert_desc reverse x r)
              end
  end.
Fixpoint sort_desc (reverse : bool) (l : list lent) : option (list lent) :=
  match l with
  | [] => Some []
  | x :: r => match sort_desc reverse r with None => None | Some s => insert_desc reverse x s end
  end.
Definition a_largest (n : Z) (key : option (list val -> val)) (reverse : bool) : M val :=
  scoped 0 (
    heap0 <- largest_fill (Z.to_nat n) 0%Z key ;;
    match heap0 with
    | [] => ret (VList [])
    | e0 :: rest0 =>
        r <- loop_src 0 (fun (st : list lent * Z) item =>
               ik <- keyof key item ;;
               match fst st with
               | [] => ret (st, true)
               | h :: t =>
                   match min_lent reverse h t with
                   | None => raise XTypeError
                   | Some worst =>
                       c <- lift_lt (ord_lt reverse (l_key worst) ik) ;;
                       ret (if c then (replace_lent worst (mkLent ik (snd st) item) (fst st), (snd st - 1)%Z)
                            else st, true)
                   end
               end) (heap0, (- n)%Z) ;;
        match sort_desc reverse (fst (fst r)) with
        | None => raise XTypeError
        | Some s => ret (VList (map l_item s))
        end
    end).
Definition a_nlargest (n : Z) (key : option (list val -> val)) : M val := a_largest n key false.
Definition a_nsmallest (n : Z) (key : option (list val -> val)) : M val := a_largest n key true.

(* ---------- functools.reduce ---------- *)
Definition a_reduce (f : list val -> val) (initial : option val) : M val :=
  scoped 0 (
    first <- match initial with Some v => ret (Some v) | None => pull 0 end ;;
    match first with
    | None => raise XTypeError
    | Some v0 => r <- loop_src 0 (fun value head => v <- call 0 f [value; head] ;; ret (v, true)) v0 ;;
                 ret (fst r)
    end).
