(* asyncstdlib.itertools.groupby: a transliteration of _GroupByState / _Grouper / GroupBy as a
   state machine over operations, and (separately, written differently on purpose) the positional
   specification of itertools.groupby.  Definitions only. *)
From Coq Require Import List ZArith NArith Bool Arith.
Import ListNotations.
Require Import V.Kernel.Values.

Inductive gop :=
| GAdv                    (* await groupby.__anext__() *)
| GGroup (i : nat)        (* await group_i.__anext__()  (i = index of the group in order of creation) *)
| GGroupClose (i : nat)   (* await group_i.aclose() *)
| GClose.                 (* await groupby.aclose() *)

Inductive gobs :=
| ONewGroup (key : val) (i : nat)     (* __anext__ returned (key, group number i) *)
| OItem (v : val)
| OStop                               (* StopAsyncIteration *)
| ODone.                              (* aclose returned *)

Definition gobs_eqb (a b : gobs) : bool :=
  match a, b with
  | ONewGroup k i, ONewGroup k' i' => val_eqb k k' && Nat.eqb i i'
  | OItem v, OItem v' => val_eqb v v'
  | OStop, OStop | ODone, ODone => true
  | _, _ => false
  end.

(* ---------------- the implementation's state ---------------- *)
Record gstate := mkG {
  g_rest : list val;               (* items the source has not delivered yet *)
  g_pulls : nat;                   (* number of __anext__ calls on the source *)
  g_closed : nat;                  (* number of aclose calls on the source *)
  g_value : option val;            (* _current_value (None = the sentinel) *)
  g_curkey : option val;           (* current_key (unset before the first step) *)
  g_target : option val;           (* target_key (unset before the first group) *)
  g_group : option nat;            (* current_group: the number of the live group *)
  g_targets : list val             (* _target_key of every group created so far, by number *)
}.
Definition g_init (items : list val) : gstate := mkG items 0 0 None None None None [].

(* _GroupByState.step: None = StopAsyncIteration raised by anext(iterator); state unchanged except the source *)
Definition g_step (key : val -> val) (s : gstate) : option gstate * gstate :=
  match g_rest s with
  | x :: r => if Nat.ltb 0 (g_closed s)
              then (None, mkG (g_rest s) (S (g_pulls s)) (g_closed s) (g_value s) (g_curkey s) (g_target s) (g_group s) (g_targets s))
              else let s' := mkG r (S (g_pulls s)) (g_closed s) (Some x) (Some (key x)) (g_target s) (g_group s) (g_targets s) in
                   (Some s', s')
  | [] => (None, mkG [] (S (g_pulls s)) (g_closed s) (g_value s) (g_curkey s) (g_target s) (g_group s) (g_targets s))
  end.
Definition g_maybe_step (key : val -> val) (s : gstate) : option gstate * gstate :=
  match g_value s with
  | Some _ => (Some s, s)
  | None => g_step key s
  end.
Definition opt_eq (a b : option val) : bool :=
  match a, b with Some x, Some y => py_eq x y | _, _ => false end.

(* the scan "while state.current_key == target_key: await state.step()" ; fuel = items left + 1 *)
Fixpoint g_scan (fuel : nat) (key : val -> val) (tgt : val) (s : gstate) : option gstate * gstate :=
  match fuel with
  | 0 => (None, s)
  | S f => if opt_eq (g_curkey s) (Some tgt)
           then match g_step key s with
                | (Some s', _) => g_scan f key tgt s'
                | (None, s') => (None, s')
                end
           else (Some s, s)
  end.

Definition set_group (s : gstate) (g : option nat) : gstate :=
  mkG (g_rest s) (g_pulls s) (g_closed s) (g_value s) (g_curkey s) (g_target s) g (g_targets s).

Definition g_do (key : val -> val) (s : gstate) (op : gop) : gstate * gobs :=
  match op with
  | GAdv =>
      let s0 := set_group s None in
      match g_maybe_step key s0 with
      | (None, s1) => (s1, OStop)
      | (Some s1, _) =>
          let scanned := match g_target s1 with
                         | None => (Some s1, s1)
                         | Some tgt => g_scan (S (length (g_rest s1))) key tgt s1
                         end in
          match scanned with
          | (None, s2) => (s2, OStop)
          | (Some s2, _) =>
              match g_curkey s2 with
              | None => (s2, OStop)     (* unreachable: a value has been loaded *)
              | Some k =>
                  let i := length (g_targets s2) in
                  (mkG (g_rest s2) (g_pulls s2) (g_closed s2) (g_value s2) (g_curkey s2) (Some k) (Some i) (g_targets s2 ++ [k]),
                   ONewGroup k i)
              end
          end
      end
  | GGroup i =>
      match g_group s with
      | Some j =>
          if Nat.eqb i j then
            match g_maybe_step key s with
            | (None, s1) => (s1, OStop)
            | (Some s1, _) =>
                match nth_error (g_targets s1) i, g_curkey s1, g_value s1 with
                | Some tk, Some ck, Some v =>
                    if py_eq tk ck
                    then (mkG (g_rest s1) (g_pulls s1) (g_closed s1) None (g_curkey s1) (g_target s1) (g_group s1) (g_targets s1), OItem v)
                    else (s1, OStop)
                | _, _, _ => (s1, OStop)
                end
            end
          else (s, OStop)
      | None => (s, OStop)
      end
  | GGroupClose i =>
      match g_group s with
      | Some j => if Nat.eqb i j then (set_group s None, ODone) else (s, ODone)
      | None => (s, ODone)
      end
  | GClose =>
      let s0 := set_group s None in
      (mkG (g_rest s0) (g_pulls s0) (S (g_closed s0)) (g_value s0) (g_curkey s0) (g_target s0) None (g_targets s0), ODone)
  end.

Fixpoint g_run (key : val -> val) (s : gstate) (ops : list gop) : list gobs * gstate :=
  match ops with
  | [] => ([], s)
  | op :: r => let '(s', o) := g_do key s op in
               let '(os, sf) := g_run key s' r in (o :: os, sf)
  end.

(* ---------------- the specification: itertools.groupby, positionally ---------------- *)
(* What remains of the input, the key of the group returned last, and which group number is live. *)
Record sstate := mkS {
  sp_rest : list val;          (* items neither yielded through a group nor skipped *)
  sp_tgt : option val;         (* key of the most recently returned group *)
  sp_live : option nat;        (* number of the live group *)
  sp_count : nat               (* groups returned so far *)
}.
Definition sp_init (items : list val) : sstate := mkS items None None 0.
Fixpoint skip_run (key : val -> val) (tgt : val) (l : list val) : list val :=
  match l with
  | x :: r => if py_eq (key x) tgt then skip_run key tgt r else l
  | [] => []
  end.
Definition sp_do (key : val -> val) (s : sstate) (op : gop) : sstate * gobs :=
  match op with
  | GAdv =>
      let rest := match sp_tgt s with Some t => skip_run key t (sp_rest s) | None => sp_rest s end in
      match rest with
      | [] => (mkS [] (sp_tgt s) None (sp_count s), OStop)
      | x :: _ => (mkS rest (Some (key x)) (Some (sp_count s)) (S (sp_count s)), ONewGroup (key x) (sp_count s))
      end
  | GGroup i =>
      match sp_live s, sp_tgt s, sp_rest s with
      | Some j, Some t, x :: r =>
          if Nat.eqb i j && py_eq t (key x) then (mkS r (sp_tgt s) (sp_live s) (sp_count s), OItem x) else (s, OStop)
      | _, _, _ => (s, OStop)
      end
  | _ => (s, ODone)      (* closing is not part of itertools.groupby *)
  end.
Fixpoint sp_run (key : val -> val) (s : sstate) (ops : list gop) : list gobs :=
  match ops with
  | [] => []
  | op :: r => let '(s', o) := sp_do key s op in o :: sp_run key s' r
  end.

Definition only_adv (ops : list gop) : bool :=
  forallb (fun o => match o with GAdv | GGroup _ => true | _ => false end) ops.

(* comparison helpers for the correspondence check *)
Fixpoint gobs_list_eqb (a b : list gobs) : bool :=
  match a, b with
  | [], [] => true
  | x :: a', y :: b' => gobs_eqb x y && gobs_list_eqb a' b'
  | _, _ => false
  end.
