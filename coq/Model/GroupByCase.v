(* Correspondence cases for groupby: evaluated with vm_compute by harness/check_c16.py *)
From Coq Require Import List ZArith NArith Bool Arith.
Import ListNotations.
Require Import V.Kernel.Values V.Kernel.Fn V.Model.GroupBy.

Definition keyfun (k : option fn) : val -> val :=
  match k with None => fun x => x | Some f => fun x => apply_fn f [x] end.
Record gcase := mkGC {
  gc_items : list val; gc_key : option fn; gc_ops : list gop;
  gc_obs : list gobs;            (* what asyncstdlib.groupby did *)
  gc_pulls : nat; gc_closes : nat;
  gc_std : option (list gobs)    (* what itertools.groupby did under the same (advance-only) operations *)
}.
Definition gcase_ok (c : gcase) : bool :=
  let '(os, sf) := g_run (keyfun (gc_key c)) (g_init (gc_items c)) (gc_ops c) in
  gobs_list_eqb os (gc_obs c) && Nat.eqb (g_pulls sf) (gc_pulls c) && Nat.eqb (g_closed sf) (gc_closes c)
  && match gc_std c with
     | None => true
     | Some so => gobs_list_eqb (sp_run (keyfun (gc_key c)) (sp_init (gc_items c)) (gc_ops c)) so
     end.
Fixpoint gfailing_from (i : nat) (l : list gcase) : list nat :=
  match l with [] => [] | c :: r => if gcase_ok c then gfailing_from (S i) r else i :: gfailing_from (S i) r end.
Definition gfailing (l : list gcase) : list nat := gfailing_from 0 l.
