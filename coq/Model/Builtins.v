(* Models of asyncstdlib/builtins.py (function-style generators and aggregations),
   transliterated from the source into the generator calculus.  Definitions only. *)
From Coq Require Import List ZArith NArith Bool Arith.
Import ListNotations.
Require Import V.Kernel.Values V.Kernel.Monad.

(* ---------- generic loop over one source with state and break ---------- *)
(* body s x = (s', continue?) ; result (s, left_by_break?) *)
Fixpoint iter_src {St : Type} (fuel : nat) (i : nat) (body : St -> val -> M (St * bool)) (s : St) : M (St * bool) :=
  match fuel with
  | 0 => out_of_fuel
  | S f => o <- pull i ;;
           match o with
           | None => ret (s, false)
           | Some x => r <- body s x ;;
                       if snd r then iter_src f i body (fst r) else ret (fst r, true)
           end
  end.
Definition loop_src {St : Type} (i : nat) (body : St -> val -> M (St * bool)) (s : St) : M (St * bool) := fun w =>
  iter_src (S (items_left i w)) i body s w.
(* plain "async for x in source i" *)
Definition each (i : nat) (body : val -> M unit) : M unit :=
  loop_src i (fun _ x => body x ;;; ret (tt, true)) tt ;;; ret tt.

Definition lift_lt (o : option bool) : M bool :=
  match o with Some b => ret b | None => raise XTypeError end.

(* ---------- zip ---------- *)
Inductive row := Row (xs : list val) | EndedAt (pos : nat).
Fixpoint pull_row (pos : nat) (l : list nat) : M row :=
  match l with
  | [] => ret (Row [])
  | i :: r => o <- pull i ;;
              match o with
              | None => ret (EndedAt pos)
              | Some x => rest <- pull_row (S pos) r ;;
                          ret (match rest with Row xs => Row (x :: xs) | EndedAt p => EndedAt p end)
              end
  end.
Fixpoint zip_loop (fuel : nat) (ss : list nat) (yield : val -> M unit) : M unit :=
  match fuel with
  | 0 => out_of_fuel
  | S f => r <- pull_row 0 ss ;;
           match r with
           | EndedAt _ => ret tt
           | Row xs => yield (VTup xs) ;;; zip_loop f ss yield
           end
  end.
(* after the first iterable ended: every other one must be exhausted as well *)
Fixpoint strict_rest (l : list nat) : M unit :=
  match l with
  | [] => ret tt
  | i :: r => o <- pull i ;; match o with Some _ => raise XValueError | None => strict_rest r end
  end.
Fixpoint zip_strict_loop (fuel : nat) (ss : list nat) (yield : val -> M unit) : M unit :=
  match fuel with
  | 0 => out_of_fuel
  | S f => r <- pull_row 0 ss ;;
           match r with
           | EndedAt 0 => strict_rest (tl ss)
           | EndedAt (S _) => raise XValueError
           | Row xs => yield (VTup xs) ;;; zip_strict_loop f ss yield
           end
  end.
(* zip without the closing finally: used on borrowed iterators (compress, _largest) *)
Definition zip_inner (strict : bool) (ss : list nat) (yield : val -> M unit) : M unit :=
  with_fuel (fun f => if strict then zip_strict_loop f ss yield else zip_loop f ss yield).
Definition a_zip (strict : bool) (ss : list nat) : gen := fun yield =>
  match ss with
  | [] => ret tt
  | _ => finally (zip_inner strict ss yield) (close_all ss)
  end.

(* ---------- map / filter / enumerate ---------- *)
Definition a_map (f : list val -> val) (ss : list nat) : gen := fun yield =>
  a_zip false ss (fun t => match t with
                           | VTup xs => r <- call 0 f xs ;; yield r
                           | _ => ret tt
                           end).

Definition a_filter (f : option (list val -> val)) : gen := fun yield =>
  scoped 0 (each 0 (fun x =>
    match f with
    | None => if truthy x then yield x else ret tt
    | Some p => r <- call 0 p [x] ;; if truthy r then yield x else ret tt
    end)).

Definition a_enumerate (start : Z) : gen := fun yield =>
  scoped 0 (loop_src 0 (fun c x => yield (VTup [VInt c; x]) ;;; ret ((c + 1)%Z, true)) start ;;; ret tt).

(* ---------- iter(callable, sentinel): the callable's successive results are source 0's items ---------- *)
Definition call_script : M val :=
  emit (ECall 0 []) ;;; use ;;;
  s <- get_src 0 ;;
  match s_items s with
  | [] => raise XRuntimeError          (* the scripted callable has nothing more to return *)
  | x :: xs => set_src 0 (mkSrc xs false (s_closing s) (s_closed s) (s_acl s)) ;;; ret x
  end.
Fixpoint iter_sentinel_loop (fuel : nat) (sentinel : val) (yield : val -> M unit) : M unit :=
  match fuel with
  | 0 => out_of_fuel
  | S f => v <- call_script ;;
           if py_eq v sentinel then ret tt else yield v ;;; iter_sentinel_loop f sentinel yield
  end.
Definition a_iter_sentinel (sentinel : val) : gen := fun yield =>
  with_fuel (fun f => iter_sentinel_loop (S f) sentinel yield).

(* ---------- all / any ---------- *)
Definition a_all : M val :=
  r <- scoped 0 (loop_src 0 (fun _ x => ret (tt, truthy x)) tt) ;;
  ret (VBool (negb (snd r))).
Definition a_any : M val :=
  r <- scoped 0 (loop_src 0 (fun _ x => ret (tt, negb (truthy x))) tt) ;;
  ret (VBool (snd r)).

(* ---------- min / max ---------- *)
(* the replacement test of _min_max: (best < item) if invert else (item < best) *)
Definition minmax_replace (invert : bool) (best item : val) : option bool :=
  if invert then py_lt best item else py_lt item best.
Definition a_min_max (invert : bool) (key : option (list val -> val)) (default : option val) : M val :=
  scoped 0 (
    o <- pull 0 ;;
    match o with
    | None => match default with None => raise XValueError | Some d => ret d end
    | Some first =>
      match key with
      | None =>
          r <- loop_src 0 (fun best item => c <- lift_lt (minmax_replace invert best item) ;;
                                            ret (if c then item else best, true)) first ;;
          ret (fst r)
      | Some k =>
          k0 <- call 0 k [first] ;;
          r <- loop_src 0 (fun (st : val * val) item =>
                             ik <- call 0 k [item] ;;
                             c <- lift_lt (minmax_replace invert (snd st) ik) ;;
                             ret (if c then (item, ik) else st, true)) (first, k0) ;;
          ret (fst (fst r))
      end
    end).

(* ---------- sum and the collection builders ---------- *)
(* Python [+] on the item domain: numbers (objects add as their keys), list+list, tuple+tuple *)
Definition is_num (v : val) : bool := match v with VObj _ _ _ | VInt _ => true | _ => false end.
Definition py_add (a b : val) : option val :=
  match a, b with
  | VList x, VList y => Some (VList (x ++ y))
  | VTup x, VTup y => Some (VTup (x ++ y))
  | _, _ => if is_num a && is_num b then Some (VInt (key_of a + key_of b)) else None
  end.
Definition lift_val (o : option val) : M val :=
  match o with Some v => ret v | None => raise XTypeError end.
Definition a_sum (start : val) : M val :=
  r <- scoped 0 (loop_src 0 (fun total x => t <- lift_val (py_add total x) ;; ret (t, true)) start) ;;
  ret (fst r).

Definition collect : M (list val) :=
  r <- loop_src 0 (fun acc x => ret (x :: acc, true)) [] ;; ret (rev (fst r)).
Definition a_list : M val := l <- scoped 0 collect ;; ret (VList l).
Definition a_tuple : M val := l <- scoped 0 collect ;; ret (VTup l).

(* set: first occurrence of each equality class, in arrival order; unhashable -> TypeError *)
Definition set_add (acc : list val) (x : val) : list val :=
  if existsb (py_eq x) acc then acc else acc ++ [x].
Definition a_set : M val :=
  r <- scoped 0 (loop_src 0 (fun acc x => if hashable x then ret (set_add acc x, true) else raise XTypeError) []) ;;
  ret (VList (fst r)).
(* dict from pairs: key of first insertion kept, value of last insertion *)
Fixpoint dict_put (acc : list (val * val)) (k v : val) : list (val * val) :=
  match acc with
  | [] => [(k, v)]
  | (k', v') :: r => if py_eq k k' then (k', v) :: r else (k', v') :: dict_put r k v
  end.
Definition a_dict : M val :=
  r <- scoped 0 (loop_src 0 (fun acc x =>
         match x with
         | VTup [k; v] | VList [k; v] => if hashable k then ret (dict_put acc k v, true) else raise XTypeError
         | VTup _ | VList _ => raise XValueError          (* wrong number of values to unpack *)
         | _ => raise XTypeError                (* cannot unpack a non-sequence *)
         end) []) ;;
  ret (VList (map (fun kv => VTup [fst kv; snd kv]) (fst r))).

(* ---------- sorted ---------- *)
(* list.sort is modelled as a stable insertion sort over [py_lt]; reverse=True keeps
   equal elements in their original order (Python reverses, sorts, reverses) *)
Fixpoint insert_by (lt : val -> val -> option bool) (x : val * val) (l : list (val * val)) : option (list (val * val)) :=
  match l with
  | [] => Some [x]
  | y :: r => match lt (fst y) (fst x) with          (* x is older than everything in l: it goes before its equals *)
              | None => None
              | Some true => option_map (cons y) (insert_by lt x r)
              | Some false => Some (x :: y :: r)
              end
  end.
(* fold from the right so that among equal keys the earlier element ends up first *)
Fixpoint sort_by (lt : val -> val -> option bool) (l : list (val * val)) : option (list (val * val)) :=
  match l with
  | [] => Some []
  | x :: r => match sort_by lt r with None => None | Some s => insert_by lt x s end
  end.
Definition lt_dir (reverse : bool) (a b : val) : option bool := if reverse then py_lt b a else py_lt a b.
Definition py_sorted (reverse : bool) (keyed : list (val * val)) : option (list val) :=
  option_map (map snd) (sort_by (lt_dir reverse) keyed).
Definition a_sorted (key : option (list val -> val)) (reverse : bool) : M val :=
  keyed <- scoped 0 (r <- loop_src 0 (fun acc x =>
                             match key with
                             | None => ret ((x, x) :: acc, true)
                             | Some k => kx <- call 0 k [x] ;; ret ((kx, x) :: acc, true)
                             end) [] ;;
                     ret (rev (fst r))) ;;
  match py_sorted reverse keyed with
  | Some l => ret (VList l)
  | None => raise XTypeError
  end.
