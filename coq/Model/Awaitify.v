(* asyncstdlib._core: awaitify / Awaitify (run-time detection of awaitable results with per-callable caching of
   the decision) and aiter (uniform async iterator over sync / async / sequence iterables).  Definitions only. *)
From Coq Require Import List Bool Arith.
Import ListNotations.

(* how the user's callable behaves on one call *)
Inductive reaction := RValue (v : nat) | RRaises (e : nat).
(* flavours of a callable argument *)
Inductive flavour :=
| FDef                (* def f: returns the value directly *)
| FAsyncDef           (* async def f: a coroutine function -- awaitify returns it unchanged *)
| FPartialAsync       (* functools.partial(async def): recognised as a coroutine function as well *)
| FCallableObject.    (* an object whose __call__ returns a coroutine: not a coroutine function *)
Definition is_coroutine_function (f : flavour) : bool := match f with FAsyncDef | FPartialAsync => true | _ => false end.
Definition returns_awaitable (f : flavour) : bool := match f with FDef => false | _ => true end.

Inductive decision := Undecided | CallsAsync | CallsSync.
Inductive wrapper := Direct | Wrapped (d : decision).     (* what awaitify(function) is *)
Definition awaitify (f : flavour) : wrapper := if is_coroutine_function f then Direct else Wrapped Undecided.

(* one awaited call of the wrapper: returns (new wrapper state, invocations of the user's callable, outcome) *)
Definition call (f : flavour) (w : wrapper) (r : reaction) : wrapper * nat * reaction :=
  match w with
  | Direct => (Direct, 1, r)                          (* the coroutine function itself *)
  | Wrapped Undecided =>
      (* value = self.__wrapped__(...) -- for an awaitable-returning callable the body runs when awaited *)
      if returns_awaitable f then (Wrapped CallsAsync, 1, r)     (* decision cached even if the awaited coroutine then raises *)
      else match r with
           | RValue v => (Wrapped CallsSync, 1, RValue v)        (* await_value(value) *)
           | RRaises e => (Wrapped Undecided, 1, RRaises e)      (* raised while peeking: the decision stays open *)
           end
  | Wrapped CallsAsync => (w, 1, r)
  | Wrapped CallsSync => (w, 1, r)                    (* force_async: async def wrapper calling the function *)
  end.
Fixpoint calls (f : flavour) (w : wrapper) (rs : list reaction) : list (nat * reaction) :=
  match rs with
  | [] => []
  | r :: rest => let '(w', n, o) := call f w r in (n, o) :: calls f w' rest
  end.

(* aiter: the kinds of iterable arguments and what the uniform iterator yields *)
Inductive iterable_kind := IList | ISequenceGetitem | ISyncIterator | IAsyncGenerator | IAsyncIteratorClass.
Definition is_async_iterable (k : iterable_kind) : bool := match k with IAsyncGenerator | IAsyncIteratorClass => true | _ => false end.
Inductive route := ViaAiterMethod | ViaSyncWrapperGenerator.
Definition aiter_route (k : iterable_kind) : route := if is_async_iterable k then ViaAiterMethod else ViaSyncWrapperGenerator.
Definition aiter_items {A} (k : iterable_kind) (items : list A) : list A :=
  match aiter_route k with
  | ViaAiterMethod => items                 (* subject.__aiter__() *)
  | ViaSyncWrapperGenerator => items        (* async def _aiter_sync: for item in iterable: yield item *)
  end.
