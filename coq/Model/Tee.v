(* asyncstdlib.itertools.tee under concurrent consumers: a small-step machine whose steps run one consumer
   task from one suspension point to the next (lock wait, each suspension inside the source's __anext__,
   between two operations of the consumer).  Transliterates tee_peer / _tee_peer_done / _TeePeer.
   Definitions only. *)
From Coq Require Import List ZArith NArith Bool Arith.
Import ListNotations.
Require Import V.Kernel.Values.

Inductive cop := CNext | CClose.                      (* await child.__anext__() ; await child.aclose() *)
Inductive pc := Idle | WaitLock | Fetching (j : nat) | Finished.
Record child := mkChild {
  c_script : list cop;        (* what the consumer task still wants to do *)
  c_pc : pc;
  c_dead : bool;              (* the peer generator has finished / was closed (its buffer is deregistered) *)
  c_out : list val;           (* items received so far *)
  c_stops : nat               (* __anext__ calls that reported StopAsyncIteration *)
}.
Record tstate := mkT {
  t_items : list val;                 (* what the source has not delivered yet *)
  t_fetched : list val;               (* what it has delivered, in order *)
  t_closed : nat;                     (* aclose calls on the source *)
  t_lock : option nat;                (* holder of the user lock *)
  t_peers : list (nat * list val);    (* registered buffers: (child, content oldest first), registration order *)
  t_children : list child;
  t_fetchers : nat;                   (* consumers currently inside source.__anext__ *)
  t_overlap : bool                    (* the source was advanced by two consumers at once *)
}.
Record tconfig := mkCfg { use_lock : bool; susp : nat; scripts : list (list cop); src_items : list val }.
Definition t_init (cfg : tconfig) : tstate :=
  mkT (src_items cfg) [] 0 None
      (map (fun i => (i, [])) (seq 0 (length (scripts cfg))))
      (map (fun sc => mkChild sc (match sc with [] => Finished | _ => Idle end) false [] 0) (scripts cfg))
      0 false.

Inductive action := Run (c : nat) | Cancel (c : nat).

(* ---- small helpers ---- *)
Definition dflt_child := mkChild [] Finished true [] 0.
Definition getc (s : tstate) (c : nat) : child := nth c (t_children s) dflt_child.
Fixpoint set_nth {A} (n : nat) (x : A) (l : list A) : list A :=
  match l, n with [], _ => [] | _ :: t, 0 => x :: t | h :: t, S n' => h :: set_nth n' x t end.
Definition setc (s : tstate) (c : nat) (ch : child) : tstate :=
  mkT (t_items s) (t_fetched s) (t_closed s) (t_lock s) (t_peers s) (set_nth c ch (t_children s)) (t_fetchers s) (t_overlap s).
Definition buf_of (s : tstate) (c : nat) : list val :=
  match find (fun p => Nat.eqb (fst p) c) (t_peers s) with Some p => snd p | None => [] end.
Definition set_buf (s : tstate) (c : nat) (b : list val) : tstate :=
  mkT (t_items s) (t_fetched s) (t_closed s) (t_lock s)
      (map (fun p => if Nat.eqb (fst p) c then (c, b) else p) (t_peers s)) (t_children s) (t_fetchers s) (t_overlap s).
Definition set_lock (s : tstate) (l : option nat) : tstate :=
  mkT (t_items s) (t_fetched s) (t_closed s) l (t_peers s) (t_children s) (t_fetchers s) (t_overlap s).
Definition release (s : tstate) (c : nat) : tstate :=
  match t_lock s with Some h => if Nat.eqb h c then set_lock s None else s | None => s end.
(* the consumer's current operation is complete *)
Definition op_done (ch : child) : child :=
  let rest := tl (c_script ch) in
  mkChild rest (match rest with [] => Finished | _ => Idle end) (c_dead ch) (c_out ch) (c_stops ch).
(* _tee_peer_done: deregister the buffer; the last peer out closes the source *)
Definition cleanup (s : tstate) (c : nat) : tstate :=
  let peers := filter (fun p => negb (Nat.eqb (fst p) c)) (t_peers s) in
  mkT (t_items s) (t_fetched s) (match peers with [] => S (t_closed s) | _ => t_closed s end) (t_lock s) peers
      (t_children s) (t_fetchers s) (t_overlap s).
Definition mark_dead (ch : child) : child := mkChild (c_script ch) (c_pc ch) true (c_out ch) (c_stops ch).

(* yield buffer.popleft() *)
Definition pop_yield (s : tstate) (c : nat) : tstate :=
  match buf_of s c with
  | x :: b => let s1 := set_buf s c b in
              let ch := getc s1 c in
              setc s1 c (op_done (mkChild (c_script ch) (c_pc ch) (c_dead ch) (c_out ch ++ [x]) (c_stops ch)))
  | [] => s      (* unreachable: only called with a non-empty buffer *)
  end.
(* the source's __anext__ returns *)
Definition complete_fetch (s : tstate) (c : nat) : tstate :=
  let s0 := mkT (t_items s) (t_fetched s) (t_closed s) (t_lock s) (t_peers s) (t_children s) (pred (t_fetchers s)) (t_overlap s) in
  match t_items s0 with
  | x :: r =>
      let s1 := mkT r (t_fetched s0 ++ [x]) (t_closed s0) (t_lock s0)
                    (map (fun p => (fst p, snd p ++ [x])) (t_peers s0)) (t_children s0) (t_fetchers s0) (t_overlap s0) in
      pop_yield (release s1 c) c
  | [] =>                                      (* StopAsyncIteration: break, leave the lock, finally-block *)
      let s1 := cleanup (release s0 c) c in
      let ch := getc s1 c in
      setc s1 c (op_done (mkChild (c_script ch) (c_pc ch) true (c_out ch) (S (c_stops ch))))
  end.
Definition set_pc (s : tstate) (c : nat) (p : pc) : tstate :=
  let ch := getc s c in setc s c (mkChild (c_script ch) p (c_dead ch) (c_out ch) (c_stops ch)).
(* holding the lock (or having none) with an empty buffer: call the source *)
Definition begin_fetch (cfg : tconfig) (s : tstate) (c : nat) : tstate :=
  let s1 := mkT (t_items s) (t_fetched s) (t_closed s) (t_lock s) (t_peers s) (t_children s) (S (t_fetchers s))
                (t_overlap s || Nat.ltb 0 (t_fetchers s)) in
  match susp cfg with
  | 0 => complete_fetch s1 c
  | S j => set_pc s1 c (Fetching (S j))
  end.
(* top of the while-loop of tee_peer *)
Definition advance (cfg : tconfig) (s : tstate) (c : nat) : tstate :=
  match buf_of s c with
  | _ :: _ => pop_yield s c
  | [] =>
      if use_lock cfg then
        match t_lock s with
        | Some _ => set_pc s c WaitLock
        | None => begin_fetch cfg (set_lock s (Some c)) c       (* re-check under the lock: still empty *)
        end
      else begin_fetch cfg s c
  end.
Definition do_close (s : tstate) (c : nat) : tstate :=
  let ch := getc s c in
  if c_dead ch then s else let s1 := cleanup s c in setc s1 c (mark_dead (getc s1 c)).

Definition enabled (s : tstate) (a : action) : bool :=
  match a with
  | Run c => match c_pc (getc s c) with
             | Finished => false
             | WaitLock => match t_lock s with None => true | Some _ => false end
             | _ => true
             end
  | Cancel c => match c_pc (getc s c) with Finished => false | _ => true end
  end.

Definition tstep (cfg : tconfig) (s : tstate) (a : action) : tstate :=
  if negb (enabled s a) then s else
  match a with
  | Run c =>
      let ch := getc s c in
      match c_pc ch with
      | Finished => s
      | Idle =>
          match c_script ch with
          | [] => set_pc s c Finished
          | CNext :: _ =>
              if c_dead ch then setc s c (op_done (mkChild (c_script ch) (c_pc ch) true (c_out ch) (S (c_stops ch))))
              else advance cfg s c
          | CClose :: _ => let s1 := do_close s c in setc s1 c (op_done (getc s1 c))
          end
      | WaitLock =>
          (* the lock was released meanwhile: take it, then re-check the own buffer *)
          let s1 := set_lock s (Some c) in
          match buf_of s1 c with
          | _ :: _ => pop_yield (set_lock s1 None) c
          | [] => begin_fetch cfg s1 c
          end
      | Fetching (S (S j)) => set_pc s c (Fetching (S j))
      | Fetching _ => complete_fetch s c
      end
  | Cancel c =>
      let ch := getc s c in
      let finish (s1 : tstate) := let ch1 := getc s1 c in setc s1 c (mkChild [] Finished true (c_out ch1) (c_stops ch1)) in
      match c_pc ch with
      | Finished => s
      | Idle => finish (do_close s c)                          (* the consumer's finally-clause closes its child *)
      | WaitLock => finish (cleanup s c)
      | Fetching _ =>                                          (* thrown into the source's __anext__: the item is not consumed *)
          let s0 := mkT (t_items s) (t_fetched s) (t_closed s) (t_lock s) (t_peers s) (t_children s) (pred (t_fetchers s)) (t_overlap s) in
          finish (cleanup (release s0 c) c)
      end
  end.

(* ---- what the harness can observe after every action ---- *)
Record snapshot := mkSnap {
  sn_fetched : nat; sn_closed : nat; sn_lock : option nat;
  sn_bufs : list (nat * nat);                 (* registered peers: (child, buffer length), registration order *)
  sn_children : list (nat * bool * nat)       (* per child: items received, dead, stops reported *)
}.
Definition snap (s : tstate) : snapshot :=
  mkSnap (length (t_fetched s)) (t_closed s) (t_lock s) (map (fun p => (fst p, length (snd p))) (t_peers s))
         (map (fun ch => (length (c_out ch), c_dead ch, c_stops ch)) (t_children s)).
Fixpoint trun (cfg : tconfig) (s : tstate) (sched : list action) : list snapshot * tstate :=
  match sched with
  | [] => ([], s)
  | a :: r => let s' := tstep cfg s a in let '(sn, sf) := trun cfg s' r in (snap s' :: sn, sf)
  end.
Definition texec (cfg : tconfig) (sched : list action) : tstate := snd (trun cfg (t_init cfg) sched).
