(* asyncstdlib.functools.cached_property: the non-data descriptor, the placeholder object
   (_FutureCachedPropertyValue) with its optional lock, as a small-step machine over tasks that access,
   await and delete the attribute of ONE instance.  Definitions only. *)
From Coq Require Import List ZArith NArith Bool Arith.
Import ListNotations.

Inductive slot := SAbsent | SPlace (p : nat) | SValue (v : nat).    (* instance.__dict__[name] *)
Inductive obj := HPlace (p : nat) | HValue (v : nat).               (* what `instance.name` evaluated to *)
Inductive pop := PAccess | PAwait | PDel.
Inductive pres := PRet (v : nat) | PRaised | PCancelled | PDone | PDelError.
Inductive ppc := PIdle | PWaitLock (p : nat) | PInGetter (p : nat) (left : nat) (run : nat) | PFinished.
Record ptask := mkPT { p_script : list pop; p_pc : ppc; p_held : option obj; p_results : list pres }.
Record pstate := mkP {
  p_slot : slot;
  p_locks : list (option nat);     (* one lock per placeholder created so far: its holder *)
  p_runs : nat;                    (* getter runs started; a run's value is its number *)
  p_completed : list nat;          (* runs that returned *)
  p_tasks : list ptask
}.
Record pconfig := mkPCfg { p_use_lock : bool; p_susp : nat; p_fail_runs : list nat; p_scripts : list (list pop) }.
Definition p_init (cfg : pconfig) : pstate :=
  mkP SAbsent [] 0 [] (map (fun sc => mkPT sc (match sc with [] => PFinished | _ => PIdle end) None []) (p_scripts cfg)).
Inductive paction := PRun (t : nat) | PCancel (t : nat).

Fixpoint pset_nth {A} (n : nat) (x : A) (l : list A) : list A :=
  match l, n with [], _ => [] | _ :: t, 0 => x :: t | h :: t, S n' => h :: pset_nth n' x t end.
Definition pdflt := mkPT [] PFinished None [].
Definition pget (s : pstate) (t : nat) : ptask := nth t (p_tasks s) pdflt.
Definition psett (s : pstate) (t : nat) (x : ptask) : pstate :=
  mkP (p_slot s) (p_locks s) (p_runs s) (p_completed s) (pset_nth t x (p_tasks s)).
Definition pdone (x : ptask) (r : pres) : ptask :=
  let rest := tl (p_script x) in
  mkPT rest (match rest with [] => PFinished | _ => PIdle end) (p_held x) (p_results x ++ [r]).
Definition set_slot (s : pstate) (sl : slot) : pstate := mkP sl (p_locks s) (p_runs s) (p_completed s) (p_tasks s).
Definition set_lock (s : pstate) (p : nat) (h : option nat) : pstate :=
  mkP (p_slot s) (pset_nth p h (p_locks s)) (p_runs s) (p_completed s) (p_tasks s).
Definition lock_held (s : pstate) (p : nat) : bool := match nth p (p_locks s) None with Some _ => true | None => false end.
Definition unlock_if (s : pstate) (p t : nat) : pstate :=
  match nth p (p_locks s) None with Some h => if Nat.eqb h t then set_lock s p None else s | None => s end.
(* CachedProperty.__get__: a new placeholder (with its own lock) is stored in the instance dict *)
Definition new_place (s : pstate) : pstate * nat :=
  let p := length (p_locks s) in
  (mkP (SPlace p) (p_locks s ++ [None]) (p_runs s) (p_completed s) (p_tasks s), p).
Definition set_pc (s : pstate) (t : nat) (pc : ppc) : pstate :=
  let x := pget s t in psett s t (mkPT (p_script x) pc (p_held x) (p_results x)).

(* the getter coroutine returned / raised *)
Definition complete_getter (cfg : pconfig) (s : pstate) (t p run : nat) : pstate :=
  if existsb (Nat.eqb run) (p_fail_runs cfg) then
    let s1 := unlock_if s p t in psett s1 t (pdone (pget s1 t) PRaised)
  else
    let s1 := mkP (SValue run) (p_locks s) (p_runs s) (p_completed s ++ [run]) (p_tasks s) in     (* stored unconditionally *)
    let s2 := unlock_if s1 p t in
    psett s2 t (pdone (pget s2 t) (PRet run)).
Definition start_getter (cfg : pconfig) (s : pstate) (t p : nat) : pstate :=
  let run := p_runs s in
  let s1 := mkP (p_slot s) (p_locks s) (S run) (p_completed s) (p_tasks s) in
  match p_susp cfg with
  | 0 => complete_getter cfg s1 t p run
  | S j => set_pc s1 t (PInGetter p (S j) run)
  end.
(* _await_impl of placeholder p, from its first line; fuel bounds the hand-overs to other placeholders *)
Fixpoint await_place (fuel : nat) (cfg : pconfig) (s : pstate) (t p : nat) : pstate :=
  match fuel with
  | 0 => s
  | S f =>
      match p_slot s with
      | SPlace q =>
          if Nat.eqb q p then
            (* stored is self: take the lock, re-check, compute *)
            if p_use_lock cfg && lock_held s p then set_pc s t (PWaitLock p)
            else start_getter cfg (if p_use_lock cfg then set_lock s p (Some t) else s) t p
          else await_place f cfg s t q                      (* return await stored: another placeholder *)
      | SValue v => psett s t (pdone (pget s t) (PRet v))   (* return await stored: a cached value *)
      | SAbsent => let '(s1, q) := new_place s in await_place f cfg s1 t q   (* deleted: re-enter through the descriptor *)
      end
  end.
(* resumed after waiting for the lock of p: acquire, check again *)
Definition after_lock (cfg : pconfig) (s : pstate) (t p : nat) : pstate :=
  let s1 := set_lock s p (Some t) in
  match p_slot s1 with
  | SPlace q => if Nat.eqb q p then start_getter cfg s1 t p
                else await_place 4 cfg (set_lock s1 p None) t q
  | SValue v => let s2 := set_lock s1 p None in psett s2 t (pdone (pget s2 t) (PRet v))
  | SAbsent => let '(s2, q) := new_place (set_lock s1 p None) in await_place 4 cfg s2 t q
  end.

Definition penabled (s : pstate) (a : paction) : bool :=
  match a with
  | PRun t => match p_pc (pget s t) with
              | PFinished => false
              | PWaitLock p => negb (lock_held s p)
              | _ => true
              end
  | PCancel t => match p_pc (pget s t) with PFinished => false | _ => true end
  end.
Definition pstep (cfg : pconfig) (s : pstate) (a : paction) : pstate :=
  if negb (penabled s a) then s else
  match a with
  | PRun t =>
      let x := pget s t in
      match p_pc x with
      | PFinished => s
      | PIdle =>
          match p_script x with
          | [] => psett s t (mkPT [] PFinished (p_held x) (p_results x))
          | PAccess :: _ =>
              match p_slot s with
              | SAbsent => let '(s1, q) := new_place s in
                           let x1 := pget s1 t in psett s1 t (pdone (mkPT (p_script x1) (p_pc x1) (Some (HPlace q)) (p_results x1)) PDone)
              | SPlace q => psett s t (pdone (mkPT (p_script x) (p_pc x) (Some (HPlace q)) (p_results x)) PDone)
              | SValue v => psett s t (pdone (mkPT (p_script x) (p_pc x) (Some (HValue v)) (p_results x)) PDone)
              end
          | PDel :: _ =>
              match p_slot s with
              | SAbsent => psett s t (pdone x PDelError)
              | _ => let s1 := set_slot s SAbsent in psett s1 t (pdone (pget s1 t) PDone)
              end
          | PAwait :: _ =>
              match p_held x with
              | Some (HValue v) => psett s t (pdone x (PRet v))
              | Some (HPlace p) => await_place 4 cfg s t p
              | None => psett s t (pdone x PRaised)
              end
          end
      | PWaitLock p => after_lock cfg s t p
      | PInGetter p (S (S j)) run => set_pc s t (PInGetter p (S j) run)
      | PInGetter p _ run => complete_getter cfg s t p run
      end
  | PCancel t =>
      let x := pget s t in
      let stop (s1 : pstate) := let x1 := pget s1 t in psett s1 t (mkPT [] PFinished (p_held x1) (p_results x1 ++ [PCancelled])) in
      match p_pc x with
      | PFinished => s
      | PInGetter p _ _ => stop (unlock_if s p t)        (* leaving `async with lock` releases it; nothing is stored *)
      | _ => stop s
      end
  end.
Fixpoint prun (cfg : pconfig) (s : pstate) (sched : list paction) : pstate :=
  match sched with [] => s | a :: r => prun cfg (pstep cfg s a) r end.
Definition pexec (cfg : pconfig) (sched : list paction) : pstate := prun cfg (p_init cfg) sched.

(* ---- observation after every action ---- *)
Inductive slotobs := OAbsent | OPlace | OValue (v : nat).
Record psnap := mkPS { ps_slot : slotobs; ps_runs : nat; ps_locked : nat }.    (* ps_locked: number of held locks *)
Definition psnap_of (s : pstate) : psnap :=
  mkPS (match p_slot s with SAbsent => OAbsent | SPlace _ => OPlace | SValue v => OValue v end) (p_runs s)
       (length (filter (fun h => match h with Some _ => true | None => false end) (p_locks s))).
Fixpoint ptrace (cfg : pconfig) (s : pstate) (sched : list paction) : list psnap * pstate :=
  match sched with
  | [] => ([], s)
  | a :: r => let s' := pstep cfg s a in let '(l, sf) := ptrace cfg s' r in (psnap_of s' :: l, sf)
  end.
Definition pres_eqb (a b : pres) : bool :=
  match a, b with
  | PRet v, PRet v' => Nat.eqb v v'
  | PRaised, PRaised | PCancelled, PCancelled | PDone, PDone | PDelError, PDelError => true
  | _, _ => false
  end.
Fixpoint plist_eqb {A} (f : A -> A -> bool) (a b : list A) : bool :=
  match a, b with [], [] => true | x :: a', y :: b' => f x y && plist_eqb f a' b' | _, _ => false end.
Definition psnap_eqb (a b : psnap) : bool :=
  Nat.eqb (ps_runs a) (ps_runs b) && Nat.eqb (ps_locked a) (ps_locked b) &&
  match ps_slot a, ps_slot b with
  | OAbsent, OAbsent | OPlace, OPlace => true
  | OValue v, OValue v' => Nat.eqb v v'
  | _, _ => false
  end.
Record pcase := mkPC { pc_cfg : pconfig; pc_sched : list paction; pc_snaps : list psnap; pc_results : list (list pres) }.
Definition pcase_ok (c : pcase) : bool :=
  let '(l, sf) := ptrace (pc_cfg c) (p_init (pc_cfg c)) (pc_sched c) in
  plist_eqb psnap_eqb l (pc_snaps c) && plist_eqb (plist_eqb pres_eqb) (map p_results (p_tasks sf)) (pc_results c).
Fixpoint pfailing_from (i : nat) (l : list pcase) : list nat :=
  match l with [] => [] | c :: r => if pcase_ok c then pfailing_from (S i) r else i :: pfailing_from (S i) r end.
Definition pfailing (l : list pcase) : list nat := pfailing_from 0 l.
