(* asyncstdlib.asynctools.borrow / scoped_iter: handles over ONE underlying iterator U.
   A handle (_BorrowedAsyncIterator / _ScopedAsyncIterator) iterates its parent through an intermediate
   generator ("wrapper") and closes only that; asend is forwarded straight to what the parent's asend was
   when the handle was created, and re-pointed at the closed wrapper when the handle is closed.
   Definitions only. *)
From Coq Require Import List ZArith NArith Bool Arith.
Import ListNotations.
Require Import V.Kernel.Values.

Inductive wstate := WFresh | WOpen | WClosed.          (* the wrapper generator: not started / suspended at its yield / finished *)
Inductive parent := PU | PH (h : nat).                 (* the underlying iterator, or another handle *)
Inductive target := TU | TDead.                        (* where handle.asend currently goes: U.asend, or a closed wrapper *)
Record handle := mkH {
  h_parent : parent; h_wrapper : wstate; h_scoped : bool;
  h_send : option target                               (* None: the underlying iterator has no asend *)
}.
Record ustate := mkU {
  u_rest : list val;            (* items U has not delivered *)
  u_closed : nat;               (* aclose calls on U *)
  u_has_aclose : bool; u_has_asend : bool;
  u_handles : list handle;
  u_scopes : list (nat * option nat)   (* entered scopes: (its handle, the parent handle it closes on exit: None = U itself) ; or neutral *)
}.
Definition u_init (items : list val) (acl asend : bool) : ustate := mkU items 0 acl asend [] [].

Inductive bop :=
| BBorrow (p : parent)            (* borrow(U) / borrow(handle): a new handle *)
| BNext (h : nat) | BSend (h : nat) | BNextU
| BClose (h : nat)                (* await handle.aclose()  (also reached through iter(handle) and by every tool that closes its input) *)
| BTool (h : nat) (j : nat)       (* hand the handle to a tool that takes j items and is then closed *)
| BEnter (p : parent)             (* async with scoped_iter(U or handle): a new scope with a new scoped handle *)
| BExit (k : nat).                (* leave scope number k (normally, by exception or by cancellation: all reach __aexit__) *)
Inductive bobs := BItem (v : val) | BStop | BDone | BNew (h : nat) | BItems (l : list val) | BNoScope.

Definition geth (s : ustate) (h : nat) : handle := nth h (u_handles s) (mkH PU WClosed false None).
Fixpoint bset_nth {A} (n : nat) (x : A) (l : list A) : list A :=
  match l, n with [], _ => [] | _ :: t, 0 => x :: t | h :: t, S n' => h :: bset_nth n' x t end.
Definition seth (s : ustate) (h : nat) (x : handle) : ustate :=
  mkU (u_rest s) (u_closed s) (u_has_aclose s) (u_has_asend s) (bset_nth h x (u_handles s)) (u_scopes s).
(* U.__anext__ (or U.asend(None)): a closed or exhausted U signals the end *)
Definition u_next (s : ustate) : ustate * option val :=
  if Nat.ltb 0 (u_closed s) then (s, None)
  else match u_rest s with
       | x :: r => (mkU r (u_closed s) (u_has_aclose s) (u_has_asend s) (u_handles s) (u_scopes s), Some x)
       | [] => (s, None)
       end.
(* handle.__anext__ = wrapper.__anext__ : pulls from the parent; fuel = nesting depth *)
Fixpoint h_next (fuel : nat) (s : ustate) (h : nat) : ustate * option val :=
  match fuel with
  | 0 => (s, None)
  | S f =>
      let x := geth s h in
      match h_wrapper x with
      | WClosed => (s, None)
      | _ =>
          let '(s1, o) := match h_parent x with PU => u_next s | PH p => h_next f s p end in
          let x1 := geth s1 h in
          match o with
          | Some v => (seth s1 h (mkH (h_parent x1) WOpen (h_scoped x1) (h_send x1)), Some v)
          | None => (seth s1 h (mkH (h_parent x1) WClosed (h_scoped x1) (h_send x1)), None)   (* the generator expression finishes *)
          end
      end
  end.
Definition depth (s : ustate) : nat := S (length (u_handles s)).
(* _aclose_wrapper: close the intermediate generator, disable direct asend *)
Definition close_wrapper (s : ustate) (h : nat) : ustate :=
  let x := geth s h in
  seth s h (mkH (h_parent x) WClosed (h_scoped x) (match h_send x with Some _ => Some TDead | None => None end)).
(* handle.aclose(): a scoped handle ignores it *)
Definition h_aclose (s : ustate) (h : nat) : ustate :=
  if h_scoped (geth s h) then s else close_wrapper s h.
Fixpoint take (fuel : nat) (j : nat) (s : ustate) (h : nat) (acc : list val) : ustate * list val :=
  match j with
  | 0 => (s, acc)
  | S j' => let '(s1, o) := h_next fuel s h in
            match o with Some v => take fuel j' s1 h (acc ++ [v]) | None => (s1, acc) end
  end.
Definition new_handle (s : ustate) (p : parent) (scoped : bool) : ustate * nat :=
  let send := if u_has_asend s then
                Some (match p with PU => TU | PH q => match h_send (geth s q) with Some t => t | None => TU end end)
              else None in
  (mkU (u_rest s) (u_closed s) (u_has_aclose s) (u_has_asend s) (u_handles s ++ [mkH p WFresh scoped send]) (u_scopes s),
   length (u_handles s)).

Definition b_do (s : ustate) (op : bop) : ustate * bobs :=
  match op with
  | BBorrow p => let '(s1, h) := new_handle s p false in (s1, BNew h)
  | BNext h => let '(s1, o) := h_next (depth s) s h in (s1, match o with Some v => BItem v | None => BStop end)
  | BSend h =>
      match h_send (geth s h) with
      | Some TU => let '(s1, o) := u_next s in (s1, match o with Some v => BItem v | None => BStop end)
      | _ => (s, BStop)
      end
  | BNextU => let '(s1, o) := u_next s in (s1, match o with Some v => BItem v | None => BStop end)
  | BClose h => (h_aclose s h, BDone)
  | BTool h j => let '(s1, l) := take (depth s) j s h [] in (h_aclose s1 h, BItems l)
  | BEnter p =>
      (* an iterable without aclose gets a neutral context that hands out the iterator itself; handles always have aclose *)
      match p with
      | PU => if u_has_aclose s
              then let '(s1, h) := new_handle s PU true in
                   (mkU (u_rest s1) (u_closed s1) (u_has_aclose s1) (u_has_asend s1) (u_handles s1) (u_scopes s1 ++ [(h, None)]), BNew h)
              else (s, BNoScope)
      | PH q => let '(s1, h) := new_handle s (PH q) true in
                (mkU (u_rest s1) (u_closed s1) (u_has_aclose s1) (u_has_asend s1) (u_handles s1) (u_scopes s1 ++ [(h, Some q)]), BNew h)
      end
  | BExit k =>
      match nth_error (u_scopes s) k with
      | None => (s, BDone)
      | Some (h, par) =>
          let s1 := close_wrapper s h in
          (match par with
           | None => mkU (u_rest s1) (S (u_closed s1)) (u_has_aclose s1) (u_has_asend s1) (u_handles s1) (u_scopes s1)
           | Some q => h_aclose s1 q
           end, BDone)
      end
  end.
Fixpoint b_run (s : ustate) (ops : list bop) : list bobs * ustate :=
  match ops with
  | [] => ([], s)
  | op :: r => let '(s1, o) := b_do s op in let '(os, sf) := b_run s1 r in (o :: os, sf)
  end.

(* everything delivered to anybody, in order *)
Definition delivered (os : list bobs) : list val :=
  flat_map (fun o => match o with BItem v => [v] | BItems l => l | _ => [] end) os.

(* ---- comparison for the correspondence check ---- *)
Fixpoint vals_eqb (a b : list val) : bool :=
  match a, b with [], [] => true | x :: a', y :: b' => val_eqb x y && vals_eqb a' b' | _, _ => false end.
Definition bobs_eqb (a b : bobs) : bool :=
  match a, b with
  | BItem v, BItem v' => val_eqb v v'
  | BStop, BStop | BDone, BDone | BNoScope, BNoScope => true
  | BNew h, BNew h' => Nat.eqb h h'
  | BItems l, BItems l' => vals_eqb l l'
  | _, _ => false
  end.
Fixpoint bobs_list_eqb (a b : list bobs) : bool :=
  match a, b with [], [] => true | x :: a', y :: b' => bobs_eqb x y && bobs_list_eqb a' b' | _, _ => false end.
Record bcase := mkBC { bc_items : list val; bc_acl : bool; bc_asend : bool; bc_ops : list bop;
                       bc_obs : list bobs; bc_closed : nat; bc_left : nat }.
Definition bcase_ok (c : bcase) : bool :=
  let '(os, sf) := b_run (u_init (bc_items c) (bc_acl c) (bc_asend c)) (bc_ops c) in
  bobs_list_eqb os (bc_obs c) && Nat.eqb (u_closed sf) (bc_closed c) && Nat.eqb (length (u_rest sf)) (bc_left c).
Fixpoint bfailing_from (i : nat) (l : list bcase) : list nat :=
  match l with [] => [] | c :: r => if bcase_ok c then bfailing_from (S i) r else i :: bfailing_from (S i) r end.
Definition bfailing (l : list bcase) : list nat := bfailing_from 0 l.
