(* Models of the function-style generators of asyncstdlib/itertools.py and of chain. *)
From Coq Require Import List ZArith NArith Bool Arith.
Import ListNotations.
Require Import V.Kernel.Values V.Kernel.Monad V.Model.Builtins.

(* ---------- cycle ---------- *)
Fixpoint replay (l : list val) (yield : val -> M unit) : M unit :=
  match l with [] => ret tt | x :: r => yield x ;;; replay r yield end.
Fixpoint cycle_again (fuel : nat) (buffer : list val) (yield : val -> M unit) : M unit :=
  match fuel with
  | 0 => out_of_fuel
  | S f => replay buffer yield ;;; cycle_again f buffer yield
  end.
(* [passes]: how many replays of the buffer the run may perform before it reports Fuel
   (the real loop is infinite; a consumer always stops it by closing) *)
Definition a_cycle (passes : nat) : gen := fun yield =>
  r <- scoped 0 (loop_src 0 (fun buf x => yield x ;;; ret (x :: buf, true)) []) ;;
  match fst r with
  | [] => ret tt
  | b => cycle_again passes (rev b) yield
  end.

(* ---------- accumulate ---------- *)
Definition a_accumulate (f : option (list val -> val)) (initial : option val) : gen := fun yield =>
  scoped 0 (
    first <- match initial with
             | Some v => ret (Some v)
             | None => pull 0
             end ;;
    match first with
    | None => raise XTypeError
    | Some v0 =>
        yield v0 ;;;
        loop_src 0 (fun value head =>
          v <- match f with
               | Some g => call 0 g [value; head]
               | None => lift_val (py_add value head)      (* the library's own add *)
               end ;;
          yield v ;;; ret (v, true)) v0 ;;; ret tt
    end).

(* ---------- batched ---------- *)
(* fill a batch of up to n items; None as second component = the source ended *)
Fixpoint fill_batch (n : nat) (acc : list val) : M (list val * bool) :=
  match n with
  | 0 => ret (acc, true)
  | S n' => o <- pull 0 ;;
            match o with
            | None => ret (acc, false)
            | Some x => fill_batch n' (acc ++ [x])
            end
  end.
Fixpoint batched_loop (fuel n : nat) (strict : bool) (yield : val -> M unit) : M unit :=
  match fuel with
  | 0 => out_of_fuel
  | S f => r <- fill_batch n [] ;;
           if snd r then yield (VTup (fst r)) ;;; batched_loop f n strict yield
           else match fst r with
                | [] => ret tt
                | b => if strict && Nat.ltb (length b) n then raise XValueError else yield (VTup b)
                end
  end.
Definition a_batched (n : Z) (strict : bool) : gen := fun yield =>
  if Z.ltb n 1 then raise XValueError
  else scoped 0 (with_fuel (fun f => batched_loop f (Z.to_nat n) strict yield)).

(* ---------- compress ---------- *)
Definition a_compress : gen := fun yield =>
  scoped 0 (scoped 1 (zip_inner false [0; 1] (fun t =>
    match t with
    | VTup [item; keep] => if truthy keep then yield item else ret tt
    | _ => ret tt
    end))).

(* ---------- dropwhile / takewhile / filterfalse / starmap ---------- *)
Definition a_dropwhile (p : list val -> val) : gen := fun yield =>
  scoped 0 (
    r <- loop_src 0 (fun _ x => c <- call 0 p [x] ;;
                                if truthy c then ret (tt, true) else yield x ;;; ret (tt, false)) tt ;;
    if snd r then each 0 yield else ret tt).
Definition a_takewhile (p : list val -> val) : gen := fun yield =>
  scoped 0 (loop_src 0 (fun _ x => c <- call 0 p [x] ;;
                                   if truthy c then yield x ;;; ret (tt, true) else ret (tt, false)) tt ;;; ret tt).
Definition a_filterfalse (p : option (list val -> val)) : gen := fun yield =>
  scoped 0 (each 0 (fun x =>
    match p with
    | None => if truthy x then ret tt else yield x       (* predicate = bool, the library's own *)
    | Some q => r <- call 0 q [x] ;; if truthy r then ret tt else yield x
    end)).
Definition a_starmap (f : list val -> val) : gen := fun yield =>
  scoped 0 (each 0 (fun x =>
    match x with
    | VTup args | VList args => r <- call 0 f args ;; yield r
    | _ => raise XTypeError
    end)).

(* ---------- islice ---------- *)
(* start = s.start or 0 ; stop = s.stop ; step = s.step or 1 (all non-negative, step >= 1) *)
Definition a_islice (start : Z) (stop : option Z) (step : Z) : gen := fun yield =>
  scoped 0 (
    skipped <- (if Z.ltb 0 start
                then r <- loop_src 0 (fun c _ => if Z.eqb c start then ret (c, false) else ret ((c + 1)%Z, true)) 1%Z ;;
                     ret (snd r)            (* true: left by break, i.e. reached start *)
                else ret true) ;;
    if negb skipped then ret tt
    else match stop with
         | None =>
             loop_src 0 (fun idx x => (if Z.eqb (Z.modulo idx step) 0 then yield x else ret tt) ;;;
                                      ret ((idx + 1)%Z, true)) 0%Z ;;; ret tt
         | Some st =>
             if Z.leb st start then ret tt
             else let last := (st - (start + 1))%Z in
                  loop_src 0 (fun idx x => (if Z.eqb (Z.modulo idx step) 0 then yield x else ret tt) ;;;
                                           ret ((idx + 1)%Z, negb (Z.leb last idx))) 0%Z ;;; ret tt
         end).

(* ---------- pairwise ---------- *)
Definition a_pairwise : gen := fun yield =>
  scoped 0 (
    o <- pull 0 ;;
    match o with
    | None => ret tt
    | Some first => loop_src 0 (fun prev cur => yield (VTup [prev; cur]) ;;; ret (cur, true)) first ;;; ret tt
    end).

(* ---------- zip_longest ---------- *)
(* slots: Some i = still reading source i ; None = replaced by the fill iterator *)
Definition live_slots (slots : list (option nat)) : list nat :=
  flat_map (fun s => match s with Some i => [i] | None => [] end) slots.
(* A row of zip_longest.  The list async_iters is mutated while a row is read (an exhausted
   iterator is replaced by the fill iterator), and the finally-block closes what is in it at that
   moment, so the slots are threaded through explicitly, also on the exception path. *)
Fixpoint longest_row_st (pos : nat) (todo : list (option nat)) (done_ : list (option nat)) (vals : list val)
  (fillv : val) (remaining : nat) : world -> (outcome (bool * list val * nat) * world) * list (option nat) :=
  fun w =>
  match todo with
  | [] => ((Ok (true, vals, remaining), w), done_)
  | None :: r => longest_row_st (S pos) r (done_ ++ [None]) (vals ++ [fillv]) fillv remaining w
  | Some i :: r =>
      match pull i w with
      | (Ok (Some x), w1) => longest_row_st (S pos) r (done_ ++ [Some i]) (vals ++ [x]) fillv remaining w1
      | (Ok None, w1) =>
          match remaining with
          | 0 | 1 => ((Ok (false, vals, 0), w1), done_ ++ Some i :: r)
          | S rem' => longest_row_st (S pos) r (done_ ++ [None]) (vals ++ [fillv]) fillv rem' w1
          end
      | (Exn e, w1) => ((Exn e, w1), done_ ++ Some i :: r)
      | (Fuel, w1) => ((Fuel, w1), done_ ++ Some i :: r)
      end
  end.
Fixpoint longest_loop_st (fuel : nat) (slots : list (option nat)) (fillv : val) (remaining : nat)
  (yield : val -> M unit) : world -> (outcome unit * world) * list (option nat) :=
  fun w =>
  match fuel with
  | 0 => ((Fuel, w), slots)
  | S f => match longest_row_st 0 slots [] [] fillv remaining w with
           | ((Ok (true, vs, rem), w1), sl) =>
               match yield (VTup vs) w1 with
               | (Ok _, w2) => longest_loop_st f sl fillv rem yield w2
               | (Exn e, w2) => ((Exn e, w2), sl)
               | (Fuel, w2) => ((Fuel, w2), sl)
               end
           | ((Ok (false, _, _), w1), sl) => ((Ok tt, w1), sl)
           | ((Exn e, w1), sl) => ((Exn e, w1), sl)
           | ((Fuel, w1), sl) => ((Fuel, w1), sl)
           end
  end.
Definition a_zip_longest (ss : list nat) (fillv : val) : gen := fun yield =>
  match ss with
  | [] => ret tt
  | _ => fun w =>
      let '((o, w1), sl) := longest_loop_st (S (total_left w)) (map Some ss) fillv (length ss) yield w in
      match o with
      | Fuel => (Fuel, w1)
      | _ => match close_all (live_slots sl) w1 with
             | (Ok _, w2) => (o, w2)
             | (Exn e, w2) => (Exn e, w2)
             | (Fuel, w2) => (Fuel, w2)
             end
      end
  end.

(* ---------- chain (a handle: closing it closes all owned iterators first) ---------- *)
Fixpoint chain_body (ss : list nat) (yield : val -> M unit) : M unit :=
  match ss with
  | [] => ret tt
  | i :: r => scoped i (each i yield) ;;; chain_body r yield
  end.
(* the consumer closes a chain by chain.aclose(): owned iterators first, then the generator *)
Definition chain_yield (owned : list nat) : val -> M unit := fun v w =>
  match yield_to v w with
  | (Exn XGenExit, w') => (close_all owned ;;; raise XGenExit) w'
  | r => r
  end.
(* chain.__anext__: when advancing fails with anything but StopAsyncIteration, the owned iterators
   are closed as well before the exception propagates.  (A consumer's close does not come through
   __anext__: it is chain.aclose, modelled in [chain_yield].) *)
Definition run_chain (ss : list nat) : M unit := fun w =>
  match chain_body ss (chain_yield ss) w with
  | (Exn XGenExit, w') => (Exn XGenExit, w')
  | (Exn e, w') => (close_all ss ;;; raise e) w'
  | r => r
  end.
(* closing a chain that was never advanced *)
Definition chain_close_unstarted (ss : list nat) : M unit := close_all ss.
