(* Correspondence cases for tee: evaluated with vm_compute by harness/check_c09.py *)
From Coq Require Import List ZArith NArith Bool Arith.
Import ListNotations.
Require Import V.Kernel.Values V.Model.Tee.

Definition optnat_eqb (a b : option nat) : bool :=
  match a, b with None, None => true | Some x, Some y => Nat.eqb x y | _, _ => false end.
Fixpoint pairs_eqb (a b : list (nat * nat)) : bool :=
  match a, b with
  | [], [] => true
  | (x, y) :: a', (x', y') :: b' => Nat.eqb x x' && Nat.eqb y y' && pairs_eqb a' b'
  | _, _ => false
  end.
Fixpoint triples_eqb (a b : list (nat * bool * nat)) : bool :=
  match a, b with
  | [], [] => true
  | (x, d, y) :: a', (x', d', y') :: b' => Nat.eqb x x' && Bool.eqb d d' && Nat.eqb y y' && triples_eqb a' b'
  | _, _ => false
  end.
Definition snap_eqb (a b : snapshot) : bool :=
  Nat.eqb (sn_fetched a) (sn_fetched b) && Nat.eqb (sn_closed a) (sn_closed b) && optnat_eqb (sn_lock a) (sn_lock b)
  && pairs_eqb (sn_bufs a) (sn_bufs b) && triples_eqb (sn_children a) (sn_children b).
Fixpoint snaps_eqb (a b : list snapshot) : bool :=
  match a, b with [], [] => true | x :: a', y :: b' => snap_eqb x y && snaps_eqb a' b' | _, _ => false end.
Fixpoint vals_eqb (a b : list val) : bool :=
  match a, b with [], [] => true | x :: a', y :: b' => val_eqb x y && vals_eqb a' b' | _, _ => false end.
Fixpoint outs_eqb (a b : list (list val)) : bool :=
  match a, b with [], [] => true | x :: a', y :: b' => vals_eqb x y && outs_eqb a' b' | _, _ => false end.
Record tcase := mkTC { tc_cfg : tconfig; tc_sched : list action; tc_snaps : list snapshot; tc_outs : list (list val) }.
Definition tcase_ok (c : tcase) : bool :=
  let '(sn, sf) := trun (tc_cfg c) (t_init (tc_cfg c)) (tc_sched c) in
  snaps_eqb sn (tc_snaps c) && outs_eqb (map c_out (t_children sf)) (tc_outs c).
Fixpoint tfailing_from (i : nat) (l : list tcase) : list nat :=
  match l with [] => [] | c :: r => if tcase_ok c then tfailing_from (S i) r else i :: tfailing_from (S i) r end.
Definition tfailing (l : list tcase) : list nat := tfailing_from 0 l.
