(* asyncstdlib._lrucache: call-pattern keys and the three cache variants as a state machine over
   sequential operations; and the specification: functools' _make_key and the abstract LRU cache that
   functools.lru_cache documents.  Definitions only. *)
From Coq Require Import List ZArith NArith Bool Arith.
Import ListNotations.

(* ---------- argument values: ints, floats (halves), bools, strs, None, instances, tuples ---------- *)
Inductive pv :=
| PInt (z : Z) | PFloat (twice : Z)      (* the float twice/2, so 1.0 = PFloat 2 and 1.5 = PFloat 3 *)
| PBool (b : bool) | PStr (n : N) | PNone | PObj (id : N)   (* PObj: an instance, equal only to itself *)
| PTup (l : list pv).
Inductive pty := TyInt | TyFloat | TyBool | TyStr | TyNone | TyObj | TyTuple.
Definition type_of (v : pv) : pty :=
  match v with PInt _ => TyInt | PFloat _ => TyFloat | PBool _ => TyBool | PStr _ => TyStr
             | PNone => TyNone | PObj _ => TyObj | PTup _ => TyTuple end.
Definition pty_eqb (a b : pty) : bool :=
  match a, b with
  | TyInt, TyInt | TyFloat, TyFloat | TyBool, TyBool | TyStr, TyStr | TyNone, TyNone | TyObj, TyObj | TyTuple, TyTuple => true
  | _, _ => false
  end.
(* numeric value doubled, for the cross-type numeric equality 1 == 1.0 == True *)
Definition num2 (v : pv) : option Z :=
  match v with PInt z => Some (2 * z)%Z | PFloat t => Some t | PBool b => Some (if b then 2 else 0)%Z | _ => None end.
Fixpoint pv_eq (a b : pv) {struct a} : bool :=
  let fix list_eq (l1 l2 : list pv) {struct l1} : bool :=
    match l1, l2 with
    | [], [] => true
    | x :: l1', y :: l2' => pv_eq x y && list_eq l1' l2'
    | _, _ => false
    end in
  match a, b with
  | PStr n, PStr m => N.eqb n m
  | PNone, PNone => true
  | PObj i, PObj j => N.eqb i j
  | PTup l, PTup l' => list_eq l l'
  | _, _ => match num2 a, num2 b with Some x, Some y => Z.eqb x y | _, _ => false end
  end.

(* ---------- what goes into a key tuple ---------- *)
Inductive kelem := KVal (v : pv) | KMark | KPair (name : N) (v : pv) | KName (name : N) | KType (t : pty).
Definition kelem_eq (a b : kelem) : bool :=
  match a, b with
  | KVal x, KVal y => pv_eq x y
  | KMark, KMark => true
  | KPair n x, KPair m y => N.eqb n m && pv_eq x y
  | KName n, KName m => N.eqb n m
  | KType s, KType t => pty_eqb s t
  | _, _ => false
  end.
Fixpoint klist_eq (a b : list kelem) : bool :=
  match a, b with
  | [], [] => true
  | x :: a', y :: b' => kelem_eq x y && klist_eq a' b'
  | _, _ => false
  end.
(* a dictionary key: a bare fast-path value (int or str) or a wrapped tuple *)
Inductive ckey := KFast (v : pv) | KWrapped (l : list kelem).
Definition ckey_eq (a b : ckey) : bool :=
  match a, b with
  | KFast x, KFast y => pty_eqb (type_of x) (type_of y) && pv_eq x y
  | KWrapped l, KWrapped l' => klist_eq l l'
  | _, _ => false
  end.
Definition is_fast (v : pv) : bool := match v with PInt _ | PStr _ => true | _ => false end.

Record call := mkCall { c_args : list pv; c_kwds : list (N * pv) }.

(* asyncstdlib: CallKey.from_call *)
Definition asl_key (typed : bool) (c : call) : ckey :=
  let key := match c_kwds c with
             | [] => map KVal (c_args c)
             | kw => map KVal (c_args c) ++ [KMark] ++ map (fun p => KPair (fst p) (snd p)) kw
             end in
  if typed then
    KWrapped (key ++ map (fun v => KType (type_of v)) (c_args c) ++ map (fun p => KType (type_of (snd p))) (c_kwds c))
  else match key with
       | [KVal v] => if is_fast v then KFast v else KWrapped key
       | _ => KWrapped key
       end.
(* functools._make_key: keyword items are flattened into the tuple *)
Definition std_key (typed : bool) (c : call) : ckey :=
  let key := match c_kwds c with
             | [] => map KVal (c_args c)
             | kw => map KVal (c_args c) ++ [KMark] ++ flat_map (fun p => [KName (fst p); KVal (snd p)]) kw
             end in
  if typed then
    KWrapped (key ++ map (fun v => KType (type_of v)) (c_args c) ++ map (fun p => KType (type_of (snd p))) (c_kwds c))
  else match key with
       | [KVal v] => if is_fast v then KFast v else KWrapped key
       | _ => KWrapped key
       end.

(* ---------- operations and observations ---------- *)
Inductive lop :=
| LCall (c : call) (fails : bool)     (* await the cached function; [fails]: the wrapped function raises for this pattern *)
| LClear | LInfo | LDiscard (c : call).
Inductive lobs :=
| LRet (result : nat) (invoked : bool)      (* returned the result of invocation number [result]; was the wrapped function run now *)
| LRaised                                   (* the wrapped function was run and raised *)
| LInfoIs (hits misses : nat) (maxsize : option nat) (currsize : nat)
| LDone.
Definition lobs_eqb (a b : lobs) : bool :=
  match a, b with
  | LRet r i, LRet r' i' => Nat.eqb r r' && Bool.eqb i i'
  | LRaised, LRaised | LDone, LDone => true
  | LInfoIs h m ms c, LInfoIs h' m' ms' c' =>
      Nat.eqb h h' && Nat.eqb m m' && Nat.eqb c c' &&
      match ms, ms' with Some x, Some y => Nat.eqb x y | None, None => true | _, _ => false end
  | _, _ => false
  end.

(* ---------- the implementation ---------- *)
(* decorator front-end: maxsize given as None / an int (negative -> 0) *)
Definition norm_maxsize (m : option Z) : option nat :=
  match m with None => None | Some z => Some (if Z.ltb z 0 then 0 else Z.to_nat z) end.

Record lstate := mkL {
  l_cache : list (ckey * nat);     (* the (Ordered)dict in insertion order: oldest first *)
  l_hits : nat; l_misses : nat;
  l_invocations : nat              (* how often the wrapped function has been called (names its results) *)
}.
Definition l_init := mkL [] 0 0 0.
Fixpoint c_find (k : ckey) (l : list (ckey * nat)) : option nat :=
  match l with [] => None | (k', v) :: r => if ckey_eq k k' then Some v else c_find k r end.
Fixpoint c_remove (k : ckey) (l : list (ckey * nat)) : list (ckey * nat) :=
  match l with [] => [] | (k', v) :: r => if ckey_eq k k' then r else (k', v) :: c_remove k r end.
Definition move_to_end (k : ckey) (l : list (ckey * nat)) : list (ckey * nat) :=
  match c_find k l with Some v => c_remove k l ++ [(k, v)] | None => l end.
(* Note: move_to_end / a dict hit keep the key object that is already stored; keys are compared up to ckey_eq,
   so storing k instead of the stored representative is not observable. *)

Definition l_do (maxsize : option nat) (typed : bool) (s : lstate) (op : lop) : lstate * lobs :=
  match op with
  | LCall c fails =>
      let k := asl_key typed c in
      match maxsize with
      | Some 0 =>                                   (* UncachedLRUAsyncCallable *)
          let s' := mkL (l_cache s) (l_hits s) (S (l_misses s)) (S (l_invocations s)) in
          (s', if fails then LRaised else LRet (l_invocations s) true)
      | None =>                                     (* MemoizedLRUAsyncCallable *)
          match c_find k (l_cache s) with
          | Some v => (mkL (l_cache s) (S (l_hits s)) (l_misses s) (l_invocations s), LRet v false)
          | None =>
              let n := l_invocations s in
              if fails then (mkL (l_cache s) (l_hits s) (S (l_misses s)) (S n), LRaised)
              else (mkL (l_cache s ++ [(k, n)]) (l_hits s) (S (l_misses s)) (S n), LRet n true)
          end
      | Some m =>                                   (* CachedLRUAsyncCallable *)
          match c_find k (l_cache s) with
          | Some v => (mkL (move_to_end k (l_cache s)) (S (l_hits s)) (l_misses s) (l_invocations s), LRet v false)
          | None =>
              let n := l_invocations s in
              if fails then (mkL (l_cache s) (l_hits s) (S (l_misses s)) (S n), LRaised)
              else
                let cache' := if Nat.leb m (length (l_cache s))
                              then tl (l_cache s) ++ [(k, n)]          (* popitem(last=False), then insert *)
                              else l_cache s ++ [(k, n)] in
                (mkL cache' (l_hits s) (S (l_misses s)) (S n), LRet n true)
          end
      end
  | LClear =>
      (match maxsize with
       | Some 0 => mkL (l_cache s) (l_hits s) 0 (l_invocations s)       (* the uncached variant only resets misses *)
       | _ => mkL [] 0 0 (l_invocations s)
       end, LDone)
  | LInfo =>
      (s, match maxsize with
          | Some 0 => LInfoIs 0 (l_misses s) (Some 0) 0
          | _ => LInfoIs (l_hits s) (l_misses s) maxsize (length (l_cache s))
          end)
  | LDiscard c =>
      (match maxsize with
       | Some 0 => s
       | _ => mkL (c_remove (asl_key typed c) (l_cache s)) (l_hits s) (l_misses s) (l_invocations s)
       end, LDone)
  end.
Fixpoint l_run (maxsize : option nat) (typed : bool) (s : lstate) (ops : list lop) : list lobs :=
  match ops with
  | [] => []
  | op :: r => let '(s', o) := l_do maxsize typed s op in o :: l_run maxsize typed s' r
  end.

(* ---------- the specification: functools.lru_cache as documented ---------- *)
(* recency list, most recently used first, at most one entry per key class *)
Record fstate := mkF { f_recent : list (ckey * nat); f_hits : nat; f_misses : nat; f_invocations : nat }.
Definition f_init := mkF [] 0 0 0.
Definition f_do (maxsize : option nat) (typed : bool) (s : fstate) (op : lop) : fstate * lobs :=
  match op with
  | LCall c fails =>
      let k := std_key typed c in
      let n := f_invocations s in
      match maxsize with
      | Some 0 => (mkF [] 0 (S (f_misses s)) (S n), if fails then LRaised else LRet n true)
      | _ =>
          match c_find k (f_recent s) with
          | Some v => (mkF ((k, v) :: c_remove k (f_recent s)) (S (f_hits s)) (f_misses s) n, LRet v false)
          | None =>
              if fails then (mkF (f_recent s) (f_hits s) (S (f_misses s)) (S n), LRaised)
              else
                let kept := match maxsize with
                            | Some m => firstn (m - 1) (f_recent s)       (* make room: drop the least recently used *)
                            | None => f_recent s
                            end in
                (mkF ((k, n) :: kept) (f_hits s) (S (f_misses s)) (S n), LRet n true)
          end
      end
  | LClear => (mkF [] 0 0 (f_invocations s), LDone)
  | LInfo => (s, LInfoIs (f_hits s) (f_misses s) maxsize (length (f_recent s)))
  | LDiscard c => (mkF (c_remove (std_key typed c) (f_recent s)) (f_hits s) (f_misses s) (f_invocations s), LDone)
  end.
Fixpoint f_run (maxsize : option nat) (typed : bool) (s : fstate) (ops : list lop) : list lobs :=
  match ops with
  | [] => []
  | op :: r => let '(s', o) := f_do maxsize typed s op in o :: f_run maxsize typed s' r
  end.

Fixpoint lobs_list_eqb (a b : list lobs) : bool :=
  match a, b with
  | [], [] => true
  | x :: a', y :: b' => lobs_eqb x y && lobs_list_eqb a' b'
  | _, _ => false
  end.
Record lcase := mkLC { lc_maxsize : option Z; lc_typed : bool; lc_ops : list lop;
                       lc_obs : list lobs;             (* asyncstdlib *)
                       lc_std : list lobs }.           (* functools.lru_cache (LDiscard omitted there) *)
Definition has_discard (ops : list lop) : bool := existsb (fun o => match o with LDiscard _ => true | _ => false end) ops.
Definition lcase_ok (c : lcase) : bool :=
  let m := norm_maxsize (lc_maxsize c) in
  lobs_list_eqb (l_run m (lc_typed c) l_init (lc_ops c)) (lc_obs c)
  && (has_discard (lc_ops c) || lobs_list_eqb (f_run m (lc_typed c) f_init (lc_ops c)) (lc_std c)).
Fixpoint lfailing_from (i : nat) (l : list lcase) : list nat :=
  match l with [] => [] | c :: r => if lcase_ok c then lfailing_from (S i) r else i :: lfailing_from (S i) r end.
Definition lfailing (l : list lcase) : list nat := lfailing_from 0 l.
