(* Context managers used as decorators (ContextDecorator.__call__ / _recreate_cm): every call of the decorated
   coroutine function is  enter . body . exit  around its own (re-created) manager.  Small-step machine over
   concurrent calls with suspension points inside enter, body and exit.  Definitions only. *)
From Coq Require Import List ZArith NArith Bool Arith.
Import ListNotations.

Inductive xc := XBody (call : nat) | XCancel.          (* exceptions: the one raised by body of call i; a cancellation *)
Inductive devent :=
| DEnterStart (call gen : nat) | DEntered (call gen : nat)
| DBodyStart (call : nat) | DBodyEnd (call : nat) (raised : option xc)
| DExitStart (call gen : nat) (exc : option xc) | DExited (call gen : nat)
| DResult (call : nat) (r : option (option xc)).       (* None: returned the body's value; Some None: exception suppressed, returned None; Some (Some e): raised e *)
Inductive dpc :=
| DNot
| DEnter (left gen : nat)
| DBody (left gen : nat)
| DExit (left gen : nat) (exc : option xc)
| DDone.
Record dconfig := mkDCfg {
  d_generator_based : bool;        (* contextmanager-created manager (re-created per call) vs a plain ContextDecorator instance *)
  d_se : nat; d_sb : nat; d_sx : nat;   (* suspensions inside enter / body / exit *)
  d_suppress : bool;               (* the manager swallows the exception it is exited with *)
  d_raises : list bool             (* per call: does the body raise *)
}.
Record dstate := mkD { d_next_gen : nat; d_log : list devent; d_pcs : list dpc }.
Definition d_init (cfg : dconfig) : dstate := mkD 0 [] (map (fun _ => DNot) (d_raises cfg)).
Inductive daction := DRun (c : nat) | DCancelAt (c : nat).
Fixpoint dset_nth {A} (n : nat) (x : A) (l : list A) : list A :=
  match l, n with [], _ => [] | _ :: t, 0 => x :: t | h :: t, S n' => h :: dset_nth n' x t end.
Definition dpc_of (s : dstate) (c : nat) : dpc := nth c (d_pcs s) DDone.
Definition dput (s : dstate) (c : nat) (pc : dpc) (evs : list devent) : dstate :=
  mkD (d_next_gen s) (d_log s ++ evs) (dset_nth c pc (d_pcs s)).

(* the exit phase has completed: what the call does *)
Definition finish (cfg : dconfig) (c g : nat) (exc : option xc) : list devent :=
  [DExited c g; DResult c (match exc with
                           | None => None
                           | Some e => if d_suppress cfg then Some None else Some (Some e)
                           end)].
(* run the phases from the given point until a suspension is reached *)
Definition run_exit (cfg : dconfig) (s : dstate) (c g : nat) (exc : option xc) (pre : list devent) : dstate :=
  match d_sx cfg with
  | 0 => dput s c DDone (pre ++ [DExitStart c g exc] ++ finish cfg c g exc)
  | S j => dput s c (DExit (S j) g exc) (pre ++ [DExitStart c g exc])
  end.
Definition body_exc (cfg : dconfig) (c : nat) : option xc := if nth c (d_raises cfg) false then Some (XBody c) else None.
Definition run_body (cfg : dconfig) (s : dstate) (c g : nat) (pre : list devent) : dstate :=
  match d_sb cfg with
  | 0 => run_exit cfg s c g (body_exc cfg c) (pre ++ [DEntered c g; DBodyStart c; DBodyEnd c (body_exc cfg c)])
  | S j => dput s c (DBody (S j) g) (pre ++ [DEntered c g; DBodyStart c])
  end.
Definition denabled (s : dstate) (a : daction) : bool :=
  match a with
  | DRun c => match dpc_of s c with DDone => false | _ => true end
  | DCancelAt c => match dpc_of s c with DDone | DNot => false | _ => true end
  end.
Definition dstep (cfg : dconfig) (s : dstate) (a : daction) : dstate :=
  if negb (denabled s a) then s else
  match a with
  | DRun c =>
      match dpc_of s c with
      | DDone => s
      | DNot =>
          let g := if d_generator_based cfg then d_next_gen s else 0 in
          let s1 := mkD (if d_generator_based cfg then S (d_next_gen s) else d_next_gen s) (d_log s) (d_pcs s) in
          match d_se cfg with
          | 0 => run_body cfg s1 c g [DEnterStart c g]
          | S j => dput s1 c (DEnter (S j) g) [DEnterStart c g]
          end
      | DEnter (S (S j)) g => dput s c (DEnter (S j) g) []
      | DEnter _ g => run_body cfg s c g []
      | DBody (S (S j)) g => dput s c (DBody (S j) g) []
      | DBody _ g => run_exit cfg s c g (body_exc cfg c) [DBodyEnd c (body_exc cfg c)]
      | DExit (S (S j)) g e => dput s c (DExit (S j) g e) []
      | DExit _ g e => dput s c DDone (finish cfg c g e)
      end
  | DCancelAt c =>
      match dpc_of s c with
      | DEnter _ g => dput s c DDone [DResult c (Some (Some XCancel))]        (* enter failed: no body, no exit *)
      | DBody _ g => run_exit cfg s c g (Some XCancel) [DBodyEnd c (Some XCancel)]
      | DExit _ g e => dput s c DDone [DResult c (Some (Some XCancel))]       (* the exit itself is cancelled *)
      | _ => s
      end
  end.
Fixpoint drun (cfg : dconfig) (s : dstate) (sched : list daction) : dstate :=
  match sched with [] => s | a :: r => drun cfg (dstep cfg s a) r end.
Definition dexec (cfg : dconfig) (sched : list daction) : dstate := drun cfg (d_init cfg) sched.

(* the events of one call, in order *)
Definition call_of (e : devent) : nat :=
  match e with
  | DEnterStart c _ | DEntered c _ | DBodyStart c | DBodyEnd c _ | DExitStart c _ _ | DExited c _ | DResult c _ => c
  end.
Definition projection (c : nat) (l : list devent) : list devent := filter (fun e => Nat.eqb (call_of e) c) l.

(* ---- comparison for the correspondence check ---- *)
Definition xc_eqb (a b : xc) : bool :=
  match a, b with XBody i, XBody j => Nat.eqb i j | XCancel, XCancel => true | _, _ => false end.
Definition oxc_eqb (a b : option xc) : bool :=
  match a, b with None, None => true | Some x, Some y => xc_eqb x y | _, _ => false end.
Definition devent_eqb (a b : devent) : bool :=
  match a, b with
  | DEnterStart c g, DEnterStart c' g' | DEntered c g, DEntered c' g' | DExited c g, DExited c' g' => Nat.eqb c c' && Nat.eqb g g'
  | DBodyStart c, DBodyStart c' => Nat.eqb c c'
  | DBodyEnd c e, DBodyEnd c' e' => Nat.eqb c c' && oxc_eqb e e'
  | DExitStart c g e, DExitStart c' g' e' => Nat.eqb c c' && Nat.eqb g g' && oxc_eqb e e'
  | DResult c r, DResult c' r' =>
      Nat.eqb c c' && match r, r' with None, None => true | Some x, Some y => oxc_eqb x y | _, _ => false end
  | _, _ => false
  end.
Fixpoint dlog_eqb (a b : list devent) : bool :=
  match a, b with [], [] => true | x :: a', y :: b' => devent_eqb x y && dlog_eqb a' b' | _, _ => false end.
Record dcase := mkDC { dc_cfg : dconfig; dc_sched : list daction; dc_log : list devent }.
Definition dcase_ok (c : dcase) : bool := dlog_eqb (d_log (dexec (dc_cfg c) (dc_sched c))) (dc_log c).
Fixpoint dfailing_from (i : nat) (l : list dcase) : list nat :=
  match l with [] => [] | c :: r => if dcase_ok c then dfailing_from (S i) r else i :: dfailing_from (S i) r end.
Definition dfailing (l : list dcase) : list nat := dfailing_from 0 l.
