(* Pyl: a deep embedding of the small Python fragment in which the simple loop tools of
   asyncstdlib/builtins.py and asyncstdlib/itertools.py are written, with a denotational semantics into the
   generator calculus (Kernel/Monad.v).  harness/translate.py regenerates Gen/PylSrc.v from the current source
   on every run: one [fdef] per translated function, constructor by constructor from the Python AST.
   Proofs/PylEquivAgg.v and Proofs/PylEquivIter.v proves each generated term equal (as a world transformer) to the hand-written model that
   all the property theorems are about.  Definitions only. *)
From Coq Require Import List ZArith NArith Bool Arith String.
Import ListNotations.
Require Import V.Kernel.Values V.Kernel.Monad V.Model.Builtins.
Local Open Scope string_scope.

(* what a callable parameter is bound to *)
Inductive callee :=
| CUser (idx : nat) (impl : list val -> val)   (* a user callable: every call is an event and a use *)
| CBool                                        (* the builtin bool, assigned by the library itself *)
| CAdd                                         (* operator.add, the library's default reduction *)
| CNoneFn.                                     (* None was passed *)

Inductive cmp := CEq | CGt | CLe | CGe.

Inductive expr :=
| EVar (x : string)
| EInt (z : Z) | ETrue | EFalse | ENone
| ENot (e : expr)
| ETuple2 (a b : expr)
| EAdd (a b : expr)
| EAwaitCall1 (f : string) (a : expr)          (* await f(a)        (f was passed through _awaitify) *)
| EAwaitCall2 (f : string) (a b : expr)        (* await f(a, b) *)
| EAwaitCallStar (f : string) (a : expr)       (* await f( *a ) *)
| EFnIsNone (f : string)                       (* f is None *)
| EListComp (it : string)                      (* [x async for x in it] *)
| ETupleOfList (e : expr)                      (* ( *e, ) *)
| ESetComp (it : string)                       (* {x async for x in it} *)
| EIsSentinel (x : string)                     (* x is <the private "not given" marker of the function> *)
| EIfExp (c a b : expr)                        (* a if c else b *)
| ELt (a b : expr)                             (* a < b  (TypeError when unorderable) *)
| EIsStrLike (e : expr)                        (* isinstance(e, (str, bytes, bytearray)): no such values in the domain *)
| EOpaqueStr                                   (* a string built for an error message only *)
| EIsNone (e : expr)                           (* e is None *)
| EIntCmp (op : cmp) (a b : expr)              (* a == b, a > b, a <= b, a >= b on integers *)
| ESub (a b : expr) | EMod (a b : expr)        (* a - b, a % b on integers *)
| EStarEmpty (star : string)                   (* not iterables   (an *iterables parameter / a tuple of iterators) *)
| ELen (e : expr)                              (* len(e) of a list *)
| EAnd (a b : expr).                           (* a and b *)

Inductive stmt :=
| SSkip
| SSeq (a b : stmt)
| SAssign (x : string) (e : expr)
| SAwaitify (f : string)                       (* f = _awaitify(f) : calling conventions only, no behaviour *)
| SSetFnBool (f : string)                      (* f = bool *)
| SIf (c : expr) (t e : stmt)
| SYield (e : expr)
| SWith (it iterable : string) (body : stmt)   (* async with ScopedIter(iterable) as it: body *)
| SFor (x it : string) (body orelse : stmt)    (* async for x in it: body  else: orelse *)
| SAnextOr (x it : string) (handler : stmt)    (* try: x = await anext(it)  except StopAsyncIteration: handler *)
| SAnextDefault (x it : string)                (* x = await anext(it, default=<marker>) *)
| SRaise (e : exn)                             (* raise TypeError(...) / ValueError(...)  [from None] *)
| SForEnum (c x it : string) (start : expr) (body orelse : stmt)
                                               (* async for c, x in enumerate(_borrow(it), start=K): body else: orelse *)
| SForZipBorrowed (x y it1 it2 : string) (body : stmt)
                                               (* async for x, y in zip(_borrow(it1), _borrow(it2)): body   (no break/return) *)
| SForZipOwned (x star : string) (body : stmt) (* async with ScopedIter(zip( *star )) as it: async for x in it: body   (no break/return) *)
| SSlicePrelude                                (* s = slice( *args ); start, stop, step = s.start or 0, s.stop, s.step or 1 :
                                                  argument normalisation, performed by the caller of the model *)
| SWhileTrue (body : stmt)                     (* while True: body *)
| STryStop (body handler : stmt)               (* try: body  except StopAsyncIteration: handler
                                                  -- catches the exhaustion signalled by the library's own anext calls *)
| STryFinally (body fin : stmt)                (* try: body  finally: fin *)
| SCloseAll (star : string)                    (* await _close_all(aiters) *)
| SStarAlias (x star : string)                 (* x = ( *(aiter(it) for it in star), ) *)
| SAnext (x it : string)                       (* x = await anext(it) *)
| SAnextRow (x star : string)                  (* x = [await anext(it) for it in star] *)
| SListNew (x : string)                        (* x = [] *)
| SListClear (x : string)                      (* x.clear() *)
| SAppendAnext (x it : string)                 (* x.append(await anext(it)) *)
| SIfAnextGot (it : string) (t e : stmt)       (* if await anext(it, marker) is not marker: t else: e *)
| SForIters (idx it star : string) (from : nat) (start : Z) (body : stmt)
                                               (* for idx, it in enumerate(star[from:], start): body *)
| SForRange (n : expr) (body : stmt)           (* for _ in range(n): body *)
| SDelegate (f star : string)                  (* async for x in f(star): yield x   -- another translated generator of the library *)
| SWithStar (its star : string) (body : stmt)  (* async with ScopedIter(star) as its: body   -- star: a tuple of iterables; iterating
                                                  the tuple itself has no effects, only its elements are sources *)
| SForStar (it its : string) (body : stmt)     (* async for it in its: body   -- its: a tuple of iterables, it: the iterable of the turn *)
| SAppend (x : string) (e : expr)              (* x.append(e) *)
| SForList (x l : string) (body : stmt)        (* for x in l: body   -- l: a list the body does not change *)
| SBreak
| SReturn (e : option expr)
| SUnsupported (what : string).                (* the translator met something outside the fragment *)

Record fdef := mkFn { f_name : string; f_params : list string; f_body : stmt }.

(* ---------- environments ---------- *)
Record env := mkEnv {
  e_vars : list (string * option val);      (* None: bound to the function's "not given" marker *)
  e_fns : list (string * callee);
  e_its : list (string * nat);      (* iterable / iterator names -> source index *)
  e_star : list (string * list nat); (* a *iterables parameter -> the source indices *)
  e_lib : list (string * (list nat -> (val -> M unit) -> M unit))
                                    (* the library's own generators that may be delegated to: name -> denotation *)
}.
Fixpoint lookup {A} (x : string) (l : list (string * A)) : option A :=
  match l with
  | [] => None
  | (y, a) :: r => if String.eqb x y then Some a else lookup x r
  end.
Definition set_var (en : env) (x : string) (v : val) := mkEnv ((x, Some v) :: e_vars en) (e_fns en) (e_its en) (e_star en) (e_lib en).
Definition set_marker (en : env) (x : string) := mkEnv ((x, None) :: e_vars en) (e_fns en) (e_its en) (e_star en) (e_lib en).
Definition set_fn (en : env) (f : string) (c : callee) := mkEnv (e_vars en) ((f, c) :: e_fns en) (e_its en) (e_star en) (e_lib en).
Definition set_it (en : env) (x : string) (i : nat) := mkEnv (e_vars en) (e_fns en) ((x, i) :: e_its en) (e_star en) (e_lib en).

Definition set_star (en : env) (x : string) (l : list nat) := mkEnv (e_vars en) (e_fns en) (e_its en) ((x, l) :: e_star en) (e_lib en).
Inductive arg := AVal (v : val) | AOpt (o : option val) | AFn (c : callee) | AIter (i : nat) | AIters (l : list nat).
Fixpoint bind_args (ps : list string) (args : list arg) (en : env) : env :=
  match ps, args with
  | p :: ps', a :: args' =>
      bind_args ps' args' (match a with
                          | AVal v | AOpt (Some v) => set_var en p v
                          | AOpt None => set_marker en p
                          | AFn c => set_fn en p c
                          | AIter i => set_it en p i
                          | AIters l => set_star en p l
                          end)
  | _, _ => en
  end.
Definition env_with (lib : list (string * (list nat -> (val -> M unit) -> M unit))) := mkEnv [] [] [] [] lib.
Definition empty_env := env_with [].

(* ---------- expressions ---------- *)
Definition need {A} (o : option A) : M A :=
  match o with Some a => ret a | None => raise XRuntimeError end.     (* unbound name *)
Definition call_callee (c : callee) (args : list val) : M val :=
  match c with
  | CUser idx impl => call idx impl args
  | CBool => match args with [x] => ret (VBool (truthy x)) | _ => raise XTypeError end
  | CAdd => match args with [x; y] => lift_val (py_add x y) | _ => raise XTypeError end
  | CNoneFn => raise XTypeError
  end.
Definition set_add' := set_add.

Fixpoint eval (en : env) (e : expr) : M val :=
  match e with
  | EVar x => o <- need (lookup x (e_vars en)) ;; need o
  | EInt z => ret (VInt z)
  | ETrue => ret (VBool true)
  | EFalse => ret (VBool false)
  | ENone => ret VNone
  | ENot a => v <- eval en a ;; ret (VBool (negb (truthy v)))
  | ETuple2 a b => x <- eval en a ;; y <- eval en b ;; ret (VTup [x; y])
  | EAdd a b => x <- eval en a ;; y <- eval en b ;; lift_val (py_add x y)
  | EAwaitCall1 f a => c <- need (lookup f (e_fns en)) ;; x <- eval en a ;; call_callee c [x]
  | EAwaitCall2 f a b => c <- need (lookup f (e_fns en)) ;; x <- eval en a ;; y <- eval en b ;; call_callee c [x; y]
  | EAwaitCallStar f a =>
      c <- need (lookup f (e_fns en)) ;; x <- eval en a ;;
      match x with
      | VTup args | VList args => call_callee c args
      | _ => raise XTypeError
      end
  | EFnIsNone f => c <- need (lookup f (e_fns en)) ;;
                   ret (VBool (match c with CNoneFn => true | _ => false end))
  | EListComp it =>
      i <- need (lookup it (e_its en)) ;;
      r <- loop_src i (fun acc x => ret (x :: acc, true)) [] ;; ret (VList (rev (fst r)))
  | ETupleOfList a =>
      v <- eval en a ;;
      match v with VList l | VTup l => ret (VTup l) | _ => raise XTypeError end
  | ESetComp it =>
      i <- need (lookup it (e_its en)) ;;
      r <- loop_src i (fun acc x => if hashable x then ret (set_add acc x, true) else raise XTypeError) [] ;;
      ret (VList (fst r))
  | EIsSentinel x => o <- need (lookup x (e_vars en)) ;;
                     ret (VBool (match o with None => true | Some _ => false end))
  | EIfExp c a b => v <- eval en c ;; if truthy v then eval en a else eval en b
  | ELt a b => x <- eval en a ;; y <- eval en b ;; r <- lift_lt (py_lt x y) ;; ret (VBool r)
  | EIsStrLike a => v <- eval en a ;; ret (VBool false)
  | EOpaqueStr => ret VNone
  | EIsNone a => v <- eval en a ;; ret (VBool (match v with VNone => true | _ => false end))
  | EIntCmp op a b =>
      x <- eval en a ;; y <- eval en b ;;
      match x, y with
      | VInt p, VInt q => ret (VBool (match op with CEq => Z.eqb p q | CGt => Z.ltb q p | CLe => Z.leb p q | CGe => Z.leb q p end))
      | _, _ => raise XTypeError
      end
  | ESub a b => x <- eval en a ;; y <- eval en b ;;
                match x, y with VInt p, VInt q => ret (VInt (p - q)) | _, _ => raise XTypeError end
  | EMod a b => x <- eval en a ;; y <- eval en b ;;
                match x, y with VInt p, VInt q => ret (VInt (Z.modulo p q)) | _, _ => raise XTypeError end
  | EStarEmpty star => ss <- need (lookup star (e_star en)) ;; ret (VBool (match ss with [] => true | _ => false end))
  | ELen a => v <- eval en a ;;
              match v with VList l | VTup l => ret (VInt (Z.of_nat (List.length l))) | _ => raise XTypeError end
  | EAnd a b => x <- eval en a ;; if truthy x then eval en b else ret x
  end.

(* ---------- statements ---------- *)
(* Exc e: an exception raised by a library-level construct (exhaustion found by the library's own anext), carrying the
   environment of the moment; a fault injected at a use is an Exn outcome of the monad and is never caught *)
Inductive sig := Normal | Brk | Ret (v : val) | Exc (e : exn).

Fixpoint while_fuel (fuel : nat) (body : env -> M (env * sig)) (en : env) : M (env * sig) :=
  match fuel with
  | 0 => out_of_fuel
  | S f => r <- body en ;;
           match snd r with
           | Normal => while_fuel f body (fst r)
           | Brk => ret (fst r, Normal)
           | _ => ret r
           end
  end.
Fixpoint for_iters (l : list nat) (k : Z) (idx it : string) (body : env -> M (env * sig)) (en : env) : M (env * sig) :=
  match l with
  | [] => ret (en, Normal)
  | i :: r => rr <- body (set_it (set_var en idx (VInt k)) it i) ;;
              match snd rr with
              | Normal => for_iters r (k + 1)%Z idx it body (fst rr)
              | Brk => ret (fst rr, Normal)
              | _ => ret rr
              end
  end.
Fixpoint for_range (n : nat) (body : env -> M (env * sig)) (en : env) : M (env * sig) :=
  match n with
  | 0 => ret (en, Normal)
  | S m => rr <- body en ;;
           match snd rr with
           | Normal => for_range m body (fst rr)
           | Brk => ret (fst rr, Normal)
           | _ => ret rr
           end
  end.
Fixpoint for_star (l : list nat) (it : string) (body : env -> M (env * sig)) (en : env) : M (env * sig) :=
  match l with
  | [] => ret (en, Normal)
  | i :: r => rr <- body (set_it en it i) ;;
              match snd rr with
              | Normal => for_star r it body (fst rr)
              | Brk => ret (fst rr, Normal)
              | _ => ret rr
              end
  end.
Fixpoint for_list (l : list val) (x : string) (body : env -> M (env * sig)) (en : env) : M (env * sig) :=
  match l with
  | [] => ret (en, Normal)
  | v :: r => rr <- body (set_var en x v) ;;
              match snd rr with
              | Normal => for_list r x body (fst rr)
              | Brk => ret (fst rr, Normal)
              | _ => ret rr
              end
  end.
Fixpoint anext_row (l : list nat) (acc : list val) : M (option (list val)) :=
  match l with
  | [] => ret (Some acc)
  | i :: r => o <- pull i ;; match o with None => ret None | Some v => anext_row r (acc ++ [v]) end
  end.

Fixpoint exec (s : stmt) (en : env) (yield : val -> M unit) : M (env * sig) :=
  match s with
  | SSkip => ret (en, Normal)
  | SSeq a b => r <- exec a en yield ;;
                match snd r with
                | Normal => exec b (fst r) yield
                | _ => ret r
                end
  | SAssign x e => v <- eval en e ;; ret (set_var en x v, Normal)
  | SAwaitify f => c <- need (lookup f (e_fns en)) ;; ret (en, Normal)
  | SSetFnBool f => ret (set_fn en f CBool, Normal)
  | SIf c t e => v <- eval en c ;; if truthy v then exec t en yield else exec e en yield
  | SYield e => v <- eval en e ;; yield v ;;; ret (en, Normal)
  | SWith it iterable body =>
      i <- need (lookup iterable (e_its en)) ;;
      scoped i (exec body (set_it en it i) yield)
  | SFor x it body orelse =>
      i <- need (lookup it (e_its en)) ;;
      r <- loop_src i (fun st item =>
             r <- exec body (set_var (fst st) x item) yield ;;
             match snd r with
             | Normal => ret (r, true)
             | _ => ret (r, false)
             end) (en, Normal) ;;
      match snd (fst r) with
      | Normal => exec orelse (fst (fst r)) yield
      | Brk => ret (fst (fst r), Normal)
      | _ => ret (fst r)
      end
  | SAnextOr x it handler =>
      i <- need (lookup it (e_its en)) ;;
      o <- pull i ;;
      match o with
      | Some v => ret (set_var en x v, Normal)
      | None => exec handler en yield
      end
  | SAnextDefault x it =>
      i <- need (lookup it (e_its en)) ;;
      o <- pull i ;;
      match o with
      | Some v => ret (set_var en x v, Normal)
      | None => ret (set_marker en x, Normal)
      end
  | SRaise e => raise e
  | SForEnum c x it start body orelse =>
      i <- need (lookup it (e_its en)) ;;
      k <- eval en start ;;
      match k with
      | VInt k0 =>
          r <- loop_src i (fun (st : env * sig * Z) item =>
                 r <- exec body (set_var (set_var (fst (fst st)) c (VInt (snd st))) x item) yield ;;
                 match snd r with
                 | Normal => ret ((r, (snd st + 1)%Z), true)
                 | _ => ret ((r, snd st), false)
                 end) (en, Normal, k0) ;;
          match snd (fst (fst r)) with
          | Normal => exec orelse (fst (fst (fst r))) yield
          | Brk => ret (fst (fst (fst r)), Normal)
          | _ => ret (fst (fst r))
          end
      | _ => raise XTypeError
      end
  | SForZipBorrowed x y it1 it2 body =>
      i <- need (lookup it1 (e_its en)) ;;
      j <- need (lookup it2 (e_its en)) ;;
      zip_inner false [i; j] (fun t =>
        match t with
        | VTup [a; b] => r <- exec body (set_var (set_var en x a) y b) yield ;;
                         match snd r with Normal => ret tt | _ => raise XRuntimeError end
        | _ => raise XValueError
        end) ;;; ret (en, Normal)
  | SForZipOwned x star body =>
      ss <- need (lookup star (e_star en)) ;;
      a_zip false ss (fun t =>
        r <- exec body (set_var en x t) yield ;;
        match snd r with Normal => ret tt | _ => raise XRuntimeError end) ;;; ret (en, Normal)
  | SSlicePrelude => ret (en, Normal)
  | SWhileTrue body => with_fuel (fun f => while_fuel f (fun e => exec body e yield) en)
  | STryStop body handler =>
      r <- exec body en yield ;;
      match snd r with
      | Exc XStopAsync => exec handler (fst r) yield
      | _ => ret r
      end
  | STryFinally body fin => finally (exec body en yield) (exec fin en yield ;;; ret tt)
  | SCloseAll star => ss <- need (lookup star (e_star en)) ;; close_all ss ;;; ret (en, Normal)
  | SStarAlias x star => ss <- need (lookup star (e_star en)) ;; ret (set_star en x ss, Normal)
  | SAnext x it =>
      i <- need (lookup it (e_its en)) ;;
      o <- pull i ;;
      match o with
      | Some v => ret (set_var en x v, Normal)
      | None => ret (en, Exc XStopAsync)
      end
  | SAnextRow x star =>
      ss <- need (lookup star (e_star en)) ;;
      o <- anext_row ss [] ;;
      match o with
      | Some xs => ret (set_var en x (VList xs), Normal)
      | None => ret (en, Exc XStopAsync)
      end
  | SListNew x => ret (set_var en x (VList []), Normal)
  | SListClear x => o <- need (lookup x (e_vars en)) ;; v <- need o ;;
                    match v with VList _ => ret (set_var en x (VList []), Normal) | _ => raise XAttributeError end
  | SAppendAnext x it =>
      i <- need (lookup it (e_its en)) ;;
      o0 <- need (lookup x (e_vars en)) ;; l <- need o0 ;;
      o <- pull i ;;
      match o, l with
      | Some v, VList xs => ret (set_var en x (VList (xs ++ [v])), Normal)
      | Some _, _ => raise XAttributeError
      | None, _ => ret (en, Exc XStopAsync)
      end
  | SIfAnextGot it t e =>
      i <- need (lookup it (e_its en)) ;;
      o <- pull i ;;
      match o with
      | Some _ => exec t en yield
      | None => exec e en yield
      end
  | SForIters idx it star from start body =>
      ss <- need (lookup star (e_star en)) ;;
      for_iters (skipn from ss) start idx it (fun e => exec body e yield) en
  | SForRange n body =>
      v <- eval en n ;;
      match v with
      | VInt z => for_range (Z.to_nat z) (fun e => exec body e yield) en
      | _ => raise XTypeError
      end
  | SDelegate f star =>
      den <- need (lookup f (e_lib en)) ;;
      ss <- need (lookup star (e_star en)) ;;
      den ss yield ;;; ret (en, Normal)
  | SWithStar its star body =>
      ss <- need (lookup star (e_star en)) ;;
      exec body (set_star en its ss) yield
  | SForStar it its body =>
      ss <- need (lookup its (e_star en)) ;;
      for_star ss it (fun e => exec body e yield) en
  | SAppend x e =>
      o0 <- need (lookup x (e_vars en)) ;; l <- need o0 ;;
      v <- eval en e ;;
      match l with
      | VList xs => ret (set_var en x (VList (xs ++ [v])), Normal)
      | _ => raise XAttributeError
      end
  | SForList x l body =>
      o0 <- need (lookup l (e_vars en)) ;; v <- need o0 ;;
      match v with
      | VList xs => for_list xs x (fun e => exec body e yield) en
      | _ => raise XTypeError
      end
  | SBreak => ret (en, Brk)
  | SReturn None => ret (en, Ret VNone)
  | SReturn (Some e) => v <- eval en e ;; ret (en, Ret v)
  | SUnsupported _ => raise XRuntimeError
  end.

(* an async generator function: what the consumer sees is the yields *)
Definition run_genfn_in (lib : list (string * (list nat -> (val -> M unit) -> M unit))) (f : fdef) (args : list arg) : gen := fun yield =>
  r <- exec (f_body f) (bind_args (f_params f) args (env_with lib)) yield ;;
  match snd r with Exc e => raise e | _ => ret tt end.
Definition run_genfn (f : fdef) (args : list arg) : gen := run_genfn_in [] f args.
(* a coroutine function: the awaited result *)
Definition run_corofn (f : fdef) (args : list arg) : M val :=
  r <- exec (f_body f) (bind_args (f_params f) args empty_env) (fun _ => raise XRuntimeError) ;;
  match snd r with Ret v => ret v | Exc e => raise e | _ => ret VNone end.

Fixpoint supported (s : stmt) : bool :=
  match s with
  | SUnsupported _ => false
  | SSeq a b | SIf _ a b | SFor _ _ a b | SForEnum _ _ _ _ a b | STryStop a b | STryFinally a b | SIfAnextGot _ a b => supported a && supported b
  | SWhileTrue a | SForIters _ _ _ _ _ a | SForRange _ a => supported a
  | SForZipBorrowed _ _ _ _ a | SForZipOwned _ _ a => supported a
  | SWith _ _ a | SAnextOr _ _ a | SWithStar _ _ a | SForStar _ _ a | SForList _ _ a => supported a
  | _ => true
  end.
