(* Pyl: a deep embedding of the small Python fragment in which the simple loop tools of
   asyncstdlib/builtins.py and asyncstdlib/itertools.py are written, with a denotational semantics into the
   generator calculus (Kernel/Monad.v).  harness/translate.py regenerates Gen/PylSrc.v from the current source
   on every run: one [fdef] per translated function, constructor by constructor from the Python AST.
   Proofs/PylEquivAgg.v and Proofs/PylEquivIter.v proves each generated term equal (as a world transformer) to the hand-written model that
   all the property theorems are about.  Definitions only. *)
From Coq Require Import List ZArith NArith Bool Arith String.
Import ListNotations.
Require Import V.Kernel.Values V.Kernel.Monad V.Model.Builtins.
Local Open Scope string_scope.

(* what a callable parameter is bound to *)
Inductive callee :=
| CUser (idx : nat) (impl : list val -> val)   (* a user callable: every call is an event and a use *)
| CBool                                        (* the builtin bool, assigned by the library itself *)
| CAdd                                         (* operator.add, the library's default reduction *)
| CNoneFn.                                     (* None was passed *)

Inductive cmp := CEq | CGt | CLe | CGe.

Inductive expr :=
| EVar (x : string)
| EInt (z : Z) | ETrue | EFalse | ENone
| ENot (e : expr)
| ETuple2 (a b : expr)
| EAdd (a b : expr)
| EAwaitCall1 (f : string) (a : expr)          (* await f(a)        (f was passed through _awaitify) *)
| EAwaitCall2 (f : string) (a b : expr)        (* await f(a, b) *)
| EAwaitCallStar (f : string) (a : expr)       (* await f( *a ) *)
| EFnIsNone (f : string)                       (* f is None *)
| EListComp (it : string)                      (* [x async for x in it] *)
| ETupleOfList (e : expr)                      (* ( *e, ) *)
| ESetComp (it : string)                       (* {x async for x in it} *)
| EIsSentinel (x : string)                     (* x is <the private "not given" marker of the function> *)
| EIfExp (c a b : expr)                        (* a if c else b *)
| ELt (a b : expr)                             (* a < b  (TypeError when unorderable) *)
| EIsStrLike (e : expr)                        (* isinstance(e, (str, bytes, bytearray)): no such values in the domain *)
| EOpaqueStr                                   (* a string built for an error message only *)
| EIsNone (e : expr)                           (* e is None *)
| EIntCmp (op : cmp) (a b : expr)              (* a == b, a > b, a <= b, a >= b on integers *)
| ESub (a b : expr) | EMod (a b : expr).       (* a - b, a % b on integers *)

Inductive stmt :=
| SSkip
| SSeq (a b : stmt)
| SAssign (x : string) (e : expr)
| SAwaitify (f : string)                       (* f = _awaitify(f) : calling conventions only, no behaviour *)
| SSetFnBool (f : string)                      (* f = bool *)
| SIf (c : expr) (t e : stmt)
| SYield (e : expr)
| SWith (it iterable : string) (body : stmt)   (* async with ScopedIter(iterable) as it: body *)
| SFor (x it : string) (body orelse : stmt)    (* async for x in it: body  else: orelse *)
| SAnextOr (x it : string) (handler : stmt)    (* try: x = await anext(it)  except StopAsyncIteration: handler *)
| SAnextDefault (x it : string)                (* x = await anext(it, default=<marker>) *)
| SRaise (e : exn)                             (* raise TypeError(...) / ValueError(...)  [from None] *)
| SForEnum (c x it : string) (start : expr) (body orelse : stmt)
                                               (* async for c, x in enumerate(_borrow(it), start=K): body else: orelse *)
| SForZipBorrowed (x y it1 it2 : string) (body : stmt)
                                               (* async for x, y in zip(_borrow(it1), _borrow(it2)): body   (no break/return) *)
| SForZipOwned (x star : string) (body : stmt) (* async with ScopedIter(zip( *star )) as it: async for x in it: body   (no break/return) *)
| SSlicePrelude                                (* s = slice( *args ); start, stop, step = s.start or 0, s.stop, s.step or 1 :
                                                  argument normalisation, performed by the caller of the model *)
| SBreak
| SReturn (e : option expr)
| SUnsupported (what : string).                (* the translator met something outside the fragment *)

Record fdef := mkFn { f_name : string; f_params : list string; f_body : stmt }.

(* ---------- environments ---------- *)
Record env := mkEnv {
  e_vars : list (string * option val);      (* None: bound to the function's "not given" marker *)
  e_fns : list (string * callee);
  e_its : list (string * nat);      (* iterable / iterator names -> source index *)
  e_star : list (string * list nat) (* a *iterables parameter -> the source indices *)
}.
Fixpoint lookup {A} (x : string) (l : list (string * A)) : option A :=
  match l with
  | [] => None
  | (y, a) :: r => if String.eqb x y then Some a else lookup x r
  end.
Definition set_var (en : env) (x : string) (v : val) := mkEnv ((x, Some v) :: e_vars en) (e_fns en) (e_its en) (e_star en).
Definition set_marker (en : env) (x : string) := mkEnv ((x, None) :: e_vars en) (e_fns en) (e_its en) (e_star en).
Definition set_fn (en : env) (f : string) (c : callee) := mkEnv (e_vars en) ((f, c) :: e_fns en) (e_its en) (e_star en).
Definition set_it (en : env) (x : string) (i : nat) := mkEnv (e_vars en) (e_fns en) ((x, i) :: e_its en) (e_star en).

Definition set_star (en : env) (x : string) (l : list nat) := mkEnv (e_vars en) (e_fns en) (e_its en) ((x, l) :: e_star en).
Inductive arg := AVal (v : val) | AOpt (o : option val) | AFn (c : callee) | AIter (i : nat) | AIters (l : list nat).
Fixpoint bind_args (ps : list string) (args : list arg) (en : env) : env :=
  match ps, args with
  | p :: ps', a :: args' =>
      bind_args ps' args' (match a with
                          | AVal v | AOpt (Some v) => set_var en p v
                          | AOpt None => set_marker en p
                          | AFn c => set_fn en p c
                          | AIter i => set_it en p i
                          | AIters l => set_star en p l
                          end)
  | _, _ => en
  end.
Definition empty_env := mkEnv [] [] [] [].

(* ---------- expressions ---------- *)
Definition need {A} (o : option A) : M A :=
  match o with Some a => ret a | None => raise XRuntimeError end.     (* unbound name *)
Definition call_callee (c : callee) (args : list val) : M val :=
  match c with
  | CUser idx impl => call idx impl args
  | CBool => match args with [x] => ret (VBool (truthy x)) | _ => raise XTypeError end
  | CAdd => match args with [x; y] => lift_val (py_add x y) | _ => raise XTypeError end
  | CNoneFn => raise XTypeError
  end.
Definition set_add' := set_add.

Fixpoint eval (en : env) (e : expr) : M val :=
  match e with
  | EVar x => o <- need (lookup x (e_vars en)) ;; need o
  | EInt z => ret (VInt z)
  | ETrue => ret (VBool true)
  | EFalse => ret (VBool false)
  | ENone => ret VNone
  | ENot a => v <- eval en a ;; ret (VBool (negb (truthy v)))
  | ETuple2 a b => x <- eval en a ;; y <- eval en b ;; ret (VTup [x; y])
  | EAdd a b => x <- eval en a ;; y <- eval en b ;; lift_val (py_add x y)
  | EAwaitCall1 f a => c <- need (lookup f (e_fns en)) ;; x <- eval en a ;; call_callee c [x]
  | EAwaitCall2 f a b => c <- need (lookup f (e_fns en)) ;; x <- eval en a ;; y <- eval en b ;; call_callee c [x; y]
  | EAwaitCallStar f a =>
      c <- need (lookup f (e_fns en)) ;; x <- eval en a ;;
      match x with
      | VTup args | VList args => call_callee c args
      | _ => raise XTypeError
      end
  | EFnIsNone f => c <- need (lookup f (e_fns en)) ;;
                   ret (VBool (match c with CNoneFn => true | _ => false end))
  | EListComp it =>
      i <- need (lookup it (e_its en)) ;;
      r <- loop_src i (fun acc x => ret (x :: acc, true)) [] ;; ret (VList (rev (fst r)))
  | ETupleOfList a =>
      v <- eval en a ;;
      match v with VList l | VTup l => ret (VTup l) | _ => raise XTypeError end
  | ESetComp it =>
      i <- need (lookup it (e_its en)) ;;
      r <- loop_src i (fun acc x => if hashable x then ret (set_add acc x, true) else raise XTypeError) [] ;;
      ret (VList (fst r))
  | EIsSentinel x => o <- need (lookup x (e_vars en)) ;;
                     ret (VBool (match o with None => true | Some _ => false end))
  | EIfExp c a b => v <- eval en c ;; if truthy v then eval en a else eval en b
  | ELt a b => x <- eval en a ;; y <- eval en b ;; r <- lift_lt (py_lt x y) ;; ret (VBool r)
  | EIsStrLike a => v <- eval en a ;; ret (VBool false)
  | EOpaqueStr => ret VNone
  | EIsNone a => v <- eval en a ;; ret (VBool (match v with VNone => true | _ => false end))
  | EIntCmp op a b =>
      x <- eval en a ;; y <- eval en b ;;
      match x, y with
      | VInt p, VInt q => ret (VBool (match op with CEq => Z.eqb p q | CGt => Z.ltb q p | CLe => Z.leb p q | CGe => Z.leb q p end))
      | _, _ => raise XTypeError
      end
  | ESub a b => x <- eval en a ;; y <- eval en b ;;
                match x, y with VInt p, VInt q => ret (VInt (p - q)) | _, _ => raise XTypeError end
  | EMod a b => x <- eval en a ;; y <- eval en b ;;
                match x, y with VInt p, VInt q => ret (VInt (Z.modulo p q)) | _, _ => raise XTypeError end
  end.

(* ---------- statements ---------- *)
Inductive sig := Normal | Brk | Ret (v : val).

Fixpoint exec (s : stmt) (en : env) (yield : val -> M unit) : M (env * sig) :=
  match s with
  | SSkip => ret (en, Normal)
  | SSeq a b => r <- exec a en yield ;;
                match snd r with
                | Normal => exec b (fst r) yield
                | _ => ret r
                end
  | SAssign x e => v <- eval en e ;; ret (set_var en x v, Normal)
  | SAwaitify f => c <- need (lookup f (e_fns en)) ;; ret (en, Normal)
  | SSetFnBool f => ret (set_fn en f CBool, Normal)
  | SIf c t e => v <- eval en c ;; if truthy v then exec t en yield else exec e en yield
  | SYield e => v <- eval en e ;; yield v ;;; ret (en, Normal)
  | SWith it iterable body =>
      i <- need (lookup iterable (e_its en)) ;;
      scoped i (exec body (set_it en it i) yield)
  | SFor x it body orelse =>
      i <- need (lookup it (e_its en)) ;;
      r <- loop_src i (fun st item =>
             r <- exec body (set_var (fst st) x item) yield ;;
             match snd r with
             | Normal => ret (r, true)
             | _ => ret (r, false)
             end) (en, Normal) ;;
      match snd (fst r) with
      | Normal => exec orelse (fst (fst r)) yield
      | Brk => ret (fst (fst r), Normal)
      | Ret v => ret (fst r)
      end
  | SAnextOr x it handler =>
      i <- need (lookup it (e_its en)) ;;
      o <- pull i ;;
      match o with
      | Some v => ret (set_var en x v, Normal)
      | None => exec handler en yield
      end
  | SAnextDefault x it =>
      i <- need (lookup it (e_its en)) ;;
      o <- pull i ;;
      match o with
      | Some v => ret (set_var en x v, Normal)
      | None => ret (set_marker en x, Normal)
      end
  | SRaise e => raise e
  | SForEnum c x it start body orelse =>
      i <- need (lookup it (e_its en)) ;;
      k <- eval en start ;;
      match k with
      | VInt k0 =>
          r <- loop_src i (fun (st : env * sig * Z) item =>
                 r <- exec body (set_var (set_var (fst (fst st)) c (VInt (snd st))) x item) yield ;;
                 match snd r with
                 | Normal => ret ((r, (snd st + 1)%Z), true)
                 | _ => ret ((r, snd st), false)
                 end) (en, Normal, k0) ;;
          match snd (fst (fst r)) with
          | Normal => exec orelse (fst (fst (fst r))) yield
          | Brk => ret (fst (fst (fst r)), Normal)
          | Ret v => ret (fst (fst r))
          end
      | _ => raise XTypeError
      end
  | SForZipBorrowed x y it1 it2 body =>
      i <- need (lookup it1 (e_its en)) ;;
      j <- need (lookup it2 (e_its en)) ;;
      zip_inner false [i; j] (fun t =>
        match t with
        | VTup [a; b] => r <- exec body (set_var (set_var en x a) y b) yield ;;
                         match snd r with Normal => ret tt | _ => raise XRuntimeError end
        | _ => raise XValueError
        end) ;;; ret (en, Normal)
  | SForZipOwned x star body =>
      ss <- need (lookup star (e_star en)) ;;
      a_zip false ss (fun t =>
        r <- exec body (set_var en x t) yield ;;
        match snd r with Normal => ret tt | _ => raise XRuntimeError end) ;;; ret (en, Normal)
  | SSlicePrelude => ret (en, Normal)
  | SBreak => ret (en, Brk)
  | SReturn None => ret (en, Ret VNone)
  | SReturn (Some e) => v <- eval en e ;; ret (en, Ret v)
  | SUnsupported _ => raise XRuntimeError
  end.

(* an async generator function: what the consumer sees is the yields *)
Definition run_genfn (f : fdef) (args : list arg) : gen := fun yield =>
  exec (f_body f) (bind_args (f_params f) args empty_env) yield ;;; ret tt.
(* a coroutine function: the awaited result *)
Definition run_corofn (f : fdef) (args : list arg) : M val :=
  r <- exec (f_body f) (bind_args (f_params f) args empty_env) (fun _ => raise XRuntimeError) ;;
  ret (match snd r with Ret v => v | _ => VNone end).

Fixpoint supported (s : stmt) : bool :=
  match s with
  | SUnsupported _ => false
  | SSeq a b | SIf _ a b | SFor _ _ a b | SForEnum _ _ _ _ a b => supported a && supported b
  | SForZipBorrowed _ _ _ _ a | SForZipOwned _ _ a => supported a
  | SWith _ _ a | SAnextOr _ _ a => supported a
  | _ => true
  end.
