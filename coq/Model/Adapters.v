(* asyncstdlib.asynctools adapters: any_iter, await_each, apply, sync -- transliterated as event traces.
   Definitions only. *)
From Coq Require Import List ZArith NArith Bool Arith.
Import ListNotations.
Require Import V.Kernel.Values.

Inductive aev :=
| AAwaitOuter                 (* the outer awaitable (an `async def` returning the iterable) is awaited *)
| APull (k : nat) | AEnd      (* item k is requested from the (a)sync iterable / it signals its end *)
| AAwaitItem (k : nat)        (* item k is an awaitable and is awaited *)
| AYield (v : val)            (* delivered to the consumer *)
| ACloseSrc                   (* the async iterable is closed *)
| AAwaitArg (k : nat) | AAwaitKw (k : nat) | ACall (args kwargs : list val).
Definition aev_eqb (a b : aev) : bool :=
  match a, b with
  | AAwaitOuter, AAwaitOuter | AEnd, AEnd | ACloseSrc, ACloseSrc => true
  | APull k, APull k' | AAwaitItem k, AAwaitItem k' | AAwaitArg k, AAwaitArg k' | AAwaitKw k, AAwaitKw k' => Nat.eqb k k'
  | AYield v, AYield v' => val_eqb v v'
  | ACall x y, ACall x' y' => list_eqb val_eqb x x' && list_eqb val_eqb y y'
  | _, _ => false
  end.

Inductive container := CList | CIter | CAsync.
Record shape := mkShape { outer_awaitable : bool; cont : container; items_awaitable : bool }.

(* any_iter consumed for [take] items then closed (take > length: to exhaustion) *)
Fixpoint any_iter_loop (sh : shape) (k : nat) (items : list val) (take : nat) : list aev * bool :=   (* bool: ran to the end *)
  match take with
  | 0 => ([], false)
  | S t =>
      match items with
      | [] => ([APull k; AEnd], true)
      | x :: r =>
          let here := [APull k] ++ (if items_awaitable sh then [AAwaitItem k] else []) ++ [AYield x] in
          let '(rest, fin) := any_iter_loop sh (S k) r t in (here ++ rest, fin)
      end
  end.
Definition any_iter_run (sh : shape) (items : list val) (take : nat) : list aev :=
  match take with
  | 0 => []                                    (* an unstarted generator does nothing *)
  | _ =>
      (if outer_awaitable sh then [AAwaitOuter] else []) ++
      fst (any_iter_loop sh 0 items take) ++
      (match cont sh with CAsync => [ACloseSrc] | _ => [] end)      (* ScopedIter around the async iterable *)
  end.

(* await_each: one awaitable per requested item *)
Fixpoint await_each_run (k : nat) (items : list val) (take : nat) : list aev :=
  match take, items with
  | 0, _ => []
  | S t, [] => [APull k; AEnd]
  | S t, x :: r => [APull k; AAwaitItem k; AYield x] ++ await_each_run (S k) r t
  end.

(* apply(f, *args, **kwargs): all positional awaited in order, then all keyword ones, then f is called *)
Definition apply_run (args kwargs : list val) : list aev :=
  map AAwaitArg (seq 0 (length args)) ++ map AAwaitKw (seq 0 (length kwargs)) ++ [ACall args kwargs].

Definition ayields (l : list aev) : list val := flat_map (fun e => match e with AYield v => [v] | _ => [] end) l.
Definition awaits_of_items (l : list aev) : list nat := flat_map (fun e => match e with AAwaitItem k => [k] | _ => [] end) l.

(* correspondence cases *)
Inductive acase :=
| CAnyIter (sh : shape) (items : list val) (take : nat) (obs : list aev)
| CAwaitEach (items : list val) (take : nat) (obs : list aev)
| CApply (args kwargs : list val) (obs : list aev).
Definition acase_ok (c : acase) : bool :=
  match c with
  | CAnyIter sh items take obs => list_eqb aev_eqb (any_iter_run sh items take) obs
  | CAwaitEach items take obs => list_eqb aev_eqb (await_each_run 0 items take) obs
  | CApply a k obs => list_eqb aev_eqb (apply_run a k) obs
  end.
Fixpoint afailing_from (i : nat) (l : list acase) : list nat :=
  match l with [] => [] | c :: r => if acase_ok c then afailing_from (S i) r else i :: afailing_from (S i) r end.
Definition afailing (l : list acase) : list nat := afailing_from 0 l.
