(* asyncstdlib lru_cache under overlapping calls: small-step machine.  A call is phase A (lookup; on a miss the
   statistics are updated and the wrapped function is invoked), the suspensions of the wrapped function, and
   phase B (re-check for the key, then insert / evict) -- or failure / cancellation, which store nothing.
   Keys are abstract numbers (one per argument pattern class, see Model/Lru.v for the key construction).
   Definitions only. *)
From Coq Require Import List ZArith NArith Bool Arith.
Import ListNotations.

Inductive qop :=
| QCall (key : nat) (fails : bool)      (* await cached(key) ; [fails]: the wrapped function raises at the end *)
| QClear | QDiscard (key : nat).
Inductive qpc :=
| QIdle                                  (* between two operations of the task *)
| QInCall (left : nat) (key : nat) (value : nat) (fails : bool)   (* suspended inside the wrapped function *)
| QFinished.
Inductive qres := QRet (value : nat) (hit : bool) | QRaised | QCancelled | QDone.
Record qtask := mkQT { q_script : list qop; q_pc : qpc; q_results : list qres }.
Record qstate := mkQ {
  q_cache : list (nat * nat);       (* (key, value) oldest first *)
  q_hits : nat; q_misses : nat;
  q_invoked : list nat;             (* key of invocation number i (the value an invocation returns is its number) *)
  q_tasks : list qtask
}.
Record qconfig := mkQCfg { q_maxsize : option nat; q_susp : nat; q_scripts : list (list qop) }.
Definition q_init (cfg : qconfig) : qstate :=
  mkQ [] 0 0 [] (map (fun sc => mkQT sc (match sc with [] => QFinished | _ => QIdle end) []) (q_scripts cfg)).
Inductive qaction := QRun (t : nat) | QCancel (t : nat).

Fixpoint qfind (k : nat) (l : list (nat * nat)) : option nat :=
  match l with [] => None | (k', v) :: r => if Nat.eqb k k' then Some v else qfind k r end.
Definition qremove (k : nat) (l : list (nat * nat)) : list (nat * nat) := filter (fun p => negb (Nat.eqb (fst p) k)) l.
Fixpoint qset_nth {A} (n : nat) (x : A) (l : list A) : list A :=
  match l, n with [], _ => [] | _ :: t, 0 => x :: t | h :: t, S n' => h :: qset_nth n' x t end.
Definition qdflt := mkQT [] QFinished [].
Definition qget (s : qstate) (t : nat) : qtask := nth t (q_tasks s) qdflt.
Definition qsett (s : qstate) (t : nat) (x : qtask) : qstate :=
  mkQ (q_cache s) (q_hits s) (q_misses s) (q_invoked s) (qset_nth t x (q_tasks s)).
(* the current operation of task t is over with result r *)
Definition qdone (x : qtask) (r : qres) : qtask :=
  let rest := tl (q_script x) in
  mkQT rest (match rest with [] => QFinished | _ => QIdle end) (q_results x ++ [r]).

(* phase B: the awaited call returned [value] *)
Definition store (maxsize : option nat) (cache : list (nat * nat)) (key value : nat) : list (nat * nat) :=
  match qfind key cache with
  | Some _ => cache                                  (* another call stored the key meanwhile: leave it *)
  | None =>
      match maxsize with
      | None => cache ++ [(key, value)]
      | Some m => if Nat.leb m (length cache) then tl cache ++ [(key, value)] else cache ++ [(key, value)]
      end
  end.
Definition finish_call (cfg : qconfig) (s : qstate) (t : nat) (key value : nat) (fails : bool) : qstate :=
  let x := qget s t in
  if fails then qsett s t (qdone x QRaised)
  else
    let cache' := match q_maxsize cfg with Some 0 => q_cache s | m => store m (q_cache s) key value end in
    qsett (mkQ cache' (q_hits s) (q_misses s) (q_invoked s) (q_tasks s)) t (qdone x (QRet value false)).

Definition qenabled (s : qstate) (a : qaction) : bool :=
  match a with
  | QRun t | QCancel t => match q_pc (qget s t) with QFinished => false | _ => true end
  end.
Definition qstep (cfg : qconfig) (s : qstate) (a : qaction) : qstate :=
  if negb (qenabled s a) then s else
  match a with
  | QRun t =>
      let x := qget s t in
      match q_pc x with
      | QFinished => s
      | QIdle =>
          match q_script x with
          | [] => qsett s t (mkQT [] QFinished (q_results x))
          | QClear :: _ =>
              let s1 := match q_maxsize cfg with
                        | Some 0 => mkQ (q_cache s) (q_hits s) 0 (q_invoked s) (q_tasks s)
                        | _ => mkQ [] 0 0 (q_invoked s) (q_tasks s)
                        end in
              qsett s1 t (qdone x QDone)
          | QDiscard k :: _ =>
              qsett (mkQ (qremove k (q_cache s)) (q_hits s) (q_misses s) (q_invoked s) (q_tasks s)) t (qdone x QDone)
          | QCall k fails :: _ =>
              let hit := match q_maxsize cfg with Some 0 => None | _ => qfind k (q_cache s) end in
              match hit with
              | Some v =>
                  let cache' := match q_maxsize cfg with
                                | None => q_cache s
                                | Some _ => qremove k (q_cache s) ++ [(k, v)]      (* move_to_end *)
                                end in
                  qsett (mkQ cache' (S (q_hits s)) (q_misses s) (q_invoked s) (q_tasks s)) t (qdone x (QRet v true))
              | None =>
                  let n := length (q_invoked s) in
                  let s1 := mkQ (q_cache s) (q_hits s) (S (q_misses s)) (q_invoked s ++ [k]) (q_tasks s) in
                  match q_susp cfg with
                  | 0 => finish_call cfg s1 t k n fails
                  | S j => qsett s1 t (mkQT (q_script x) (QInCall (S j) k n fails) (q_results x))
                  end
              end
          end
      | QInCall (S (S j)) k v f => qsett s t (mkQT (q_script x) (QInCall (S j) k v f) (q_results x))
      | QInCall _ k v f => finish_call cfg s t k v f
      end
  | QCancel t =>
      let x := qget s t in
      match q_pc x with
      | QFinished => s
      | _ => qsett s t (mkQT [] QFinished (q_results x ++ [QCancelled]))     (* nothing is stored *)
      end
  end.
Fixpoint qrun (cfg : qconfig) (s : qstate) (sched : list qaction) : qstate :=
  match sched with [] => s | a :: r => qrun cfg (qstep cfg s a) r end.
Definition qexec (cfg : qconfig) (sched : list qaction) : qstate := qrun cfg (q_init cfg) sched.

(* ---- observation after every action, for the correspondence check ---- *)
Record qsnap := mkQS { qs_hits : nat; qs_misses : nat; qs_invocations : nat; qs_keys : list nat }.
Definition qsnap_of (s : qstate) : qsnap := mkQS (q_hits s) (q_misses s) (length (q_invoked s)) (map fst (q_cache s)).
Fixpoint qtrace (cfg : qconfig) (s : qstate) (sched : list qaction) : list qsnap * qstate :=
  match sched with
  | [] => ([], s)
  | a :: r => let s' := qstep cfg s a in let '(l, sf) := qtrace cfg s' r in (qsnap_of s' :: l, sf)
  end.
Definition qres_eqb (a b : qres) : bool :=
  match a, b with
  | QRet v h, QRet v' h' => Nat.eqb v v' && Bool.eqb h h'
  | QRaised, QRaised | QCancelled, QCancelled | QDone, QDone => true
  | _, _ => false
  end.
Fixpoint list_eqb {A} (f : A -> A -> bool) (a b : list A) : bool :=
  match a, b with [], [] => true | x :: a', y :: b' => f x y && list_eqb f a' b' | _, _ => false end.
Definition qsnap_eqb (a b : qsnap) : bool :=
  Nat.eqb (qs_hits a) (qs_hits b) && Nat.eqb (qs_misses a) (qs_misses b) && Nat.eqb (qs_invocations a) (qs_invocations b)
  && list_eqb Nat.eqb (qs_keys a) (qs_keys b).
Record qcase := mkQC { qc_cfg : qconfig; qc_sched : list qaction; qc_snaps : list qsnap; qc_results : list (list qres) }.
Definition qcase_ok (c : qcase) : bool :=
  let '(l, sf) := qtrace (qc_cfg c) (q_init (qc_cfg c)) (qc_sched c) in
  list_eqb qsnap_eqb l (qc_snaps c) && list_eqb (list_eqb qres_eqb) (map q_results (q_tasks sf)) (qc_results c).
Fixpoint qfailing_from (i : nat) (l : list qcase) : list nat :=
  match l with [] => [] | c :: r => if qcase_ok c then qfailing_from (S i) r else i :: qfailing_from (S i) r end.
Definition qfailing (l : list qcase) : list nat := qfailing_from 0 l.
