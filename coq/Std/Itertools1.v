(* itertools tools over ONE source (source 0), as CPython's synchronous itertools performs them
   when the result is consumed to exhaustion (or until it raises).
   Every tool has
     spec_T_trace : the interleaved events, oldest first (no EClose: the stdlib does not close),
     spec_T       : the yielded items, written with ordinary list functions,
     spec_T_end   : (only where the run can end with an exception) how the run ends.
   [py_add] (Python's [+] on the value domain) is the one in Model/Builtins.v, like [py_eq]/[truthy]
   of Kernel/Values.v it is value-level semantics, not part of any tool model. *)
From Coq Require Import List ZArith NArith Bool Arith.
Import ListNotations.
Require Import V.Kernel.Values V.Kernel.Monad V.Model.Builtins V.Std.Filter.

(* ------------------------------------------------------------------ *)
(* takewhile / dropwhile                                                *)
(* ------------------------------------------------------------------ *)
Fixpoint takewhile (q : val -> bool) (l : list val) : list val :=
  match l with [] => [] | x :: r => if q x then x :: takewhile q r else [] end.
Fixpoint dropwhile (q : val -> bool) (l : list val) : list val :=
  match l with [] => [] | x :: r => if q x then dropwhile q r else l end.
Definition holds (p : list val -> val) (x : val) : bool := truthy (p [x]).

Definition spec_takewhile (p : list val -> val) (xs : list val) : list val := takewhile (holds p) xs.
(* the first failing item is pulled, tested and lost; nothing is pulled afterwards *)
Fixpoint spec_takewhile_trace (p : list val -> val) (xs : list val) : list event :=
  match xs with
  | [] => [EPull 0; EEnd 0]
  | x :: r => [EPull 0; EItem 0 x; ECall 0 [x]]
              ++ (if holds p x then EYield x :: spec_takewhile_trace p r else [])
  end.

Definition spec_dropwhile (p : list val -> val) (xs : list val) : list val := dropwhile (holds p) xs.
(* once the predicate has failed the rest is passed through without calling it *)
Fixpoint pass_trace (xs : list val) : list event :=
  match xs with
  | [] => [EPull 0; EEnd 0]
  | x :: r => [EPull 0; EItem 0 x; EYield x] ++ pass_trace r
  end.
Fixpoint spec_dropwhile_trace (p : list val -> val) (xs : list val) : list event :=
  match xs with
  | [] => [EPull 0; EEnd 0]
  | x :: r => [EPull 0; EItem 0 x; ECall 0 [x]]
              ++ (if holds p x then spec_dropwhile_trace p r else EYield x :: pass_trace r)
  end.

(* ------------------------------------------------------------------ *)
(* filterfalse  (predicate None = bool)                                 *)
(* ------------------------------------------------------------------ *)
Definition spec_filterfalse (p : option (list val -> val)) (xs : list val) : list val :=
  filter (fun x => negb (keep p x)) xs.
Fixpoint spec_filterfalse_trace (p : option (list val -> val)) (xs : list val) : list event :=
  match xs with
  | [] => [EPull 0; EEnd 0]
  | x :: r => [EPull 0; EItem 0 x]
              ++ (match p with None => [] | Some _ => [ECall 0 [x]] end)
              ++ (if keep p x then [] else [EYield x])
              ++ spec_filterfalse_trace p r
  end.

(* ------------------------------------------------------------------ *)
(* pairwise                                                             *)
(* ------------------------------------------------------------------ *)
Definition spec_pairwise (xs : list val) : list val :=
  map (fun ab => VTup [fst ab; snd ab]) (combine xs (tl xs)).
Fixpoint pairwise_from (a : val) (xs : list val) : list event :=
  match xs with
  | [] => [EPull 0; EEnd 0]
  | b :: r => [EPull 0; EItem 0 b; EYield (VTup [a; b])] ++ pairwise_from b r
  end.
Definition spec_pairwise_trace (xs : list val) : list event :=
  match xs with
  | [] => [EPull 0; EEnd 0]
  | a :: r => [EPull 0; EItem 0 a] ++ pairwise_from a r
  end.

(* ------------------------------------------------------------------ *)
(* accumulate func initial   (func None = operator.add)                 *)
(* ------------------------------------------------------------------ *)
(* one step; None = operator.add raised TypeError *)
Definition acc_step (f : option (list val -> val)) (total x : val) : option val :=
  match f with Some g => Some (g [total; x]) | None => py_add total x end.
(* the running totals after [total]; stops where the addition fails *)
Fixpoint scan (f : option (list val -> val)) (total : val) (xs : list val) : list val :=
  match xs with
  | [] => []
  | x :: r => match acc_step f total x with Some v => v :: scan f v r | None => [] end
  end.
Definition spec_accumulate (f : option (list val -> val)) (initial : option val) (xs : list val) : list val :=
  match initial, xs with
  | Some v, _ => v :: scan f v xs
  | None, x :: r => x :: scan f x r
  | None, [] => []
  end.
Fixpoint acc_trace (f : option (list val -> val)) (total : val) (xs : list val) : list event :=
  match xs with
  | [] => [EPull 0; EEnd 0]
  | x :: r => [EPull 0; EItem 0 x]
              ++ (match f with Some _ => [ECall 0 [total; x]] | None => [] end)
              ++ (match acc_step f total x with Some v => EYield v :: acc_trace f v r | None => [] end)
  end.
Fixpoint acc_end (f : option (list val -> val)) (total : val) (xs : list val) : outcome unit :=
  match xs with
  | [] => Ok tt
  | x :: r => match acc_step f total x with Some v => acc_end f v r | None => Exn XTypeError end
  end.
Definition spec_accumulate_trace (f : option (list val -> val)) (initial : option val) (xs : list val) : list event :=
  match initial, xs with
  | Some v, _ => EYield v :: acc_trace f v xs
  | None, x :: r => [EPull 0; EItem 0 x; EYield x] ++ acc_trace f x r
  | None, [] => [EPull 0; EEnd 0]
  end.
(* CPython: accumulate([]) is simply empty *)
Definition spec_accumulate_end (f : option (list val -> val)) (initial : option val) (xs : list val) : outcome unit :=
  match initial, xs with
  | Some v, _ => acc_end f v xs
  | None, x :: r => acc_end f x r
  | None, [] => Ok tt
  end.

(* ------------------------------------------------------------------ *)
(* starmap   (f( *item ): a non-iterable item is a TypeError)            *)
(* ------------------------------------------------------------------ *)
Definition star_args (x : val) : option (list val) :=
  match x with VTup a | VList a => Some a | _ => None end.
Fixpoint spec_starmap (f : list val -> val) (xs : list val) : list val :=
  match xs with
  | [] => []
  | x :: r => match star_args x with Some a => f a :: spec_starmap f r | None => [] end
  end.
Fixpoint spec_starmap_trace (f : list val -> val) (xs : list val) : list event :=
  match xs with
  | [] => [EPull 0; EEnd 0]
  | x :: r => [EPull 0; EItem 0 x]
              ++ (match star_args x with
                  | Some a => [ECall 0 a; EYield (f a)] ++ spec_starmap_trace f r
                  | None => []
                  end)
  end.
Fixpoint spec_starmap_end (xs : list val) : outcome unit :=
  match xs with
  | [] => Ok tt
  | x :: r => match star_args x with Some _ => spec_starmap_end r | None => Exn XTypeError end
  end.

(* ------------------------------------------------------------------ *)
(* islice start stop step   (0 <= start, stop None or >= 0, 1 <= step)  *)
(* ------------------------------------------------------------------ *)
(* the documented equivalent:
     indices = count() if stop is None else range(max(start, stop))
     next_i = start
     for i, element in zip(indices, iterable):
         if i == next_i: yield element; next_i += step
   zip asks [indices] first, so exactly max(start, stop) items are pulled when the source has that
   many (and then the source is NOT asked again); otherwise all items and the end are pulled. *)
Definition islice_sel (start : Z) (stop : option Z) (step : Z) (i : Z) : bool :=
  (start <=? i)%Z && (match stop with None => true | Some st => (i <? st)%Z end)
  && (((i - start) mod step) =? 0)%Z.
Definition islice_done (start : Z) (stop : option Z) (i : Z) : bool :=
  match stop with None => false | Some st => (Z.max start st <=? i)%Z end.
(* [i] = position of the next item of the source *)
Fixpoint islice_from (start : Z) (stop : option Z) (step : Z) (i : Z) (xs : list val) : list event :=
  if islice_done start stop i then []
  else match xs with
       | [] => [EPull 0; EEnd 0]
       | x :: r => [EPull 0; EItem 0 x]
                   ++ (if islice_sel start stop step i then [EYield x] else [])
                   ++ islice_from start stop step (i + 1)%Z r
       end.
Definition spec_islice_trace (start : Z) (stop : option Z) (step : Z) (xs : list val) : list event :=
  islice_from start stop step 0%Z xs.
(* the items at positions start, start+step, ... below stop *)
Definition spec_islice (start : Z) (stop : option Z) (step : Z) (xs : list val) : list val :=
  map snd (filter (fun ix => islice_sel start stop step (fst ix))
                  (combine (map Z.of_nat (seq 0 (length xs))) xs)).
(* number of items pulled from a source of [len] items, and whether its end is observed *)
Definition spec_islice_pulled (start : Z) (stop : option Z) (len : nat) : nat :=
  match stop with None => len | Some st => Nat.min len (Z.to_nat (Z.max start st)) end.
Definition spec_islice_sees_end (start : Z) (stop : option Z) (len : nat) : bool :=
  match stop with None => true | Some st => Nat.ltb len (Z.to_nat (Z.max start st)) end.

(* ------------------------------------------------------------------ *)
(* batched n strict   (1 <= n)                                          *)
(* ------------------------------------------------------------------ *)
(*   while batch := tuple(islice(iterator, n)):
         if strict and len(batch) != n: raise ValueError
         yield batch
   After a final partial batch CPython asks the (exhausted) source once more. *)
Fixpoint chunks (fuel n : nat) (xs : list val) : list (list val) :=
  match fuel, xs with
  | 0, _ | _, [] => []
  | S f, _ => firstn n xs :: chunks f n (skipn n xs)
  end.
Definition batch_ok (n : nat) (strict : bool) (b : list val) : bool := negb strict || Nat.eqb (length b) n.
Definition spec_batched (n : Z) (strict : bool) (xs : list val) : list val :=
  map VTup (filter (batch_ok (Z.to_nat n) strict) (chunks (length xs) (Z.to_nat n) xs)).
(* [acc] = the batch being filled *)
Fixpoint batched_go (n : nat) (strict : bool) (acc : list val) (xs : list val) : list event :=
  match xs with
  | [] => [EPull 0; EEnd 0]
          ++ (match acc with
              | [] => []
              | _ => if strict then [] else [EYield (VTup acc); EPull 0; EEnd 0]
              end)
  | x :: r => [EPull 0; EItem 0 x]
              ++ (if Nat.eqb (length (acc ++ [x])) n
                  then EYield (VTup (acc ++ [x])) :: batched_go n strict [] r
                  else batched_go n strict (acc ++ [x]) r)
  end.
Definition spec_batched_trace (n : Z) (strict : bool) (xs : list val) : list event :=
  batched_go (Z.to_nat n) strict [] xs.
Definition spec_batched_end (n : Z) (strict : bool) (xs : list val) : outcome unit :=
  if strict && negb (Nat.eqb (length xs mod Z.to_nat n) 0) then Exn XValueError else Ok tt.

(* ------------------------------------------------------------------ *)
(* cycle, cut after [passes] replays of the saved items                 *)
(* ------------------------------------------------------------------ *)
(* first pass: every item is passed through (and saved); then the saved items are replayed *)
Definition spec_cycle_trace (passes : nat) (xs : list val) : list event :=
  pass_trace xs ++ concat (repeat (map EYield xs) passes).
Definition spec_cycle (passes : nat) (xs : list val) : list val :=
  xs ++ concat (repeat xs passes).
(* the real iterator never ends unless the input is empty: the bounded run reports Fuel *)
Definition spec_cycle_end (xs : list val) : outcome unit :=
  match xs with [] => Ok tt | _ => Fuel end.
