(* The builtins enumerate / all / any / min / max / sum / list / tuple / set / dict / sorted and
   functools.reduce as CPython performs them on one iterable (source 0).
   Written independently of Model/: only Kernel/Values (values, py_lt, py_eq, truthy, events)
   and the type [outcome] of Kernel/Monad are used. *)
From Coq Require Import List ZArith NArith Bool.
Import ListNotations.
Require Import V.Kernel.Values V.Kernel.Monad.

(* ---------- helpers shared by the specifications ---------- *)
(* the value a key function (or no key function) associates with an item *)
Definition keyf (key : option (list val -> val)) (x : val) : val :=
  match key with None => x | Some k => k [x] end.
(* the call event of the key function for one item (none without key function) *)
Definition kcall (key : option (list val -> val)) (x : val) : list event :=
  match key with None => [] | Some _ => [ECall 0 [x]] end.
(* reading one item *)
Definition rd (x : val) : list event := [EPull 0; EItem 0 x].
Definition rd_end : list event := [EPull 0; EEnd 0].

(* left fold that stops at the first exception *)
Definition ofold {A} (f : A -> val -> outcome A) (xs : list val) (a : A) : outcome A :=
  fold_left (fun acc x => match acc with Ok a => f a x | o => o end) xs (Ok a).
Definition omap {A B} (f : A -> B) (o : outcome A) : outcome B :=
  match o with Ok a => Ok (f a) | Exn e => Exn e | Fuel => Fuel end.

(* ---------- enumerate(xs, start) ---------- *)
Fixpoint spec_enumerate (start : Z) (xs : list val) : list val :=
  match xs with
  | [] => []
  | x :: r => VTup [VInt start; x] :: spec_enumerate (start + 1) r
  end.
Fixpoint spec_enumerate_trace (start : Z) (xs : list val) : list event :=
  match xs with
  | [] => rd_end
  | x :: r => rd x ++ [EYield (VTup [VInt start; x])] ++ spec_enumerate_trace (start + 1) r
  end.

(* ---------- all(xs) / any(xs): stop reading at the first falsy / truthy item ---------- *)
Definition spec_all (xs : list val) : outcome val := Ok (VBool (forallb truthy xs)).
Definition spec_any (xs : list val) : outcome val := Ok (VBool (existsb truthy xs)).
Fixpoint spec_all_trace (xs : list val) : list event :=
  match xs with
  | [] => rd_end
  | x :: r => rd x ++ (if truthy x then spec_all_trace r else [])
  end.
Fixpoint spec_any_trace (xs : list val) : list event :=
  match xs with
  | [] => rd_end
  | x :: r => rd x ++ (if truthy x then [] else spec_any_trace r)
  end.

(* ---------- min / max (invert = false: min, invert = true: max) ---------- *)
(* does an item with key value [k] replace the current best with key value [bestk]?
   min: k < bestk ; max: k > bestk, i.e. bestk < k.  None = the comparison raises TypeError *)
Definition mm_replace (invert : bool) (bestk k : val) : option bool :=
  if invert then py_lt bestk k else py_lt k bestk.
(* one step of the sequential scan; state = (best item, its key value) *)
Definition mm_step (invert : bool) (key : option (list val -> val)) (st : val * val) (x : val)
  : outcome (val * val) :=
  match mm_replace invert (snd st) (keyf key x) with
  | None => Exn XTypeError
  | Some c => Ok (if c then (x, keyf key x) else st)
  end.
Definition spec_min_max (invert : bool) (key : option (list val -> val)) (default : option val)
  (xs : list val) : outcome val :=
  match xs with
  | [] => match default with None => Exn XValueError | Some d => Ok d end
  | x :: r => omap fst (ofold (mm_step invert key) r (x, keyf key x))
  end.
(* events: every item is read and then passed to the key function, in order; the run stops
   right after the key call whose result cannot be compared with the best key so far *)
Fixpoint mm_scan_trace (invert : bool) (key : option (list val -> val)) (bestk : val) (xs : list val)
  : list event :=
  match xs with
  | [] => rd_end
  | x :: r => rd x ++ kcall key x ++
              match mm_replace invert bestk (keyf key x) with
              | None => []
              | Some c => mm_scan_trace invert key (if c then keyf key x else bestk) r
              end
  end.
Definition spec_min_max_trace (invert : bool) (key : option (list val -> val)) (xs : list val)
  : list event :=
  match xs with
  | [] => rd_end
  | x :: r => rd x ++ kcall key x ++ mm_scan_trace invert key (keyf key x) r
  end.

(* ---------- sum(xs, start) ---------- *)
(* [+] on the item domain: numbers (objects count as their key), list + list, tuple + tuple *)
Definition num_of (v : val) : option Z :=
  match v with VObj _ k _ => Some k | VInt z => Some z | _ => None end.
Definition spec_add (a b : val) : outcome val :=
  match a, b with
  | VList x, VList y => Ok (VList (x ++ y))
  | VTup x, VTup y => Ok (VTup (x ++ y))
  | _, _ => match num_of a, num_of b with
            | Some x, Some y => Ok (VInt (x + y))
            | _, _ => Exn XTypeError
            end
  end.
Definition spec_sum (start : val) (xs : list val) : outcome val := ofold spec_add xs start.

(* ---------- list(xs) / tuple(xs) ---------- *)
Definition spec_list (xs : list val) : outcome val := Ok (VList xs).
Definition spec_tuple (xs : list val) : outcome val := Ok (VTup xs).

(* ---------- set(xs): represented by the list of first occurrences, in arrival order ---------- *)
Definition spec_set_step (acc : list val) (x : val) : outcome (list val) :=
  if hashable x then Ok (if existsb (py_eq x) acc then acc else acc ++ [x]) else Exn XTypeError.
Definition spec_set (xs : list val) : outcome val := omap VList (ofold spec_set_step xs []).

(* ---------- dict(xs): represented by the list of (key, value) tuples in insertion order ---------- *)
(* d[k] = v : an equal key keeps its position and its first key object, the value is replaced *)
Fixpoint spec_dict_put (acc : list (val * val)) (k v : val) : list (val * val) :=
  match acc with
  | [] => [(k, v)]
  | (k', v') :: r => if py_eq k k' then (k', v) :: r else (k', v') :: spec_dict_put r k v
  end.
(* "k, v = item": any sequence of length two unpacks *)
Definition unpack2 (x : val) : outcome (val * val) :=
  match x with
  | VTup [k; v] | VList [k; v] => Ok (k, v)
  | VTup _ | VList _ => Exn XValueError
  | _ => Exn XTypeError
  end.
Definition spec_dict_step (acc : list (val * val)) (x : val) : outcome (list (val * val)) :=
  match unpack2 x with
  | Ok (k, v) => if hashable k then Ok (spec_dict_put acc k v) else Exn XTypeError
  | Exn e => Exn e
  | Fuel => Fuel
  end.
Definition spec_dict (xs : list val) : outcome val :=
  omap (fun l => VList (map (fun kv => VTup [fst kv; snd kv]) l)) (ofold spec_dict_step xs []).

(* ---------- functools.reduce(f, xs[, initial]) ---------- *)
Definition spec_reduce (f : list val -> val) (initial : option val) (xs : list val) : outcome val :=
  match initial, xs with
  | Some v, _ => Ok (fold_left (fun a x => f [a; x]) xs v)
  | None, x :: r => Ok (fold_left (fun a x => f [a; x]) r x)
  | None, [] => Exn XTypeError
  end.
Fixpoint reduce_trace (f : list val -> val) (acc : val) (xs : list val) : list event :=
  match xs with
  | [] => rd_end
  | x :: r => rd x ++ [ECall 0 [acc; x]] ++ reduce_trace f (f [acc; x]) r
  end.
Definition spec_reduce_trace (f : list val -> val) (initial : option val) (xs : list val) : list event :=
  match initial, xs with
  | Some v, _ => reduce_trace f v xs
  | None, x :: r => rd x ++ reduce_trace f x r
  | None, [] => rd_end
  end.

(* ---------- sorted(xs, key=key, reverse=reverse) ---------- *)
(* "a goes strictly before b" in the requested direction; unorderable counts as "no" *)
Definition ltb_dir (reverse : bool) (a b : val) : bool :=
  match (if reverse then py_lt b a else py_lt a b) with Some true => true | _ => false end.
(* stable insertion of a NEWER element p = (key value, item): after everything that is not
   strictly after it, hence after its equals *)
Fixpoint ins_stable (reverse : bool) (p : val * val) (l : list (val * val)) : list (val * val) :=
  match l with
  | [] => [p]
  | q :: r => if ltb_dir reverse (fst p) (fst q) then p :: q :: r else q :: ins_stable reverse p r
  end.
Definition keyed (key : option (list val -> val)) (xs : list val) : list (val * val) :=
  map (fun x => (keyf key x, x)) xs.
Definition sort_stable (reverse : bool) (l : list (val * val)) : list (val * val) :=
  fold_left (fun acc p => ins_stable reverse p acc) l [].
Definition spec_sorted_list (key : option (list val -> val)) (reverse : bool) (xs : list val) : list val :=
  map snd (sort_stable reverse (keyed key xs)).
Definition spec_sorted (key : option (list val -> val)) (reverse : bool) (xs : list val) : outcome val :=
  Ok (VList (spec_sorted_list key reverse xs)).
(* every item is read and passed to the key function exactly once, in input order *)
Definition spec_sorted_trace (key : option (list val -> val)) (xs : list val) : list event :=
  flat_map (fun x => rd x ++ kcall key x) xs ++ rd_end.
(* domain of the sorted theorems: all key values are ints, or all are objects of one class *)
Definition same_kind (a b : val) : bool :=
  match a, b with
  | VInt _, VInt _ => true
  | VObj _ _ c, VObj _ _ c' => N.eqb c c'
  | _, _ => false
  end.
Definition orderable_keys (key : option (list val -> val)) (xs : list val) : bool :=
  match xs with
  | [] => true
  | x :: _ => forallb (fun y => same_kind (keyf key x) (keyf key y)) xs
  end.
