(* Multi-source tools as CPython performs them:
   zip / zip(..., strict=True), map(f, ...), itertools.compress(data, selectors),
   itertools.zip_longest(..., fillvalue=v), itertools.chain(...), each applied to the iterables xss.
   Source i is the i-th argument.  Written independently of the models. *)
From Coq Require Import List ZArith Bool Arith.
Import ListNotations.
Require Import V.Kernel.Values V.Kernel.Monad.

Definition nonempty (l : list val) : bool := match l with [] => false | _ => true end.

(* ---------- rows: the common engine of zip, map and compress ---------- *)

(* polling sources pos, pos+1, ... in turn, up to and including the first exhausted one *)
Fixpoint spec_poll (pos : nat) (xss : list (list val)) : list event :=
  match xss with
  | [] => []
  | [] :: _ => [EPull pos; EEnd pos]
  | (x :: _) :: r => [EPull pos; EItem pos x] ++ spec_poll (S pos) r
  end.
(* strict zip after source 0 ended: the others are polled in turn until one still has an item *)
Fixpoint spec_strict_check (pos : nat) (xss : list (list val)) : list event :=
  match xss with
  | [] => []
  | [] :: r => [EPull pos; EEnd pos] ++ spec_strict_check (S pos) r
  | (x :: _) :: _ => [EPull pos; EItem pos x]
  end.
(* [xs] = items of source 0, [rest] = items of sources 1.. ; [out row] = what is done with a full row *)
Fixpoint spec_rows_trace (out : list val -> list event) (strict : bool)
                         (xs : list val) (rest : list (list val)) : list event :=
  match xs with
  | [] => [EPull 0; EEnd 0] ++ (if strict then spec_strict_check 1 rest else [])
  | x :: xs' =>
      [EPull 0; EItem 0 x] ++ spec_poll 1 rest ++
      (if forallb nonempty rest
       then out (x :: map (hd VNone) rest) ++ spec_rows_trace out strict xs' (map (@tl val) rest)
       else [])
  end.

(* row j of the transposition *)
Definition column (d : val) (j : nat) (xss : list (list val)) : list val := map (fun l => nth j l d) xss.
Definition min_len (xss : list (list val)) : nat :=
  match xss with
  | [] => 0
  | xs :: r => fold_right (fun l m => Nat.min (length l) m) (length xs) r
  end.
Definition max_len (xss : list (list val)) : nat := fold_right (fun l m => Nat.max (length l) m) 0 xss.
Definition same_lengths (xss : list (list val)) : bool :=
  match xss with
  | [] => true
  | xs :: r => forallb (fun l => Nat.eqb (length l) (length xs)) r
  end.

(* ---------- zip ---------- *)
Definition spec_zip_trace (strict : bool) (xss : list (list val)) : list event :=
  match xss with
  | [] => []
  | xs :: rest => spec_rows_trace (fun row => [EYield (VTup row)]) strict xs rest
  end.
(* the first [min_len] rows of the transposition, with or without strict *)
Definition spec_zip (xss : list (list val)) : list val :=
  map (fun j => VTup (column VNone j xss)) (seq 0 (min_len xss)).
Definition spec_zip_end (strict : bool) (xss : list (list val)) : outcome unit :=
  if strict && negb (same_lengths xss) then Exn XValueError else Ok tt.

(* ---------- map (at least one iterable) ---------- *)
Definition spec_map_trace (f : list val -> val) (xss : list (list val)) : list event :=
  match xss with
  | [] => []
  | xs :: rest => spec_rows_trace (fun row => [ECall 0 row; EYield (f row)]) false xs rest
  end.
Definition spec_map (f : list val -> val) (xss : list (list val)) : list val :=
  map (fun j => f (column VNone j xss)) (seq 0 (min_len xss)).

(* ---------- compress: source 0 = data, source 1 = selectors ---------- *)
Fixpoint spec_compress_trace (data sels : list val) : list event :=
  match data, sels with
  | [], _ => [EPull 0; EEnd 0]
  | x :: _, [] => [EPull 0; EItem 0 x; EPull 1; EEnd 1]
  | x :: d, s :: r => [EPull 0; EItem 0 x; EPull 1; EItem 1 s]
                      ++ (if truthy s then [EYield x] else []) ++ spec_compress_trace d r
  end.
Definition spec_compress (data sels : list val) : list val :=
  map fst (filter (fun p => truthy (snd p)) (combine data sels)).

(* ---------- zip_longest ---------- *)
(* what row j does with source i: an item, the end, or nothing (exhausted in an earlier row) *)
Definition zl_cell (j i : nat) (l : list val) : list event :=
  match Nat.compare j (length l) with
  | Lt => [EPull i; EItem i (nth j l VNone)]
  | Eq => [EPull i; EEnd i]
  | Gt => []
  end.
Fixpoint zl_cells (j pos : nat) (xss : list (list val)) : list event :=
  match xss with
  | [] => []
  | l :: r => zl_cell j pos l ++ zl_cells j (S pos) r
  end.
(* [max_len] full rows, then the row in which the longest sources end *)
Definition spec_zip_longest_trace (xss : list (list val)) (fillv : val) : list event :=
  match xss with
  | [] => []
  | _ => flat_map (fun j => zl_cells j 0 xss ++ [EYield (VTup (column fillv j xss))]) (seq 0 (max_len xss))
         ++ zl_cells (max_len xss) 0 xss
  end.
Definition spec_zip_longest (xss : list (list val)) (fillv : val) : list val :=
  map (fun j => VTup (column fillv j xss)) (seq 0 (max_len xss)).

(* ---------- chain ---------- *)
Fixpoint spec_chain_trace_from (i : nat) (xss : list (list val)) : list event :=
  match xss with
  | [] => []
  | xs :: r => flat_map (fun x => [EPull i; EItem i x; EYield x]) xs ++ [EPull i; EEnd i]
               ++ spec_chain_trace_from (S i) r
  end.
Definition spec_chain_trace (xss : list (list val)) : list event := spec_chain_trace_from 0 xss.
Definition spec_chain (xss : list (list val)) : list val := concat xss.
