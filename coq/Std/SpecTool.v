(* The standard-library specification of every tool, indexed by [tool], and the comparison of a
   specification with a log observed on the real CPython function (evaluated by the harness with
   vm_compute): CPython ~ spec is checked, model = spec is proved in the Proofs directory. *)
From Coq Require Import List ZArith NArith Bool Arith.
Import ListNotations.
Require Import V.Kernel.Values V.Kernel.Monad V.Kernel.Fn V.Model.Tool.
Require Import V.Std.Filter V.Std.Builtins V.Std.Itertools1 V.Std.Multi V.Std.Heapq.

Definition hd_src (ss : list (list val)) : list val := match ss with xs :: _ => xs | [] => [] end.
Definition unit_out (o : outcome unit) : outcome val :=
  match o with Ok _ => Ok VNone | Exn e => Exn e | Fuel => Fuel end.

(* the event trace CPython's counterpart performs when consumed to exhaustion (None: not specified as a trace) *)
Definition spec_trace (t : tool) (ss : list (list val)) : option (list event) :=
  let xs := hd_src ss in
  match t with
  | TZip strict _ => Some (spec_zip_trace strict ss)
  | TMap f _ => Some (spec_map_trace (apply_fn f) ss)
  | TFilter f => Some (spec_filter_trace (ofn f) xs)
  | TEnumerate s => Some (spec_enumerate_trace s xs)
  | TAll => Some (spec_all_trace xs)
  | TAny => Some (spec_any_trace xs)
  | TMin k d => Some (spec_min_max_trace false (ofn k) xs)
  | TMax k d => Some (spec_min_max_trace true (ofn k) xs)
  | TAccumulate f i => Some (spec_accumulate_trace (ofn f) i xs)
  | TBatched n s => Some (spec_batched_trace n s xs)
  | TChain _ => Some (spec_chain_trace ss)
  | TCompress => Some (spec_compress_trace xs (hd_src (tl ss)))
  | TDropwhile f => Some (spec_dropwhile_trace (apply_fn f) xs)
  | TTakewhile f => Some (spec_takewhile_trace (apply_fn f) xs)
  | TFilterfalse f => Some (spec_filterfalse_trace (ofn f) xs)
  | TStarmap f => Some (spec_starmap_trace (apply_fn f) xs)
  | TIslice a b c => Some (spec_islice_trace a b c xs)
  | TPairwise => Some (spec_pairwise_trace xs)
  | TZipLongest _ v => Some (spec_zip_longest_trace ss v)
  | TMerge _ k r => Some (spec_merge_trace (ofn k) r ss)
  | TReduce f i => Some (spec_reduce_trace (apply_fn f) i xs)
  | _ => None
  end.

(* the value / ending of the counterpart (None: not specified) *)
Definition spec_value (t : tool) (ss : list (list val)) : option (outcome val) :=
  let xs := hd_src ss in
  match t with
  | TZip strict _ => Some (unit_out (spec_zip_end strict ss))
  | TAll => Some (spec_all xs)
  | TAny => Some (spec_any xs)
  | TMin k d => Some (spec_min_max false (ofn k) d xs)
  | TMax k d => Some (spec_min_max true (ofn k) d xs)
  | TSum s => Some (spec_sum s xs)
  | TList => Some (spec_list xs)
  | TTuple => Some (spec_tuple xs)
  | TSet => Some (spec_set xs)
  | TDict => Some (spec_dict xs)
  | TSorted k r => Some (spec_sorted (ofn k) r xs)
  | TBatched n s => Some (unit_out (spec_batched_end n s xs))
  | TStarmap _ => Some (unit_out (spec_starmap_end xs))
  | TNlargest n k => Some (Ok (VList (spec_largest n (ofn k) false xs)))
  | TNsmallest n k => Some (Ok (VList (spec_largest n (ofn k) true xs)))
  | TReduce f i => Some (spec_reduce (apply_fn f) i xs)
  | _ => None
  end.

Record std_case := mkStd { sc_tool : tool; sc_srcs : list (list val); sc_out : obs_out; sc_log : list event }.
Definition out_of (o : outcome val) : obs_out := match o with Ok v => OOk v | Exn e => OExn e | Fuel => OFuel end.
Definition std_ok (c : std_case) : bool :=
  (match spec_trace (sc_tool c) (sc_srcs c) with
   | Some tr => list_eqb event_eqb tr (sc_log c)
   | None => true
   end) &&
  (match spec_value (sc_tool c) (sc_srcs c) with
   | Some o => out_eqb (out_of o) (sc_out c)
   | None => true
   end).
Fixpoint std_failing_from (i : nat) (l : list std_case) : list nat :=
  match l with
  | [] => []
  | c :: r => if std_ok c then std_failing_from (S i) r else i :: std_failing_from (S i) r
  end.
Definition std_failing (l : list std_case) : list nat := std_failing_from 0 l.
