(* builtins.filter / itertools.filterfalse as CPython performs them *)
From Coq Require Import List ZArith Bool.
Import ListNotations.
Require Import V.Kernel.Values.

Definition keep (p : option (list val -> val)) (x : val) : bool :=
  match p with None => truthy x | Some f => truthy (f [x]) end.
Definition spec_filter (p : option (list val -> val)) (xs : list val) : list val := filter (keep p) xs.
Fixpoint spec_filter_trace (p : option (list val -> val)) (xs : list val) : list event :=
  match xs with
  | [] => [EPull 0; EEnd 0]
  | x :: r => [EPull 0; EItem 0 x]
              ++ (match p with None => [] | Some _ => [ECall 0 [x]] end)
              ++ (if keep p x then [EYield x] else [])
              ++ spec_filter_trace p r
  end.
