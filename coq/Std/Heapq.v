(* heapq.nlargest / heapq.nsmallest / heapq.merge as CPython documents and performs them,
   on inputs whose compared keys are mutually orderable. *)
From Coq Require Import List ZArith NArith Bool Arith.
Import ListNotations.
Require Import V.Kernel.Values.

(* the value that is compared for item x *)
Definition kv (key : option (list val -> val)) (x : val) : val :=
  match key with None => x | Some f => f [x] end.

(* orderable inputs: every compared value is an int (c = None), or every compared value is a user
   object of the one comparison class k (c = Some k).  Under it [<] never raises and [==] agrees
   with "neither <"; both are decided by [key_of]. *)
Definition in_class (c : option N) (v : val) : bool :=
  match c, v with
  | None, VInt _ => true
  | Some k, VObj _ _ k' => N.eqb k k'
  | _, _ => false
  end.
Definition orderable (c : option N) (key : option (list val -> val)) (xs : list val) : bool :=
  forallb (in_class c) (map (kv key) xs).
Definition zkey (key : option (list val -> val)) (x : val) : Z := key_of (kv key x).

(* ---------- nlargest / nsmallest ---------- *)
(* stable insertion sort, folding from the right: [x] is older than everything in [l], so it goes
   in front of the first element that is not strictly before it (hence in front of its equals) *)
Fixpoint ins_first (bef : val -> val -> bool) (x : val) (l : list val) : list val :=
  match l with
  | [] => [x]
  | y :: r => if bef y x then y :: ins_first bef x r else x :: y :: r
  end.
Definition stable_sort (bef : val -> val -> bool) (xs : list val) : list val :=
  fold_right (ins_first bef) [] xs.
(* [a] comes strictly before [b] in sorted(xs, key=key, reverse=not smallest) *)
Definition sorts_before (smallest : bool) (key : option (list val -> val)) (a b : val) : bool :=
  if smallest then Z.ltb (zkey key a) (zkey key b) else Z.ltb (zkey key b) (zkey key a).
(* reverse = false: nlargest = sorted(xs, key=key, reverse=True)[:n]
   reverse = true : nsmallest = sorted(xs, key=key)[:n]          (equal keys: earlier item first) *)
Definition spec_largest (n : Z) (key : option (list val -> val)) (reverse : bool) (xs : list val) : list val :=
  firstn (Z.to_nat n) (stable_sort (sorts_before reverse key) xs).

(* ---------- merge ---------- *)
(* [a] is taken strictly before [b] *)
Definition merge_first (rev : bool) (key : option (list val -> val)) (a b : val) : bool :=
  if rev then Z.ltb (zkey key b) (zkey key a) else Z.ltb (zkey key a) (zkey key b).
(* scanning the heads left to right: a later head wins only if it is strictly first (ties: lowest index) *)
Fixpoint best_from (first : val -> val -> bool) (best : nat * val) (i : nat) (ls : list (list val)) : nat * val :=
  match ls with
  | [] => best
  | [] :: r => best_from first best (S i) r
  | (x :: _) :: r => best_from first (if first x (snd best) then (i, x) else best) (S i) r
  end.
Fixpoint best_src (first : val -> val -> bool) (i : nat) (ls : list (list val)) : option (nat * val) :=
  match ls with
  | [] => None
  | [] :: r => best_src first (S i) r
  | (x :: _) :: r => Some (best_from first (i, x) (S i) r)
  end.
(* remove the head of list number i *)
Fixpoint pop (i : nat) (ls : list (list val)) : list (list val) :=
  match ls, i with
  | [], _ => []
  | l :: r, 0 => tl l :: r
  | l :: r, S i' => l :: pop i' r
  end.
Fixpoint merge_fuel (fuel : nat) (first : val -> val -> bool) (ls : list (list val)) : list val :=
  match fuel with
  | 0 => []
  | S f => match best_src first 0 ls with
           | None => []
           | Some (i, x) => x :: merge_fuel f first (pop i ls)
           end
  end.
Definition spec_merge (key : option (list val -> val)) (rev : bool) (ls : list (list val)) : list val :=
  merge_fuel (length (concat ls)) (merge_first rev key) ls.

(* the trace: first one head per source (key applied to each), then after every yield the source
   of the yielded item is polled again (key applied to the new head); when a single source is
   left it is drained without any further key call *)
Definition key_call (key : option (list val -> val)) (x : val) : list event :=
  match key with None => [] | Some _ => [ECall 0 [x]] end.
Fixpoint heads_trace (key : option (list val -> val)) (i : nat) (ls : list (list val)) : list event :=
  match ls with
  | [] => []
  | l :: r => EPull i :: match l with [] => [EEnd i] | x :: _ => EItem i x :: key_call key x end
              ++ heads_trace key (S i) r
  end.
Definition live (ls : list (list val)) : nat :=
  length (filter (fun l => match l with [] => false | _ => true end) ls).
Definition drain_trace (i : nat) (l : list val) : list event :=
  flat_map (fun y => [EPull i; EItem i y; EYield y]) l ++ [EPull i; EEnd i].
Fixpoint merge_loop_trace (fuel : nat) (key : option (list val -> val)) (first : val -> val -> bool)
  (ls : list (list val)) : list event :=
  match fuel with
  | 0 => []
  | S f => match best_src first 0 ls with
           | None => []
           | Some (i, x) =>
               if Nat.eqb (live ls) 1 then EYield x :: drain_trace i (tl (nth i ls []))
               else EYield x :: EPull i ::
                    match tl (nth i ls []) with [] => [EEnd i] | h :: _ => EItem i h :: key_call key h end
                    ++ merge_loop_trace f key first (pop i ls)
           end
  end.
Definition spec_merge_trace (key : option (list val -> val)) (rev : bool) (ls : list (list val)) : list event :=
  heads_trace key 0 ls ++ merge_loop_trace (length (concat ls)) key (merge_first rev key) ls.
