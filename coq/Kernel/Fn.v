(* A small language of deterministic user callables, shared with the Python harness
   (harness/fnlang.py).  Theorems quantify over arbitrary Gallina functions
   [list val -> val]; this language only supplies the instances used by the
   correspondence check. *)
From Coq Require Import List ZArith NArith Bool.
Import ListNotations.
Require Import V.Kernel.Values.

Inductive fn :=
| FTruthMod (m r : Z)     (* [x] |-> bool(key x mod m == r) *)
| FIdent                  (* [x] |-> x *)
| FKeyDiv (d : Z)         (* [x] |-> int(key x // d) : a key function producing ties *)
| FNegKey                 (* [x] |-> int(- key x) *)
| FSum                    (* args |-> int(sum of keys) *)
| FTuple                  (* args |-> tuple(args) *)
| FNth (n : nat)          (* args |-> args[n] (an argument itself: identity preserved) *)
| FMaxKey                 (* args |-> the first argument of maximal key *)
| FConst (v : val)
| FNoneIfMod (m r : Z).   (* [x] |-> None if key x mod m == r else int(key x) *)

Fixpoint first_max (best : val) (l : list val) : val :=
  match l with
  | [] => best
  | x :: r => if Z.ltb (key_of best) (key_of x) then first_max x r else first_max best r
  end.

Definition apply_fn (f : fn) (args : list val) : val :=
  match f with
  | FTruthMod m r => match args with [x] => VBool (Z.eqb (Z.modulo (key_of x) m) r) | _ => VNone end
  | FIdent => match args with [x] => x | _ => VNone end
  | FKeyDiv d => match args with [x] => VInt (Z.div (key_of x) d) | _ => VNone end
  | FNegKey => match args with [x] => VInt (- key_of x) | _ => VNone end
  | FSum => VInt (fold_left (fun a v => (a + key_of v)%Z) args 0%Z)
  | FTuple => VTup args
  | FNth n => nth n args VNone
  | FMaxKey => match args with [] => VNone | x :: r => first_max x r end
  | FConst v => v
  | FNoneIfMod m r => match args with [x] => if Z.eqb (Z.modulo (key_of x) m) r then VNone else VInt (key_of x) | _ => VNone end
  end.
