(* The generator calculus: world, state+error monad, primitive uses, combinators.
   Definitions only (no proofs) so that the model still runs when a proof breaks. *)
From Coq Require Import List ZArith NArith Bool Arith.
Import ListNotations.
Require Import V.Kernel.Values.

Record src := mkSrc {
  s_items : list val;     (* items not yet delivered *)
  s_exh : bool;           (* has signalled StopAsyncIteration because it ran out *)
  s_closing : nat;        (* number of times aclose was invoked *)
  s_closed : nat;         (* number of times aclose completed *)
  s_acl : bool            (* has an aclose method at all *)
}.
Definition dead_src := mkSrc [] true 0 0 false.

Record world := mkW {
  srcs : list src;
  log : list event;                 (* newest first *)
  pending : option (nat * exn);     (* (k, e): the use after k more uses raises e, once *)
  nuse : nat                        (* uses performed so far *)
}.

Inductive outcome (A : Type) := Ok (a : A) | Exn (e : exn) | Fuel.
Arguments Ok {A}. Arguments Exn {A}. Arguments Fuel {A}.

Definition M A := world -> outcome A * world.
Definition ret {A} (a : A) : M A := fun w => (Ok a, w).
Definition raise {A} (e : exn) : M A := fun w => (Exn e, w).
Definition out_of_fuel {A} : M A := fun w => (Fuel, w).
Definition bind {A B} (m : M A) (f : A -> M B) : M B :=
  fun w => match m w with
           | (Ok a, w') => f a w'
           | (Exn e, w') => (Exn e, w')
           | (Fuel, w') => (Fuel, w')
           end.
Notation "x <- m ;; k" := (bind m (fun x => k)) (at level 61, m at next level, right associativity).
Notation "m ;;; k" := (bind m (fun _ => k)) (at level 61, right associativity).

Definition set_log (w : world) l := mkW (srcs w) l (pending w) (nuse w).
Definition set_srcs (w : world) s := mkW s (log w) (pending w) (nuse w).

Definition emit (e : event) : M unit := fun w => (Ok tt, set_log w (e :: log w)).

(* a "use": a point where user code runs (and, in the implementation, may suspend, fail or be cancelled) *)
Definition use : M unit := fun w =>
  match pending w with
  | Some (0, e) => (Exn e, mkW (srcs w) (log w) None (S (nuse w)))
  | Some (S n, e) => (Ok tt, mkW (srcs w) (log w) (Some (n, e)) (S (nuse w)))
  | None => (Ok tt, mkW (srcs w) (log w) None (S (nuse w)))
  end.

Fixpoint upd {A} (i : nat) (x : A) (l : list A) : list A :=
  match l, i with
  | [], _ => []
  | _ :: t, 0 => x :: t
  | h :: t, S i' => h :: upd i' x t
  end.
Definition get_src (i : nat) : M src := fun w => (Ok (nth i (srcs w) dead_src), w).
Definition set_src (i : nat) (s : src) : M unit := fun w => (Ok tt, set_srcs w (upd i s (srcs w))).

(* __anext__ of source i: Some item, or None for StopAsyncIteration *)
Definition pull (i : nat) : M (option val) :=
  emit (EPull i) ;;; use ;;;
  s <- get_src i ;;
  if (Nat.ltb 0 (s_closed s)) || s_exh s then emit (EEnd i) ;;; ret None
  else match s_items s with
       | [] => set_src i (mkSrc [] true (s_closing s) (s_closed s) (s_acl s)) ;;; emit (EEnd i) ;;; ret None
       | x :: xs => set_src i (mkSrc xs false (s_closing s) (s_closed s) (s_acl s)) ;;; emit (EItem i x) ;;; ret (Some x)
       end.

(* looking up and awaiting aclose of source i; sources without aclose are skipped (AttributeError caught) *)
Definition close (i : nat) : M unit :=
  s <- get_src i ;;
  if s_acl s then
    emit (EClose i) ;;;
    set_src i (mkSrc (s_items s) (s_exh s) (S (s_closing s)) (s_closed s) true) ;;;
    use ;;;
    set_src i (mkSrc (s_items s) (s_exh s) (S (s_closing s)) (S (s_closed s)) true)
  else ret tt.

(* user callable number f, semantics impl *)
Definition call (f : nat) (impl : list val -> val) (args : list val) : M val :=
  emit (ECall f args) ;;; use ;;; ret (impl args).

(* try: m finally: fin  -- an exception of fin replaces the outcome of m *)
Definition finally {A} (m : M A) (fin : M unit) : M A := fun w =>
  match m w with
  | (Fuel, w') => (Fuel, w')
  | (o, w') => match fin w' with
               | (Ok _, w'') => (o, w'')
               | (Exn e, w'') => (Exn e, w'')
               | (Fuel, w'') => (Fuel, w'')
               end
  end.
(* async with ScopedIter(source i): body *)
Definition scoped {A} (i : nat) (body : M A) : M A := finally body (close i).
(* _core.close_all: close every iterator, still closing the rest when one aclose raises *)
Fixpoint close_all (l : list nat) : M unit :=
  match l with
  | [] => ret tt
  | i :: r => finally (close i) (close_all r)
  end.

(* a generator is its body, abstracted over what its [yield] does *)
Definition gen := (val -> M unit) -> M unit.
(* the consumer: receives the item, then resumes (a use: it may instead close, throw or be cancelled) *)
Definition yield_to : val -> M unit := fun v => emit (EYield v) ;;; use.
Definition run_gen (g : gen) : M unit := g yield_to.

(* async for x in source i: body x.  Fuel: one more than the items left at loop entry. *)
Fixpoint for_each_fuel (n : nat) (i : nat) (body : val -> M unit) : M unit :=
  match n with
  | 0 => out_of_fuel
  | S n' => o <- pull i ;;
            match o with
            | None => ret tt
            | Some x => body x ;;; for_each_fuel n' i body
            end
  end.
Definition items_left (i : nat) (w : world) : nat := length (s_items (nth i (srcs w) dead_src)).
Definition for_each (i : nat) (body : val -> M unit) : M unit := fun w =>
  for_each_fuel (S (items_left i w)) i body w.

(* loops with break: the body says whether to continue *)
Fixpoint for_each_brk_fuel (n : nat) (i : nat) (body : val -> M bool) : M bool :=
  match n with
  | 0 => out_of_fuel
  | S n' => o <- pull i ;;
            match o with
            | None => ret false                      (* exhausted: for-else branch *)
            | Some x => c <- body x ;; if c then for_each_brk_fuel n' i body else ret true  (* true = left by break *)
            end
  end.
Definition for_each_brk (i : nat) (body : val -> M bool) : M bool := fun w =>
  for_each_brk_fuel (S (items_left i w)) i body w.

(* while True loops: every iteration consumes an item or ends the loop, so
   one more than all remaining items is enough fuel *)
Definition total_left (w : world) : nat := fold_right (fun s a => length (s_items s) + a) 0 (srcs w).
Definition with_fuel {A} (f : nat -> M A) : M A := fun w => f (S (total_left w)) w.

Fixpoint mapM {A B} (f : A -> M B) (l : list A) : M (list B) :=
  match l with
  | [] => ret []
  | x :: r => y <- f x ;; ys <- mapM f r ;; ret (y :: ys)
  end.

(* initial worlds *)
Definition fresh_src (acl : bool) (l : list val) := mkSrc l false 0 0 acl.
Definition init_world (ss : list (list val)) (flt : option (nat * exn)) : world :=
  mkW (map (fresh_src true) ss) [] flt 0.

(* a source is released: ran to exhaustion or aclose was invoked on it (or it cannot be closed) *)
Definition released (s : src) : bool := s_exh s || Nat.ltb 0 (s_closing s) || negb (s_acl s).
Definition all_released (w : world) : bool := forallb released (srcs w).
