(* Values, Python-level equality / ordering / truthiness, exceptions, events. *)
From Coq Require Import List ZArith NArith Bool.
Import ListNotations.

Inductive val :=
| VObj (id : N) (key : Z) (cls : N)   (* a user item: identity, ordering key, comparison class *)
| VInt (z : Z) | VBool (b : bool) | VNone | VFill
| VTup (l : list val) | VList (l : list val).

Fixpoint val_eqb (a b : val) {struct a} : bool :=
  let fix list_eqb (l1 l2 : list val) {struct l1} : bool :=
    match l1, l2 with
    | [], [] => true
    | x :: l1', y :: l2' => val_eqb x y && list_eqb l1' l2'
    | _, _ => false
    end in
  match a, b with
  | VObj i k c, VObj i' k' c' => N.eqb i i' && Z.eqb k k' && N.eqb c c'
  | VInt z, VInt z' => Z.eqb z z'
  | VBool x, VBool y => Bool.eqb x y
  | VNone, VNone => true
  | VFill, VFill => true
  | VTup l, VTup l' => list_eqb l l'
  | VList l, VList l' => list_eqb l l'
  | _, _ => false
  end.

Fixpoint list_eqb {A} (eqb : A -> A -> bool) (l1 l2 : list A) : bool :=
  match l1, l2 with
  | [], [] => true
  | x :: l1', y :: l2' => eqb x y && list_eqb eqb l1' l2'
  | _, _ => false
  end.

(* numeric view used by the callable language and by truthiness *)
Definition key_of (v : val) : Z :=
  match v with
  | VObj _ k _ => k | VInt z => z | VBool true => 1%Z | _ => 0%Z
  end.

Definition truthy (v : val) : bool :=
  match v with
  | VObj _ k _ => negb (Z.eqb k 0)
  | VInt z => negb (Z.eqb z 0)
  | VBool b => b
  | VNone => false
  | VFill => true
  | VTup l | VList l => match l with [] => false | _ => true end
  end.

(* Python [==] on the item domain (never raises): objects of one class compare by key *)
Fixpoint py_eq (a b : val) {struct a} : bool :=
  let fix list_eq (l1 l2 : list val) {struct l1} : bool :=
    match l1, l2 with
    | [], [] => true
    | x :: l1', y :: l2' => py_eq x y && list_eq l1' l2'
    | _, _ => false
    end in
  match a, b with
  | VObj _ k c, VObj _ k' c' => N.eqb c c' && Z.eqb k k'
  | VInt z, VInt z' => Z.eqb z z'
  | VInt z, VBool b | VBool b, VInt z => Z.eqb z (if b then 1 else 0)
  | VBool x, VBool y => Bool.eqb x y
  | VNone, VNone => true
  | VFill, VFill => true
  | VTup l, VTup l' => list_eq l l'
  | VList l, VList l' => list_eq l l'
  | _, _ => false
  end.

(* Python [<] : None = TypeError (unorderable mix) *)
Definition py_lt (a b : val) : option bool :=
  match a, b with
  | VObj _ k c, VObj _ k' c' => if N.eqb c c' then Some (Z.ltb k k') else None
  | VInt z, VInt z' => Some (Z.ltb z z')
  | _, _ => None
  end.

(* hashability: lists are unhashable, tuples are iff their elements are *)
Fixpoint hashable (v : val) : bool :=
  match v with
  | VList _ => false
  | VTup l => (fix all (l : list val) := match l with [] => true | x :: l' => hashable x && all l' end) l
  | _ => true
  end.

Inductive exn :=
| XInj (id : N) (base : bool)      (* an injected user exception object; base = derives from BaseException only *)
| XGenExit                         (* the consumer closed the iterator at a yield *)
| XTypeError | XValueError | XRuntimeError | XStopAsync | XAttributeError | XKeyError.

Definition exn_eqb (a b : exn) : bool :=
  match a, b with
  | XInj i b1, XInj j b2 => N.eqb i j && Bool.eqb b1 b2
  | XGenExit, XGenExit | XTypeError, XTypeError | XValueError, XValueError
  | XRuntimeError, XRuntimeError | XStopAsync, XStopAsync | XAttributeError, XAttributeError
  | XKeyError, XKeyError => true
  | _, _ => false
  end.

Inductive event :=
| EPull (s : nat) | EItem (s : nat) (v : val) | EEnd (s : nat)   (* __anext__ called / returned v / raised StopAsyncIteration *)
| EClose (s : nat)                                                (* aclose called on source s *)
| ECall (f : nat) (args : list val)                               (* user callable f invoked *)
| EYield (v : val).                                               (* item delivered to the consumer *)

Definition event_eqb (a b : event) : bool :=
  match a, b with
  | EPull s, EPull s' | EEnd s, EEnd s' | EClose s, EClose s' => Nat.eqb s s'
  | EItem s v, EItem s' v' => Nat.eqb s s' && val_eqb v v'
  | ECall f a, ECall f' a' => Nat.eqb f f' && list_eqb val_eqb a a'
  | EYield v, EYield v' => val_eqb v v'
  | _, _ => false
  end.

Definition is_close (e : event) : bool := match e with EClose _ => true | _ => false end.
Definition no_closes (l : list event) : list event := filter (fun e => negb (is_close e)) l.
Definition yields (l : list event) : list val :=
  flat_map (fun e => match e with EYield v => [v] | _ => [] end) l.
