(* batched.  KNOWN DEVIATION (proved below): after a final partial batch CPython's batched asks the
   exhausted source once more ([EPull 0; EEnd 0]); the model (= asyncstdlib) does not. *)
From Coq Require Import List ZArith NArith Bool Arith Lia.
Import ListNotations.
Require Import V.Kernel.Values V.Kernel.Monad V.Model.Builtins V.Model.Itertools.
Require Import V.Proofs.Steps V.Proofs.ItSteps V.Std.Filter V.Std.Itertools1.

(* what the model does: as [batched_go], but nothing after the final partial batch *)
Fixpoint batched_model (n : nat) (strict : bool) (acc : list val) (xs : list val) : list event :=
  match xs with
  | [] => [EPull 0; EEnd 0]
          ++ (match acc with
              | [] => []
              | _ => if strict then [] else [EYield (VTup acc)]
              end)
  | x :: r => [EPull 0; EItem 0 x]
              ++ (if Nat.eqb (length (acc ++ [x])) n
                  then EYield (VTup (acc ++ [x])) :: batched_model n strict [] r
                  else batched_model n strict (acc ++ [x]) r)
  end.
(* does the input end inside a batch? *)
Fixpoint ends_partial (n : nat) (acc : list val) (xs : list val) : bool :=
  match xs with
  | [] => match acc with [] => false | _ => true end
  | x :: r => if Nat.eqb (length (acc ++ [x])) n then ends_partial n [] r else ends_partial n (acc ++ [x]) r
  end.

Lemma ends_partial_mod n : forall xs acc, length acc < n ->
  ends_partial n acc xs = negb (Nat.eqb ((length acc + length xs) mod n) 0).
Proof.
  induction xs as [|x xs IH]; intros acc Hacc.
  - cbn [ends_partial length]. rewrite Nat.add_0_r, Nat.mod_small by exact Hacc.
    destruct acc; reflexivity.
  - cbn [ends_partial]. rewrite app_length. cbn [length].
    destruct (Nat.eqb_spec (length acc + 1) n) as [He|Hne].
    + rewrite IH by (cbn [length]; lia). cbn [length]. f_equal. f_equal.
      replace (length acc + S (length xs)) with (length xs + 1 * n) by lia.
      rewrite Nat.mod_add by lia. reflexivity.
    + rewrite IH by (rewrite app_length; cbn [length]; lia). rewrite app_length. cbn [length].
      f_equal. f_equal. f_equal. lia.
Qed.

Lemma go_model n strict : forall xs acc,
  batched_go n strict acc xs
  = batched_model n strict acc xs ++ (if negb strict && ends_partial n acc xs then [EPull 0; EEnd 0] else []).
Proof.
  induction xs as [|x xs IH]; intros acc.
  - cbn [batched_go batched_model ends_partial]. destruct acc; destruct strict; reflexivity.
  - cbn [batched_go batched_model ends_partial]. destruct (Nat.eqb (length (acc ++ [x])) n); rewrite IH; reflexivity.
Qed.

Lemma batched_model_nc n strict : forall xs acc, nc (batched_model n strict acc xs) = true.
Proof.
  induction xs as [|x xs IH]; intros acc; cbn [batched_model].
  - destruct acc; destruct strict; reflexivity.
  - destruct (Nat.eqb (length (acc ++ [x])) n); cbn; apply IH.
Qed.

(* ---- the loop of the model ---- *)
Lemma batched_fill n strict : forall xs k acc f lg u, 1 <= k -> length acc + k = n -> length xs <= f ->
  exists l e u',
    bind (fill_batch k acc)
         (fun r => if snd r then yield_to (VTup (fst r)) ;;; batched_loop f n strict yield_to
                   else match fst r with
                        | [] => ret tt
                        | b => if strict && Nat.ltb (length b) n then raise XValueError else yield_to (VTup b)
                        end) (W1 xs lg u)
    = (if strict && ends_partial n acc xs then Exn XValueError else Ok tt,
       WS l e (rev (batched_model n strict acc xs) ++ lg) u').
Proof.
  induction xs as [|x xs IH]; intros k acc f lg u Hk Hn Hf; destruct k as [|k]; try lia.
  - cbn [fill_batch]. mstep'. cbn [snd fst batched_model ends_partial].
    destruct acc as [|a t].
    + exists [], true, (S u). rewrite andb_false_r. reflexivity.
    + replace (length (a :: t) <? n) with true by (symmetry; apply Nat.ltb_lt; lia).
      rewrite andb_true_r. destruct strict.
      * exists [], true, (S u). reflexivity.
      * exists [], true, (S (S u)). unfold WS. rewrite yieldE_ok. reflexivity.
  - cbn [fill_batch]. mstep'. cbn [batched_model ends_partial]. rewrite app_length. cbn [length].
    destruct k as [|k].
    + (* the batch is full *)
      replace (length acc + 1 =? n) with true by (symmetry; apply Nat.eqb_eq; lia).
      cbn [fill_batch]. mstep'. cbn [snd fst]. mstep'.
      destruct f as [|f]; [simpl in Hf; lia|]. cbn [batched_loop].
      destruct (IH n [] f (EYield (VTup (acc ++ [x])) :: EItem 0 x :: EPull 0 :: lg) (S (S u)))
        as [l [e [u' H]]]; [lia|reflexivity|simpl in Hf; lia|].
      exists l, e, u'. etransitivity; [exact H|]. f_equal. f_equal. logeq.
    + replace (length acc + 1 =? n) with false by (symmetry; apply Nat.eqb_neq; lia).
      destruct (IH (S k) (acc ++ [x]) f (EItem 0 x :: EPull 0 :: lg) (S u))
        as [l [e [u' H]]]; [lia|rewrite app_length; cbn [length]; lia|simpl in Hf; lia|].
      exists l, e, u'. etransitivity; [exact H|]. f_equal. f_equal. logeq.
Qed.

Definition batched_missing (n : Z) (strict : bool) (xs : list val) : list event :=
  if negb strict && negb (Nat.eqb (length xs mod Z.to_nat n) 0) then [EPull 0; EEnd 0] else [].

Lemma batched_run : forall n strict xs, (1 <=? n)%Z = true ->
  let '(o, w) := run_gen (a_batched n strict) (init_world [xs] None) in
  o = spec_batched_end n strict xs
  /\ no_closes (rev (log w)) = batched_model (Z.to_nat n) strict [] xs
  /\ all_released w = true.
Proof.
  intros n strict xs Hn. apply Z.leb_le in Hn. unfold run_gen, a_batched.
  replace (n <? 1)%Z with false by (symmetry; apply Z.ltb_ge; lia).
  assert (Hn' : 1 <= Z.to_nat n) by lia.
  destruct (batched_fill (Z.to_nat n) strict xs (Z.to_nat n) [] (length xs) [] 0 Hn' eq_refl (le_n _))
    as [l [e [u' H]]].
  rewrite app_nil_r in H.
  assert (Hend : (if strict && ends_partial (Z.to_nat n) [] xs then Exn XValueError else Ok tt)
                 = spec_batched_end n strict xs).
  { unfold spec_batched_end. rewrite ends_partial_mod by (cbn [length]; lia). reflexivity. }
  rewrite Hend in H.
  apply (finish_scoped _ xs _ l e _ u').
  - unfold with_fuel. rewrite total_left1. cbn [batched_loop]. exact H.
  - unfold spec_batched_end. destruct (strict && negb (length xs mod Z.to_nat n =? 0)); discriminate.
  - apply batched_model_nc.
Qed.

(* the strongest true statement: CPython's trace = the model's trace followed by the one extra poll
   exactly when the input ends inside a batch and strict is off *)
Theorem batched_trace_partial : forall n strict xs, (1 <=? n)%Z = true ->
  let '(o, w) := run_gen (a_batched n strict) (init_world [xs] None) in
  o = spec_batched_end n strict xs
  /\ no_closes (rev (log w)) ++ batched_missing n strict xs = spec_batched_trace n strict xs
  /\ all_released w = true.
Proof.
  intros n strict xs Hn. pose proof (batched_run n strict xs Hn) as H.
  destruct (run_gen (a_batched n strict) (init_world [xs] None)) as [o w].
  destruct H as [Ho [Hl Hr]]. split; [exact Ho|]. split; [|exact Hr].
  apply Z.leb_le in Hn.
  rewrite Hl. unfold spec_batched_trace, batched_missing. rewrite go_model.
  rewrite ends_partial_mod by (cbn [length]; lia). reflexivity.
Qed.

(* hence equality whenever strict is on or n divides the length *)
Corollary batched_trace_exact : forall n strict xs, (1 <=? n)%Z = true ->
  strict || Nat.eqb (length xs mod Z.to_nat n) 0 = true ->
  let '(o, w) := run_gen (a_batched n strict) (init_world [xs] None) in
  o = spec_batched_end n strict xs
  /\ no_closes (rev (log w)) = spec_batched_trace n strict xs
  /\ all_released w = true.
Proof.
  intros n strict xs Hn Hc. pose proof (batched_trace_partial n strict xs Hn) as H.
  destruct (run_gen (a_batched n strict) (init_world [xs] None)) as [o w].
  destruct H as [Ho [Hl Hr]]. split; [exact Ho|]. split; [|exact Hr].
  rewrite <- Hl. unfold batched_missing.
  replace (negb strict && negb (Nat.eqb (length xs mod Z.to_nat n) 0)) with false.
  - rewrite app_nil_r. reflexivity.
  - destruct strict; [reflexivity|]. cbn [orb] in Hc. rewrite Hc. reflexivity.
Qed.

(* the full statement is false for the model *)
Theorem batched_trace_refuted : exists n strict xs, (1 <=? n)%Z = true /\
  let '(o, w) := run_gen (a_batched n strict) (init_world [xs] None) in
  no_closes (rev (log w)) <> spec_batched_trace n strict xs.
Proof. exists 2%Z, false, [VInt 1]. split; [reflexivity|]. vm_compute. discriminate. Qed.

Example batched_domain_ex : (1 <=? 3)%Z = true. Proof. reflexivity. Qed.
Example batched_spec_ex :
  spec_batched_trace 2 false [VInt 1; VInt 2; VInt 3]
  = [EPull 0; EItem 0 (VInt 1); EPull 0; EItem 0 (VInt 2); EYield (VTup [VInt 1; VInt 2]);
     EPull 0; EItem 0 (VInt 3); EPull 0; EEnd 0; EYield (VTup [VInt 3]); EPull 0; EEnd 0].
Proof. reflexivity. Qed.

(* ---- yielded items ---- *)
Lemma chunks_fuel n : 1 <= n -> forall f f' xs, length xs <= f -> length xs <= f' -> chunks f n xs = chunks f' n xs.
Proof.
  intros Hn. induction f as [|f IH]; intros f' xs Hf Hf'.
  - destruct xs; [|simpl in Hf; lia]. destruct f'; reflexivity.
  - destruct xs as [|x r]; [destruct f'; reflexivity|].
    destruct f' as [|f']; [simpl in Hf'; lia|]. cbn [chunks]. f_equal.
    assert (Hs : length (skipn n (x :: r)) <= length r) by (rewrite skipn_length; cbn [length]; lia).
    apply IH; simpl in Hf, Hf'; lia.
Qed.
Lemma firstn_exact {A} (l1 l2 : list A) : firstn (length l1) (l1 ++ l2) = l1.
Proof. induction l1 as [|a l1 IH]; [destruct l2; reflexivity|]. cbn. rewrite IH. reflexivity. Qed.
Lemma skipn_exact {A} (l1 l2 : list A) : skipn (length l1) (l1 ++ l2) = l2.
Proof. induction l1 as [|a l1 IH]; [reflexivity|]. cbn. exact IH. Qed.
Lemma chunks_cons f n a (l : list val) : chunks (S f) n (a :: l) = firstn n (a :: l) :: chunks f n (skipn n (a :: l)).
Proof. reflexivity. Qed.

Lemma batched_go_yields n strict : 1 <= n -> forall xs acc, length acc < n ->
  yields (batched_go n strict acc xs)
  = map VTup (filter (batch_ok n strict) (chunks (length (acc ++ xs)) n (acc ++ xs))).
Proof.
  intros Hn. induction xs as [|x xs IH]; intros acc Hacc.
  - rewrite app_nil_r. cbn [batched_go]. destruct acc as [|a t]; [reflexivity|].
    cbn [length]. rewrite chunks_cons.
    rewrite firstn_all2 by lia. rewrite skipn_all2 by lia.
    replace (chunks (length t) n []) with (@nil (list val)) by (destruct (length t); reflexivity).
    cbn [filter]. unfold batch_ok at 1.
    replace (length (a :: t) =? n) with false by (symmetry; apply Nat.eqb_neq; lia).
    rewrite orb_false_r. destruct strict; reflexivity.
  - cbn [batched_go]. change (x :: xs) with ([x] ++ xs). rewrite (app_assoc acc [x] xs).
    destruct (Nat.eqb_spec (length (acc ++ [x])) n) as [He|Hne].
    + yields_step. rewrite (IH [] ltac:(cbn [length]; lia)). cbn [app].
      remember (acc ++ [x]) as b eqn:Hb.
      destruct b as [|b0 b']; [cbn [length] in He; lia|].
      rewrite app_length. cbn [length plus app]. rewrite chunks_cons.
      change (b0 :: b' ++ xs) with ((b0 :: b') ++ xs). rewrite <- He.
      rewrite firstn_exact, skipn_exact. cbn [filter].
      replace (batch_ok (length (b0 :: b')) strict (b0 :: b')) with true
        by (unfold batch_ok; rewrite Nat.eqb_refl, orb_true_r; reflexivity).
      cbn [map]. f_equal. f_equal. f_equal.
      apply chunks_fuel; [rewrite He; exact Hn|lia|lia].
    + apply IH. rewrite app_length in *. cbn [length] in *. lia.
Qed.

Corollary batched_yields : forall n strict xs, (1 <=? n)%Z = true ->
  yields (spec_batched_trace n strict xs) = spec_batched n strict xs.
Proof.
  intros n strict xs Hn. apply Z.leb_le in Hn. unfold spec_batched_trace, spec_batched.
  apply (batched_go_yields (Z.to_nat n) strict ltac:(lia) xs []). cbn [length]. lia.
Qed.

Print Assumptions batched_trace_partial.
Print Assumptions batched_trace_exact.
Print Assumptions batched_trace_refuted.
Print Assumptions batched_yields.
