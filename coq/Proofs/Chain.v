(* itertools.chain over n sources (any n). *)
From Coq Require Import List ZArith NArith Bool Arith Lia.
Import ListNotations.
Require Import V.Kernel.Values V.Kernel.Monad V.Model.Builtins V.Model.Itertools V.Proofs.Steps V.Std.Multi
               V.Proofs.MultiSteps.

Lemma chain_yield_ok owned v ss lg u :
  chain_yield owned v (W ss lg u) = (Ok tt, W ss (EYield v :: lg) (S u)).
Proof. reflexivity. Qed.

Lemma iter_src_S {St} f i (body : St -> val -> M (St * bool)) s :
  iter_src (S f) i body s
  = (o <- pull i ;; match o with
                    | None => ret (s, false)
                    | Some x => r <- body s x ;; if snd r then iter_src f i body (fst r) else ret (fst r, true)
                    end).
Proof. reflexivity. Qed.

(* the events of consuming one source completely *)
Definition one_trace (i : nat) (xs : list val) : list event :=
  flat_map (fun x => [EPull i; EItem i x; EYield x]) xs ++ [EPull i; EEnd i].

Lemma chain_iter owned : forall xs pre post p n lg u, length pre = p -> length xs < n -> exists u',
  iter_src n p (fun (_ : unit) x => chain_yield owned x ;;; ret (tt, true)) tt (W (pre ++ fs xs :: post) lg u)
  = (Ok (tt, false), W (pre ++ es :: post) (rev (one_trace p xs) ++ lg) u').
Proof.
  induction xs as [|x xs IH]; intros pre post p n lg u Hp Hn; destruct n as [|n]; try (simpl in Hn; lia).
  - exists (S u). rewrite iter_src_S. erewrite bind_ok by (apply pull_mid_end; exact Hp). reflexivity.
  - assert (Hlen : length xs < n) by (simpl in Hn; lia).
    rewrite iter_src_S. erewrite bind_ok by (apply pull_mid_item; exact Hp). cbv beta iota.
    rewrite bind_assoc. erewrite bind_ok by apply chain_yield_ok. rewrite bind_ret. cbn [snd fst].
    destruct (IH pre post p n (EYield x :: EItem p x :: EPull p :: lg) (S (S u)) Hp Hlen) as [u' ->].
    exists u'. f_equal. f_equal. unfold one_trace. cbn [flat_map].
    rewrite <- app_assoc. rewrite (rev_app_distr [EPull p; EItem p x; EYield x]). rewrite <- app_assoc. reflexivity.
Qed.

Lemma items_left_mid pre xs post p lg u : length pre = p -> items_left p (W (pre ++ fs xs :: post) lg u) = length xs.
Proof. intros Hp. unfold items_left. cbn [srcs W]. rewrite (nth_mid pre (fs xs) post dead_src p Hp). reflexivity. Qed.

Lemma chain_each owned xs pre post p lg u : length pre = p -> exists u',
  each p (chain_yield owned) (W (pre ++ fs xs :: post) lg u)
  = (Ok tt, W (pre ++ es :: post) (rev (one_trace p xs) ++ lg) u').
Proof.
  intros Hp. unfold each. rewrite bind_loop_src, (items_left_mid pre xs post p lg u Hp).
  destruct (chain_iter owned xs pre post p (S (length xs)) lg u Hp (Nat.lt_succ_diag_r _)) as [u' Hit].
  exists u'. erewrite bind_ok by exact Hit. reflexivity.
Qed.

Definition done_src : src := mkSrc [] true 1 1 true.

Lemma chain_scoped owned xs pre post p lg u : length pre = p -> exists u',
  scoped p (each p (chain_yield owned)) (W (pre ++ fs xs :: post) lg u)
  = (Ok tt, W (pre ++ done_src :: post) (EClose p :: rev (one_trace p xs) ++ lg) u').
Proof.
  intros Hp. destruct (chain_each owned xs pre post p lg u Hp) as [u' He].
  exists (S u'). unfold scoped. erewrite finally_ok; [reflexivity | exact He | discriminate | ].
  erewrite close_ok; [ | apply nth_mid; exact Hp | rewrite app_length; simpl; lia ].
  rewrite upd_mid by exact Hp. reflexivity.
Qed.

Lemma one_trace_close_free i xs : close_free (one_trace i xs) = true.
Proof.
  unfold one_trace. rewrite close_free_app. induction xs as [|x xs IH]; [reflexivity|]. exact IH.
Qed.

Lemma chain_body_spec owned : forall xss pre lg u, exists lg' u',
  chain_body (seq (length pre) (length xss)) (chain_yield owned) (W (pre ++ map fs xss) lg u)
  = (Ok tt, W (pre ++ map (fun _ => done_src) xss) (lg' ++ lg) u')
  /\ no_closes (rev lg') = spec_chain_trace_from (length pre) xss.
Proof.
  induction xss as [|xs xss IH]; intros pre lg u.
  - exists [], u. split; reflexivity.
  - cbn [length seq chain_body map].
    destruct (chain_scoped owned xs pre (map fs xss) (length pre) lg u eq_refl) as [u1 Hs].
    erewrite bind_ok by exact Hs.
    destruct (IH (pre ++ [done_src]) (EClose (length pre) :: rev (one_trace (length pre) xs) ++ lg) u1)
      as (lg2 & u2 & Hb & Htr).
    rewrite app_length in Hb, Htr. cbn [length] in Hb, Htr. rewrite Nat.add_1_r in Hb, Htr.
    rewrite <- !app_assoc in Hb. cbn [app] in Hb.
    exists (lg2 ++ EClose (length pre) :: rev (one_trace (length pre) xs)), u2. split.
    + rewrite Hb. rewrite <- app_assoc. reflexivity.
    + rewrite rev_app_distr. cbn [rev]. rewrite rev_involutive, <- app_assoc, !no_closes_app, Htr.
      rewrite (no_closes_free _ (one_trace_close_free (length pre) xs)).
      cbn [spec_chain_trace_from]. unfold one_trace. rewrite <- !app_assoc. reflexivity.
Qed.

Theorem chain_trace : forall xss,
  let '(o, w) := run_chain (seq 0 (length xss)) (init_world xss None) in
  o = Ok tt /\ no_closes (rev (log w)) = spec_chain_trace xss /\ all_released w = true.
Proof.
  intros xss. rewrite init_worldN. unfold run_chain.
  destruct (chain_body_spec (seq 0 (length xss)) xss [] [] 0) as (lg' & u' & Hb & Htr).
  cbn [length app] in Hb, Htr. rewrite Hb. split; [reflexivity|]. split.
  - cbn [log W]. rewrite app_nil_r. exact Htr.
  - unfold all_released. cbn [srcs W]. clear. induction xss as [|xs xss IH]; [reflexivity|exact IH].
Qed.

Lemma yields_items i xs : yields (flat_map (fun x => [EPull i; EItem i x; EYield x]) xs) = xs.
Proof. induction xs as [|x xs IH]; [reflexivity|]. cbn [flat_map]. rewrite yields_app, IH. reflexivity. Qed.

Corollary chain_yields : forall xss, yields (spec_chain_trace xss) = spec_chain xss.
Proof.
  intros xss. unfold spec_chain_trace, spec_chain. generalize 0 as i.
  induction xss as [|xs xss IH]; intros i; [reflexivity|].
  cbn [spec_chain_trace_from concat]. rewrite !yields_app, yields_items, IH. reflexivity.
Qed.

Example chain_example :
  spec_chain_trace [[VInt 1]; []; [VInt 2]]
  = [EPull 0; EItem 0 (VInt 1); EYield (VInt 1); EPull 0; EEnd 0; EPull 1; EEnd 1;
     EPull 2; EItem 2 (VInt 2); EYield (VInt 2); EPull 2; EEnd 2].
Proof. reflexivity. Qed.

Print Assumptions chain_trace.
Print Assumptions chain_yields.
