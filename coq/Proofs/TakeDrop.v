(* takewhile / dropwhile *)
From Coq Require Import List ZArith NArith Bool Arith Lia.
Import ListNotations.
Require Import V.Kernel.Values V.Kernel.Monad V.Model.Builtins V.Model.Itertools.
Require Import V.Proofs.Steps V.Proofs.ItSteps V.Std.Filter V.Std.Itertools1.

(* ================= takewhile ================= *)
Lemma takewhile_iter p : forall xs n lg u, length xs < n -> exists u' b l e,
  iter_src n 0 (fun (_ : unit) x => c <- call 0 p [x] ;;
                                    if truthy c then yield_to x ;;; ret (tt, true) else ret (tt, false)) tt (W1 xs lg u)
  = (Ok (tt, b), WS l e (rev (spec_takewhile_trace p xs) ++ lg) u').
Proof.
  induction xs as [|x xs IH]; intros n lg u Hn; destruct n as [|n]; try (simpl in Hn; lia).
  - exists (S u), false, [], true. cbn [iter_src]. mstep'. reflexivity.
  - assert (Hlen : length xs < n) by (simpl in Hn; lia).
    cbn [iter_src]. mstep'. cbn [spec_takewhile_trace]. unfold holds.
    destruct (truthy (p [x])) eqn:Hp; mstep'; cbn [snd fst].
    + destruct (IH n (EYield x :: ECall 0 [x] :: EItem 0 x :: EPull 0 :: lg) (S (S (S u))) Hlen) as [u' [b [l [e H]]]].
      exists u', b, l, e. rewrite H. f_equal. f_equal. logeq.
    + exists (S (S u)), true, xs, false. reflexivity.
Qed.

Lemma takewhile_nc p xs : nc (spec_takewhile_trace p xs) = true.
Proof. induction xs as [|x xs IH]; [reflexivity|]. cbn. destruct (holds p x); [apply IH|reflexivity]. Qed.

Theorem takewhile_trace : forall p xs,
  let '(o, w) := run_gen (a_takewhile p) (init_world [xs] None) in
  o = Ok tt /\ no_closes (rev (log w)) = spec_takewhile_trace p xs /\ all_released w = true.
Proof.
  intros p xs. unfold run_gen, a_takewhile.
  destruct (takewhile_iter p xs (S (length xs)) [] 0 (Nat.lt_succ_diag_r _)) as [u' [b [l [e H]]]].
  rewrite app_nil_r in H.
  apply (finish_scoped _ xs (Ok tt) l e _ u'); [|discriminate|apply takewhile_nc].
  rewrite bind_loop_src, items_left1. rewrite (bind_ok _ _ _ _ _ H). reflexivity.
Qed.

Corollary takewhile_yields : forall p xs, yields (spec_takewhile_trace p xs) = spec_takewhile p xs.
Proof.
  intros p xs. unfold spec_takewhile. induction xs as [|x xs IH]; [reflexivity|].
  cbn [spec_takewhile_trace takewhile]. destruct (holds p x); yields_step; [|reflexivity].
  rewrite IH. reflexivity.
Qed.

(* ================= dropwhile ================= *)
Lemma pass_iter : forall xs n lg u, length xs < n -> exists u',
  iter_src n 0 (fun (_ : unit) x => yield_to x ;;; ret (tt, true)) tt (W1 xs lg u)
  = (Ok (tt, false), WE (rev (pass_trace xs) ++ lg) u').
Proof.
  induction xs as [|x xs IH]; intros n lg u Hn; destruct n as [|n]; try (simpl in Hn; lia).
  - exists (S u). cbn [iter_src]. mstep'. reflexivity.
  - assert (Hlen : length xs < n) by (simpl in Hn; lia).
    cbn [iter_src]. mstep'. cbn [snd fst pass_trace].
    destruct (IH n (EYield x :: EItem 0 x :: EPull 0 :: lg) (S (S u)) Hlen) as [u' H].
    exists u'. rewrite H. f_equal. f_equal. logeq.
Qed.
Lemma each_pass xs lg u : exists u',
  each 0 yield_to (W1 xs lg u) = (Ok tt, WE (rev (pass_trace xs) ++ lg) u').
Proof.
  destruct (pass_iter xs (S (length xs)) lg u (Nat.lt_succ_diag_r _)) as [u' H].
  exists u'. unfold each. rewrite bind_loop_src, items_left1. rewrite (bind_ok _ _ _ _ _ H). reflexivity.
Qed.

Lemma dropwhile_iter p : forall xs n lg u, length xs < n -> exists u',
  iter_src n 0 (fun (_ : unit) x => c <- call 0 p [x] ;;
                                    if truthy c then ret (tt, true) else yield_to x ;;; ret (tt, false)) tt (W1 xs lg u)
    = (Ok (tt, false), WE (rev (spec_dropwhile_trace p xs) ++ lg) u')
  \/ exists pre xs',
    iter_src n 0 (fun (_ : unit) x => c <- call 0 p [x] ;;
                                      if truthy c then ret (tt, true) else yield_to x ;;; ret (tt, false)) tt (W1 xs lg u)
      = (Ok (tt, true), W1 xs' (rev pre ++ lg) u')
    /\ spec_dropwhile_trace p xs = pre ++ pass_trace xs'.
Proof.
  induction xs as [|x xs IH]; intros n lg u Hn; destruct n as [|n]; try (simpl in Hn; lia).
  - exists (S u). left. cbn [iter_src]. mstep'. reflexivity.
  - assert (Hlen : length xs < n) by (simpl in Hn; lia).
    cbn [iter_src]. mstep'. cbn [spec_dropwhile_trace]. unfold holds.
    destruct (truthy (p [x])) eqn:Hp; mstep'; cbn [snd fst].
    + destruct (IH n (ECall 0 [x] :: EItem 0 x :: EPull 0 :: lg) (S (S u)) Hlen) as [u' [H|[pre [xs' [H H']]]]].
      * exists u'. left. rewrite H. f_equal. f_equal. logeq.
      * exists u'. right. exists ([EPull 0; EItem 0 x; ECall 0 [x]] ++ pre), xs'. split.
        -- rewrite H. f_equal. f_equal. logeq.
        -- rewrite H'. reflexivity.
    + exists (S (S (S u))). right. exists [EPull 0; EItem 0 x; ECall 0 [x]; EYield x], xs.
      split; reflexivity.
Qed.

Lemma pass_nc xs : nc (pass_trace xs) = true.
Proof. induction xs as [|x xs IH]; [reflexivity|]. cbn. apply IH. Qed.
Lemma dropwhile_nc p xs : nc (spec_dropwhile_trace p xs) = true.
Proof. induction xs as [|x xs IH]; [reflexivity|]. cbn. destruct (holds p x); [apply IH|apply pass_nc]. Qed.

Theorem dropwhile_trace : forall p xs,
  let '(o, w) := run_gen (a_dropwhile p) (init_world [xs] None) in
  o = Ok tt /\ no_closes (rev (log w)) = spec_dropwhile_trace p xs /\ all_released w = true.
Proof.
  intros p xs. unfold run_gen, a_dropwhile.
  destruct (dropwhile_iter p xs (S (length xs)) [] 0 (Nat.lt_succ_diag_r _)) as [u' [H|[pre [xs' [H H']]]]].
  - rewrite app_nil_r in H.
    apply (finish_scoped _ xs (Ok tt) [] true _ u'); [|discriminate|apply dropwhile_nc].
    rewrite bind_loop_src, items_left1. rewrite (bind_ok _ _ _ _ _ H). reflexivity.
  - destruct (each_pass xs' (rev pre ++ []) u') as [u'' He].
    apply (finish_scoped _ xs (Ok tt) [] true _ u''); [|discriminate|apply dropwhile_nc].
    rewrite bind_loop_src, items_left1. rewrite (bind_ok _ _ _ _ _ H). cbn [snd]. rewrite He.
    unfold WE, WS. f_equal. f_equal. rewrite H', rev_app_distr, app_nil_r. reflexivity.
Qed.

Lemma pass_yields xs : yields (pass_trace xs) = xs.
Proof. induction xs as [|x xs IH]; [reflexivity|]. cbn [pass_trace]. yields_step. rewrite IH. reflexivity. Qed.
Corollary dropwhile_yields : forall p xs, yields (spec_dropwhile_trace p xs) = spec_dropwhile p xs.
Proof.
  intros p xs. unfold spec_dropwhile. induction xs as [|x xs IH]; [reflexivity|].
  cbn [spec_dropwhile_trace dropwhile]. destruct (holds p x); yields_step; [exact IH|].
  rewrite pass_yields. reflexivity.
Qed.

Print Assumptions takewhile_trace.
Print Assumptions takewhile_yields.
Print Assumptions dropwhile_trace.
Print Assumptions dropwhile_yields.
