(* The translated source (Gen/PylSrc.v, regenerated from /repo on every run) denotes, through the semantics
   of Model/Pyl.v, exactly the hand-written models of Model/Builtins.v and Model/Itertools.v: equal as world
   transformers, for every argument, consumer and world (sources, fault plan, use counter).  All theorems of
   Props/ about these models therefore hold of what the code says now. *)
From Coq Require Import List ZArith NArith Bool Arith String Lia.
Import ListNotations.
Require Import V.Kernel.Values V.Kernel.Monad V.Model.Builtins V.Model.Itertools V.Model.Pyl V.Gen.PylSrc V.Proofs.PylRel.

Definition fn_arg (f : option (list val -> val)) : callee :=
  match f with None => CNoneFn | Some p => CUser 0 p end.


(* keep the primitives of the calculus folded while [cbn] evaluates [exec]/[eval] and the environments *)
#[local] Arguments bind : simpl never.
#[local] Arguments ret : simpl never.
#[local] Arguments raise : simpl never.
#[local] Arguments pull : simpl never.
#[local] Arguments call : simpl never.
#[local] Arguments close : simpl never.
#[local] Arguments scoped : simpl never.
#[local] Arguments finally : simpl never.
#[local] Arguments loop_src : simpl never.
#[local] Arguments iter_src : simpl never.
#[local] Arguments each : simpl never.
#[local] Arguments collect : simpl never.

(* evaluate the interpreter, re-associate binds to the right and remove [ret]s at the head *)
Ltac norm := repeat (cbn; repeat rewrite mbind_assoc; repeat rewrite mbind_ret_l).

Lemma unit_ret_rel (u : unit) w : orel eq (ret tt w) (ret u w).
Proof. destruct u. apply orel_refl. Qed.

(* ---------- all / any ---------- *)
Theorem src_all_ok : forall w, run_corofn src_all [AIter 0] w = a_all w.
Proof.
  intros w. unfold run_corofn, src_all, a_all. apply orel_eq. norm.
  apply (bind_rel (fun (r1 : env * sig) (r2 : unit * bool) =>
                     snd r1 = if snd r2 then Ret (VBool false) else Normal)).
  - apply scoped_rel. norm.
    apply bind_rel_l with (R := exit_rel (fun (st1 : env * sig) (_ : unit) => snd st1 = Normal)
                                         (fun (st1 : env * sig) (_ : unit) => snd st1 = Ret (VBool false))).
    + apply loop_src_rel; [|reflexivity].
      intros st1 st2 x w1 HR. norm. destruct (truthy x); norm; apply orel_ret.
      * apply step_rel_cont. reflexivity.
      * apply step_rel_break. reflexivity.
    + intros [[en sg] c1] [u c2] w1 [Hc HR]. cbn [fst snd] in Hc, HR |- *. subst c2.
      destruct c1; subst sg; norm; apply orel_ret; reflexivity.
  - intros [en sg] [u c] w1 HR. cbn [fst snd] in HR |- *. subst sg.
    destruct c; norm; apply orel_ret; reflexivity.
Qed.

Theorem src_any_ok : forall w, run_corofn src_any [AIter 0] w = a_any w.
Proof.
  intros w. unfold run_corofn, src_any, a_any. apply orel_eq. norm.
  apply (bind_rel (fun (r1 : env * sig) (r2 : unit * bool) =>
                     snd r1 = if snd r2 then Ret (VBool true) else Normal)).
  - apply scoped_rel. norm.
    apply bind_rel_l with (R := exit_rel (fun (st1 : env * sig) (_ : unit) => snd st1 = Normal)
                                         (fun (st1 : env * sig) (_ : unit) => snd st1 = Ret (VBool true))).
    + apply loop_src_rel; [|reflexivity].
      intros st1 st2 x w1 HR. norm. destruct (truthy x); norm; apply orel_ret.
      * apply step_rel_break. reflexivity.
      * apply step_rel_cont. reflexivity.
    + intros [[en sg] c1] [u c2] w1 [Hc HR]. cbn [fst snd] in Hc, HR |- *. subst c2.
      destruct c1; subst sg; norm; apply orel_ret; reflexivity.
  - intros [en sg] [u c] w1 HR. cbn [fst snd] in HR |- *. subst sg.
    destruct c; norm; apply orel_ret; reflexivity.
Qed.

(* ---------- list / tuple / set ---------- *)
Theorem src_list_ok : forall w, run_corofn src_list [AIter 0] w = a_list w.
Proof.
  intros w. unfold run_corofn, src_list, a_list. apply orel_eq. norm.
  apply (bind_rel (fun (r1 : env * sig) (l : list val) => snd r1 = Ret (VList l))).
  - apply scoped_rel. unfold collect. norm. apply bind_same. intros r w1. norm.
    apply orel_ret. reflexivity.
  - intros [en sg] l w1 HR. cbn [fst snd] in HR |- *. subst sg. norm. apply orel_ret. reflexivity.
Qed.

Theorem src_tuple_ok : forall w, run_corofn src_tuple [AIter 0] w = a_tuple w.
Proof.
  intros w. unfold run_corofn, src_tuple, a_tuple. apply orel_eq. norm.
  apply (bind_rel (fun (r1 : env * sig) (l : list val) => snd r1 = Ret (VTup l))).
  - apply scoped_rel. unfold collect. norm. apply bind_same. intros r w1. norm.
    apply orel_ret. reflexivity.
  - intros [en sg] l w1 HR. cbn [fst snd] in HR |- *. subst sg. norm. apply orel_ret. reflexivity.
Qed.

Theorem src_set_ok : forall w, run_corofn src_set [AIter 0] w = a_set w.
Proof.
  intros w. unfold run_corofn, src_set, a_set. apply orel_eq. norm.
  apply (bind_rel (fun (r1 : env * sig) (r2 : list val * bool) => snd r1 = Ret (VList (fst r2)))).
  - apply scoped_rel. norm. apply bind_rel_l with (R := eq); [apply orel_refl|].
    intros r ? w1 <-. norm. apply orel_ret. reflexivity.
  - intros [en sg] r w1 HR. cbn [fst snd] in HR |- *. subst sg. norm. apply orel_ret. reflexivity.
Qed.

(* ---------- generators ---------- *)
(* results nobody looks at *)
Definition any_rel {A B} (_ : A) (_ : B) : Prop := True.
(* the translated function's trailing [ret]s after the last loop, against the model's [ret tt] *)
Ltac trailing :=
  let en := fresh "en" in let sg := fresh "sg" in let c := fresh "c" in
  let r2 := fresh "r2" in let w' := fresh "w'" in let H := fresh "H" in
  intros [[en sg] c] r2 w' H; destruct sg; norm; apply orel_ret; exact I.
(* generator functions return nothing: [exec ... ;;; ret tt] against a model of type [M unit] *)
Ltac gen_frame :=
  apply bind_rel_l with (R := any_rel); [|intros ? ? ? _; apply unit_ret_rel].

Theorem src_filter_ok : forall f yield w,
  run_genfn src_filter [AFn (fn_arg f); AIter 0] yield w = a_filter f yield w.
Proof.
  intros f yield w. unfold run_genfn, src_filter, a_filter, each. apply orel_eq.
  destruct f as [p|]; norm; gen_frame; apply scoped_rel; norm.
  - apply (bind_rel (exit_rel (fun (st1 : env * sig) (_ : unit) =>
                                 lookup "function" (e_fns (fst st1)) = Some (CUser 0 p)) any_rel));
      [|trailing].
    apply loop_src_rel; [|reflexivity].
    intros st1 st2 x w1 HR. norm. rewrite HR. norm. apply bind_same. intros r w2. norm.
    destruct (truthy r); norm.
    + apply bind_same. intros u w3. norm. apply orel_ret, step_rel_cont. exact HR.
    + apply orel_ret, step_rel_cont. exact HR.
  - apply (bind_rel (exit_rel (fun (st1 : env * sig) (_ : unit) => True) any_rel)); [|trailing].
    apply loop_src_rel; [|exact I].
    intros st1 st2 x w1 HR. norm. destruct (truthy x); norm.
    + apply bind_same. intros u w3. norm. apply orel_ret, step_rel_cont. exact I.
    + apply orel_ret, step_rel_cont. exact I.
Qed.

Theorem src_enumerate_ok : forall start yield w,
  run_genfn src_enumerate [AIter 0; AVal (VInt start)] yield w = a_enumerate start yield w.
Proof.
  intros start yield w. unfold run_genfn, src_enumerate, a_enumerate. apply orel_eq.
  norm. gen_frame. apply scoped_rel. norm.
  apply (bind_rel (exit_rel (fun (st1 : env * sig) (c : Z) =>
                               lookup "count" (e_vars (fst st1)) = Some (VInt c)) any_rel)); [|trailing].
  apply loop_src_rel; [|reflexivity].
  intros st1 c x w1 HR. norm. rewrite HR. norm. apply bind_same. intros u w2. norm.
  rewrite HR. norm. apply orel_ret, step_rel_cont. reflexivity.
Qed.

Theorem src_takewhile_ok : forall p yield w,
  run_genfn src_takewhile [AFn (CUser 0 p); AIter 0] yield w = a_takewhile p yield w.
Proof.
  intros p yield w. unfold run_genfn, src_takewhile, a_takewhile. apply orel_eq.
  norm. gen_frame. apply scoped_rel. norm.
  apply (bind_rel (exit_rel (fun (st1 : env * sig) (_ : unit) =>
                               lookup "predicate" (e_fns (fst st1)) = Some (CUser 0 p)) any_rel)); [|trailing].
  apply loop_src_rel; [|reflexivity].
  intros st1 st2 x w1 HR. norm. rewrite HR. norm. apply bind_same. intros r w2. norm.
  destruct (truthy r); norm.
  - apply bind_same. intros u w3. norm. apply orel_ret, step_rel_cont. exact HR.
  - apply orel_ret, step_rel_break. exact I.
Qed.

Theorem src_dropwhile_ok : forall p yield w,
  run_genfn src_dropwhile [AFn (CUser 0 p); AIter 0] yield w = a_dropwhile p yield w.
Proof.
  intros p yield w. unfold run_genfn, src_dropwhile, a_dropwhile, each. apply orel_eq.
  norm. gen_frame. apply scoped_rel. norm.
  pose (inv := fun (sg : sig) (st1 : env * sig) (_ : unit) =>
                 lookup "predicate" (e_fns (fst st1)) = Some (CUser 0 p) /\
                 lookup "async_iter" (e_its (fst st1)) = Some 0 /\ snd st1 = sg).
  apply (bind_rel (exit_rel (inv Normal) (inv Brk))).
  - apply loop_src_rel; [|repeat split].
    intros st1 st2 x w1 HR. destruct HR as (HF & HI & HS). norm. rewrite HF. norm.
    apply bind_same. intros r w2. norm. destruct (truthy r); norm.
    + apply orel_ret, step_rel_cont. repeat split; assumption.
    + apply bind_same. intros u w3. norm. apply orel_ret, step_rel_break. repeat split; assumption.
  - intros [[en sg] c1] [u c2] w1 [Hc HR]. cbn [fst snd] in Hc, HR |- *. subst c2.
    destruct c1; destruct HR as (HF & HI & HS); cbn [fst snd] in HF, HI, HS; subst sg; norm.
    + rewrite HI. norm.
      apply (bind_rel (exit_rel (fun (st1 : env * sig) (_ : unit) => True) any_rel)); [|trailing].
      apply loop_src_rel; [|exact I].
      intros st1 st2 x w2 HR. norm. apply bind_same. intros u' w3. norm.
      apply orel_ret, step_rel_cont. exact I.
    + apply orel_ret. exact I.
Qed.

Theorem src_filterfalse_ok : forall f yield w,
  run_genfn src_filterfalse [AFn (fn_arg f); AIter 0] yield w = a_filterfalse f yield w.
Proof.
  intros f yield w. unfold run_genfn, src_filterfalse, a_filterfalse, each. apply orel_eq.
  destruct f as [p|]; norm; gen_frame; apply scoped_rel; norm.
  - apply (bind_rel (exit_rel (fun (st1 : env * sig) (_ : unit) =>
                                 lookup "predicate" (e_fns (fst st1)) = Some (CUser 0 p)) any_rel));
      [|trailing].
    apply loop_src_rel; [|reflexivity].
    intros st1 st2 x w1 HR. norm. rewrite HR. norm. apply bind_same. intros r w2. norm.
    destruct (truthy r); norm.
    + apply orel_ret, step_rel_cont. exact HR.
    + apply bind_same. intros u w3. norm. apply orel_ret, step_rel_cont. exact HR.
  - apply (bind_rel (exit_rel (fun (st1 : env * sig) (_ : unit) =>
                                 lookup "predicate" (e_fns (fst st1)) = Some CBool) any_rel));
      [|trailing].
    apply loop_src_rel; [|reflexivity].
    intros st1 st2 x w1 HR. norm. rewrite HR. norm. destruct (truthy x); norm.
    + apply orel_ret, step_rel_cont. exact HR.
    + apply bind_same. intros u w3. norm. apply orel_ret, step_rel_cont. exact HR.
Qed.

Theorem src_starmap_ok : forall f yield w,
  run_genfn src_starmap [AFn (CUser 0 f); AIter 0] yield w = a_starmap f yield w.
Proof.
  intros f yield w. unfold run_genfn, src_starmap, a_starmap, each. apply orel_eq.
  norm. gen_frame. apply scoped_rel. norm.
  apply (bind_rel (exit_rel (fun (st1 : env * sig) (_ : unit) =>
                               lookup "function" (e_fns (fst st1)) = Some (CUser 0 f)) any_rel)); [|trailing].
  apply loop_src_rel; [|reflexivity].
  intros st1 st2 x w1 HR. norm. rewrite HR. norm.
  destruct x as [cls k tag|z|b| | |args|args]; norm; try apply orel_raise;
    (apply bind_same; intros r w2; norm; apply bind_same; intros u w3; norm;
     apply orel_ret, step_rel_cont; exact HR).
Qed.

Theorem src_pairwise_ok : forall yield w,
  run_genfn src_pairwise [AIter 0] yield w = a_pairwise yield w.
Proof.
  intros yield w. unfold run_genfn, src_pairwise, a_pairwise. apply orel_eq.
  norm. gen_frame. apply scoped_rel. norm.
  apply bind_same. intros [first|] w1; norm.
  - apply (bind_rel (exit_rel (fun (st1 : env * sig) (prev : val) =>
                                 lookup "prev" (e_vars (fst st1)) = Some prev) any_rel)); [|trailing].
    apply loop_src_rel; [|reflexivity].
    intros st1 prev x w2 HR. norm. rewrite HR. norm. apply bind_same. intros u w3. norm.
    apply orel_ret, step_rel_cont. reflexivity.
  - apply orel_ret. exact I.
Qed.

Theorem all_sources_supported : forallb (fun f => supported (f_body f)) all_sources = true.
Proof. vm_compute. reflexivity. Qed.

Print Assumptions src_all_ok.
Print Assumptions src_any_ok.
Print Assumptions src_list_ok.
Print Assumptions src_tuple_ok.
Print Assumptions src_set_ok.
Print Assumptions src_filter_ok.
Print Assumptions src_enumerate_ok.
Print Assumptions src_takewhile_ok.
Print Assumptions src_dropwhile_ok.
Print Assumptions src_filterfalse_ok.
Print Assumptions src_starmap_ok.
Print Assumptions src_pairwise_ok.
Print Assumptions all_sources_supported.
