(* Tactics and small lemmas shared by Proofs/PylEquivAgg.v and Proofs/PylEquivIter.v.
   [norm] relies on the primitives of the calculus being kept folded by [cbn]: each of the two files
   declares them [simpl never] locally (an [Arguments] declaration here would leak into every file
   that requires this one). *)
From Coq Require Import List ZArith NArith Bool Arith String Lia.
Import ListNotations.
Require Import V.Kernel.Values V.Kernel.Monad V.Model.Builtins V.Model.Pyl V.Proofs.PylRel.

(* evaluate the interpreter, re-associate binds to the right and remove [ret]s at the head *)
Ltac norm := repeat (cbn; repeat rewrite mbind_assoc; repeat rewrite mbind_ret_l).

Lemma unit_ret_rel (u : unit) w : orel eq (ret tt w) (ret u w).
Proof. destruct u. apply orel_refl. Qed.

(* results nobody looks at *)
Definition any_rel {A B} (_ : A) (_ : B) : Prop := True.
(* the translated function's trailing [ret]s after the last loop, against the model's [ret tt] *)
Ltac trailing :=
  let en := fresh "en" in let sg := fresh "sg" in let c := fresh "c" in
  let r2 := fresh "r2" in let w' := fresh "w'" in let H := fresh "H" in
  intros [[en sg] c] r2 w' H; destruct sg; norm; apply orel_ret; exact I.
(* generator functions return nothing: [exec ... ;;; ret tt] against a model of type [M unit] *)
Ltac gen_frame :=
  apply bind_rel_l with (R := any_rel); [|intros ? ? ? _; apply unit_ret_rel].

(* a generator body whose result is dropped, against the same body *)
Lemma drop_result {A} (m : M unit) (a : A) w : orel any_rel (bind m (fun _ => ret a) w) (m w).
Proof.
  unfold bind, ret. destruct (m w) as [[u|e|] w1]; split; cbn; auto. exact I.
Qed.
Lemma mbind_ret_tt (m : M unit) w : bind m (fun _ => ret tt) w = m w.
Proof. unfold bind, ret. destruct (m w) as [[[]|e|] w1]; reflexivity. Qed.
Lemma orel_any_of_eq {A} (r1 r2 : outcome A * world) : r1 = r2 -> orel any_rel r1 r2.
Proof. intros H. apply (orel_mono eq); [intros; exact I|apply orel_of_eq, H]. Qed.
Lemma mbind_unit_end (m : M unit) (k : unit -> M unit) :
  (forall u w, k u w = ret tt w) -> forall w, bind m k w = m w.
Proof. intros Hk w. etransitivity; [|apply mbind_ret_tt]. apply mbind_cong_r, Hk. Qed.
