(* Tactics and small lemmas shared by Proofs/PylEquivAgg.v, Proofs/PylEquivIter.v and Proofs/PylEquivZip.v.
   At the end: the statements of the first three batches never produce the signal [Exc] ([exec_noexc]), so for
   them [run_genfn] is [exec body ;;; ret tt] ([run_genfn_noexc]).
   [norm] relies on the primitives of the calculus being kept folded by [cbn]: each of the two files
   declares them [simpl never] locally (an [Arguments] declaration here would leak into every file
   that requires this one). *)
From Coq Require Import List ZArith NArith Bool Arith String Lia.
Import ListNotations.
Require Import V.Kernel.Values V.Kernel.Monad V.Model.Builtins V.Model.Pyl V.Proofs.PylRel.

(* evaluate the interpreter, re-associate binds to the right and remove [ret]s at the head *)
Ltac norm := repeat (cbn; repeat rewrite mbind_assoc; repeat rewrite mbind_ret_l).

Lemma unit_ret_rel (u : unit) w : orel eq (ret tt w) (ret u w).
Proof. destruct u. apply orel_refl. Qed.

(* results nobody looks at *)
Definition any_rel {A B} (_ : A) (_ : B) : Prop := True.
(* the translated function's trailing [ret]s after the last loop, against the model's [ret tt] *)
Ltac trailing :=
  let en := fresh "en" in let sg := fresh "sg" in let c := fresh "c" in
  let r2 := fresh "r2" in let w' := fresh "w'" in let H := fresh "H" in
  intros [[en sg] c] r2 w' H; destruct sg; norm; apply orel_ret; exact I.
(* generator functions return nothing: [exec ... ;;; ret tt] against a model of type [M unit] *)
Ltac gen_frame :=
  apply bind_rel_l with (R := any_rel); [|intros ? ? ? _; apply unit_ret_rel].

(* a generator body whose result is dropped, against the same body *)
Lemma drop_result {A} (m : M unit) (a : A) w : orel any_rel (bind m (fun _ => ret a) w) (m w).
Proof.
  unfold bind, ret. destruct (m w) as [[u|e|] w1]; split; cbn; auto. exact I.
Qed.
Lemma mbind_ret_tt (m : M unit) w : bind m (fun _ => ret tt) w = m w.
Proof. unfold bind, ret. destruct (m w) as [[[]|e|] w1]; reflexivity. Qed.
Lemma orel_any_of_eq {A} (r1 r2 : outcome A * world) : r1 = r2 -> orel any_rel r1 r2.
Proof. intros H. apply (orel_mono eq); [intros; exact I|apply orel_of_eq, H]. Qed.
Lemma mbind_unit_end (m : M unit) (k : unit -> M unit) :
  (forall u w, k u w = ret tt w) -> forall w, bind m k w = m w.
Proof. intros Hk w. etransitivity; [|apply mbind_ret_tt]. apply mbind_cong_r, Hk. Qed.

(* ---------- the statements of the first three batches never signal [Exc] ----------
   [Exc] is only produced by the library-level [anext] constructs of the fourth batch ([SAnext], [SAnextRow],
   [SAppendAnext]).  For a function built from the other statements the final [match] of [run_genfn] is therefore
   dead code, and [run_genfn f args] is [exec body ;;; ret tt] as it was before the fourth batch. *)
Fixpoint noexc (s : stmt) : bool :=
  match s with
  | SSkip | SAssign _ _ | SAwaitify _ | SSetFnBool _ | SYield _ | SAnextDefault _ _ | SRaise _
  | SSlicePrelude | SBreak | SReturn _ | SUnsupported _ => true
  | SForZipBorrowed _ _ _ _ _ | SForZipOwned _ _ _ => true
  | SSeq a b | SIf _ a b | SFor _ _ a b | SForEnum _ _ _ _ a b => noexc a && noexc b
  | SWith _ _ a | SAnextOr _ _ a => noexc a
  | _ => false
  end.

(* a postcondition on [Ok] results *)
Definition post {A} (P : A -> Prop) (r : outcome A * world) : Prop :=
  match fst r with Ok a => P a | _ => True end.
Lemma post_ret {A} (P : A -> Prop) a w : P a -> post P (ret a w).
Proof. intros H. exact H. Qed.
Lemma post_raise {A} (P : A -> Prop) e w : post P (raise e w).
Proof. exact I. Qed.
Lemma post_bind2 {A B} (Q : A -> Prop) (P : B -> Prop) (m : M A) (f : A -> M B) w :
  post Q (m w) -> (forall a w', Q a -> post P (f a w')) -> post P (bind m f w).
Proof.
  unfold post, bind. intros Hm Hf. destruct (m w) as [[a|e|] w1]; cbn [fst] in *; [apply Hf, Hm|exact I|exact I].
Qed.
Lemma post_bind {A B} (P : B -> Prop) (m : M A) (f : A -> M B) w :
  (forall a w', post P (f a w')) -> post P (bind m f w).
Proof. intros Hf. apply (post_bind2 (fun _ => True)); [|intros a w' _; apply Hf]. unfold post. destruct (fst (m w)); exact I. Qed.
Lemma post_finally {A} (P : A -> Prop) (m : M A) fin w : post P (m w) -> post P (finally m fin w).
Proof.
  unfold post, finally. intros Hm. destruct (m w) as [[a|e|] w1]; cbn [fst] in *;
    try exact I; destruct (fin w1) as [[u|e'|] w2]; cbn [fst]; auto.
Qed.
Lemma post_iter_src {St} (P : St -> Prop) i (body : St -> val -> M (St * bool)) :
  (forall s x w, P s -> post (fun r => P (fst r)) (body s x w)) ->
  forall n s w, P s -> post (fun r => P (fst r)) (iter_src n i body s w).
Proof.
  intros Hb. induction n as [|n IHn]; intros s w HP; [exact I|].
  cbn [iter_src]. apply post_bind. intros [x|] w1; [|apply post_ret; exact HP].
  apply (post_bind2 (fun r => P (fst r))); [apply Hb, HP|].
  intros [s' [|]] w2 HP'; cbn [fst snd] in *; [apply IHn, HP'|apply post_ret; exact HP'].
Qed.

Definition sig_noexc (r : env * sig) : Prop := match snd r with Exc _ => False | _ => True end.

Lemma exec_noexc : forall s en yield w, noexc s = true -> post sig_noexc (exec s en yield w).
Proof.
  induction s; intros en yield w H; cbn [noexc] in H; try discriminate H;
    try (apply andb_prop in H; destruct H as [H1 H2]); cbn [exec].
  - apply post_ret. exact I.
  - apply (post_bind2 sig_noexc); [apply IHs1, H1|]. intros [en1 sg] w1 Hs. cbn [fst snd].
    destruct sg; try (apply post_ret; exact Hs). apply IHs2, H2.
  - apply post_bind. intros v w1. apply post_ret. exact I.
  - apply post_bind. intros v w1. apply post_ret. exact I.
  - apply post_ret. exact I.
  - apply post_bind. intros v w1. destruct (truthy v); [apply IHs1, H1|apply IHs2, H2].
  - apply post_bind. intros v w1. apply post_bind. intros u w2. apply post_ret. exact I.
  - apply post_bind. intros i w1. unfold scoped. apply post_finally, IHs, H.
  - apply post_bind. intros i w1.
    apply (post_bind2 (fun r : env * sig * bool => sig_noexc (fst r))).
    + unfold loop_src. apply (post_iter_src sig_noexc); [|exact I].
      intros st x0 w2 _. apply (post_bind2 sig_noexc); [apply IHs1, H1|].
      intros [en1 sg] w3 Hs. cbn [fst snd]. destruct sg; apply post_ret; exact Hs.
    + intros [[en1 sg] c] w2 Hs. cbn [fst snd] in *. destruct sg; try (apply post_ret; exact Hs).
      apply IHs2, H2.
  - apply post_bind. intros i w1. apply post_bind. intros [v|] w2; [apply post_ret; exact I|apply IHs, H].
  - apply post_bind. intros i w1. apply post_bind. intros [v|] w2; apply post_ret; exact I.
  - apply post_raise.
  - apply post_bind. intros i w1. apply post_bind. intros k w2.
    destruct k; try apply post_raise.
    apply (post_bind2 (fun r : env * sig * Z * bool => sig_noexc (fst (fst r)))).
    + unfold loop_src. apply (post_iter_src (fun st : env * sig * Z => sig_noexc (fst st))); [|exact I].
      intros st x0 w3 _. apply (post_bind2 sig_noexc); [apply IHs1, H1|].
      intros [en1 sg] w4 Hs. cbn [fst snd]. destruct sg; apply post_ret; exact Hs.
    + intros [[[en1 sg] z0] c0] w3 Hs. cbn [fst snd] in *. destruct sg; try (apply post_ret; exact Hs).
      apply IHs2, H2.
  - apply post_bind. intros i w1. apply post_bind. intros j w2. apply post_bind. intros u w3. apply post_ret. exact I.
  - apply post_bind. intros ss w1. apply post_bind. intros u w2. apply post_ret. exact I.
  - apply post_ret. exact I.
  - apply post_ret. exact I.
  - destruct e as [e|]; [apply post_bind; intros v w1|]; apply post_ret; exact I.
  - apply post_raise.
Qed.

Lemma run_genfn_noexc f args yield w :
  noexc (f_body f) = true ->
  run_genfn f args yield w = bind (exec (f_body f) (bind_args (f_params f) args empty_env) yield) (fun _ => ret tt) w.
Proof.
  intros H. unfold run_genfn, run_genfn_in, empty_env, bind.
  pose proof (exec_noexc (f_body f) (bind_args (f_params f) args (env_with [])) yield w H) as Hp.
  unfold post in Hp.
  destruct (exec (f_body f) (bind_args (f_params f) args (env_with [])) yield w) as [[[en sg]|e|] w1];
    cbn [fst snd] in *; try reflexivity.
  destruct sg; try reflexivity. contradiction.
Qed.

Print Assumptions exec_noexc.
Print Assumptions run_genfn_noexc.
