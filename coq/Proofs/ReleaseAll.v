(* Release (C04) for all tools together. *)
From Coq Require Import List ZArith NArith Bool Arith Lia.
Import ListNotations.
Require Import V.Kernel.Values V.Kernel.Monad V.Kernel.Fn V.Model.Builtins V.Model.Itertools V.Model.Heapq V.Model.Tool.
Require Import V.Proofs.Steps V.Proofs.Regular V.Proofs.RegularTools V.Proofs.Release V.Proofs.ReleaseChain.

(* a chain over a single iterable releases it whatever happens *)
Lemma rel_chain1 : releases 0 (run_tool (TChain 1)).
Proof.
  intros w. cbn [run_tool]. rewrite bind_unfold. cbn [seq].
  assert (B : releases 0 (chain_body [0] (chain_yield [0]))) by (cbn [chain_body]; rel0).
  specialize (B w).
  destruct (run_chain_cases [0] w) as [[E _]|(e & E1 & _ & E3 & E4)].
  - rewrite E. destruct (chain_body [0] (chain_yield [0]) w) as [[[]|e|] w1]; cbn [fst snd ret] in *; intros Hf;
      apply B; congruence.
  - intros _.
    assert (R : rel_at 0 (snd (run_chain [0] w))).
    { rewrite E3. apply keeps; [apply wfG_close_all | apply B; congruence]. }
    destruct (run_chain [0] w) as [[[]|e'|] w2]; cbn [fst snd ret] in *; auto.
Qed.

(* What is still false for the model: a GeneratorExit that surfaces at a use which is not a yield of the
   chain (e.g. inside a source's __anext__) passes through [run_chain] unhandled, so the later
   iterables stay open.  (The implementation's __anext__ catches everything but StopAsyncIteration; the
   model lets every XGenExit through because it cannot tell where it came from.) *)
Theorem tool_releases_refuted : exists t ss k_e,
  valid t (length ss) = true /\
  fst (run_tool t (init_world ss k_e)) <> Fuel /\
  all_released (snd (run_tool t (init_world ss k_e))) = false.
Proof.
  exists (TChain 2), [[VInt 1]; [VInt 2]], (Some (0, XGenExit)).
  vm_compute. repeat split; discriminate.
Qed.

(* the caveat: only for a chain of two or more iterables under a GeneratorExit fault -- then the run
   must have completed or stand at a yield (the consumer's chain.aclose) *)
Definition chain_caveat (t : tool) (k_e : option (nat * exn)) (r : outcome val * world) : bool :=
  match t with
  | TChain n => negb (genexit_fault k_e) || (n <=? 1) || is_ok (fst r) || last_is_yield (log (snd r))
  | _ => true
  end.

Theorem tool_releases_partial : forall t ss k_e, valid t (length ss) = true ->
  let w0 := init_world ss k_e in
  fst (run_tool t w0) <> Fuel ->
  chain_caveat t k_e (run_tool t w0) = true ->
  all_released (snd (run_tool t w0)) = true.
Proof.
  intros t ss k_e Hv w0 Hf Hc.
  destruct (is_chain t) eqn:Ec; [|apply tool_releases_nonchain; assumption].
  destruct t; try discriminate Ec. cbn [valid] in Hv. apply Nat.eqb_eq in Hv.
  cbn [chain_caveat] in Hc.
  destruct (genexit_fault k_e) eqn:Eg; [|apply chain_releases; assumption].
  cbn [negb orb] in Hc. destruct (n <=? 1) eqn:En.
  - apply Nat.leb_le in En. apply all_released_intro. intros i Hi.
    rewrite tool_length in Hi. unfold w0 in Hi. rewrite init_world_length, Hv in Hi.
    assert (n = 1) by lia. assert (i = 0) by lia. clear Hv. subst n i. apply rel_chain1. exact Hf.
  - cbn [orb] in Hc. destruct k_e as [[k e]|]; cbn in Eg; try discriminate Eg.
    destruct e; try discriminate Eg. apply chain_close_releases; assumption.
Qed.

(* every valid tool, chain included, releases all its sources when it completes, fails or is cancelled:
   any fault position, any injected exception other than GeneratorExit *)
Theorem tool_releases : forall t ss k_e, valid t (length ss) = true -> genexit_fault k_e = false ->
  let w0 := init_world ss k_e in
  fst (run_tool t w0) <> Fuel -> all_released (snd (run_tool t w0)) = true.
Proof.
  intros t ss k_e Hv Hg w0 Hf. apply tool_releases_partial; auto.
  destruct t; try reflexivity. cbn [chain_caveat]. rewrite Hg. reflexivity.
Qed.
(* ... and when the consumer closes it: a GeneratorExit fault, at any use for every tool but chain, at a
   yield for chain *)
Theorem tool_releases_closed : forall t ss k, valid t (length ss) = true ->
  let w0 := init_world ss (Some (k, XGenExit)) in
  fst (run_tool t w0) <> Fuel ->
  is_chain t = false \/ last_is_yield (log (snd (run_tool t w0))) = true ->
  all_released (snd (run_tool t w0)) = true.
Proof.
  intros t ss k Hv w0 Hf Hc. apply tool_releases_partial; auto.
  destruct t; try reflexivity. destruct Hc as [Hc|Hc]; [discriminate Hc|].
  cbn [chain_caveat]. fold w0. rewrite Hc. rewrite !orb_true_r. reflexivity.
Qed.

Print Assumptions tool_releases_refuted.
Print Assumptions tool_releases_partial.
Print Assumptions tool_releases.
Print Assumptions tool_releases_closed.
