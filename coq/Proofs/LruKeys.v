(* C10, part 1: the call-pattern keys of asyncstdlib's lru_cache (asl_key) distinguish exactly the
   same argument patterns as functools._make_key (std_key); pv_eq / kelem_eq / klist_eq / ckey_eq are
   equivalence relations. *)
From Coq Require Import List ZArith NArith Bool Arith Lia.
From V Require Import Model.Lru.
Import ListNotations.

(* ---------- pv_eq: the nested list comparison, named ---------- *)
Fixpoint pvl_eq (l1 l2 : list pv) : bool :=
  match l1, l2 with
  | [], [] => true
  | x :: l1', y :: l2' => pv_eq x y && pvl_eq l1' l2'
  | _, _ => false
  end.

Lemma pv_eq_tup : forall l l', pv_eq (PTup l) (PTup l') = pvl_eq l l'.
Proof.
  induction l as [|x l IH]; intros [|y l']; simpl; reflexivity.
Qed.

Lemma pv_ind2 : forall P : pv -> Prop,
  (forall z, P (PInt z)) -> (forall t, P (PFloat t)) -> (forall b, P (PBool b)) ->
  (forall n, P (PStr n)) -> P PNone -> (forall i, P (PObj i)) ->
  (forall l, Forall P l -> P (PTup l)) -> forall v, P v.
Proof.
  intros P HI HF HB HS HN HO HT. fix IH 1.
  intros [z|t|b|n| |i|l]; [apply HI|apply HF|apply HB|apply HS|apply HN|apply HO|].
  apply HT. induction l as [|x l IHl]; constructor; [apply IH|apply IHl].
Qed.

(* a non-tuple view of pv_eq *)
Definition pv_eq_flat (a b : pv) : bool :=
  match a, b with
  | PStr n, PStr m => N.eqb n m
  | PNone, PNone => true
  | PObj i, PObj j => N.eqb i j
  | PTup l, PTup l' => pvl_eq l l'
  | _, _ => match num2 a, num2 b with Some x, Some y => Z.eqb x y | _, _ => false end
  end.
Lemma pv_eq_unfold : forall a b, pv_eq a b = pv_eq_flat a b.
Proof. intros [ | | | | | |l] [ | | | | | |l']; reflexivity. Qed.

Theorem pv_eq_refl : forall a, pv_eq a a = true.
Proof.
  induction a as [z|t|b|n| |i|l IH] using pv_ind2; rewrite pv_eq_unfold; simpl;
    try apply Z.eqb_refl; try apply N.eqb_refl; try reflexivity.
  induction IH as [|x l Hx _ IHl]; simpl; [reflexivity|]. now rewrite Hx, IHl.
Qed.

Theorem pv_eq_sym : forall a b, pv_eq a b = pv_eq b a.
Proof.
  induction a as [z|t|b0|n| |i|l IH] using pv_ind2; intros b; rewrite !pv_eq_unfold;
    destruct b as [z'|t'|b'|n'| |i'|l']; simpl; try reflexivity;
    try apply Z.eqb_sym; try apply N.eqb_sym.
  revert l'. induction IH as [|x l Hx _ IHl]; intros [|y l']; simpl; try reflexivity.
  now rewrite Hx, IHl.
Qed.

Theorem pv_eq_trans : forall a b c, pv_eq a b = true -> pv_eq b c = true -> pv_eq a c = true.
Proof.
  induction a as [z|t|b0|n| |i|l IH] using pv_ind2; intros b c; rewrite !pv_eq_unfold;
    destruct b as [z'|t'|b'|n'| |i'|l']; simpl; try discriminate;
    destruct c as [z''|t''|b''|n''| |i''|l'']; simpl; try discriminate;
    rewrite ?Z.eqb_eq, ?N.eqb_eq; try congruence; try (intros; subst; reflexivity).
  revert l' l''. induction IH as [|x l Hx _ IHl]; intros [|y l'] [|z l'']; simpl; try discriminate; auto.
  rewrite !andb_true_iff. intros [H1 H2] [H3 H4]. split; [eapply Hx; eauto | eapply IHl; eauto].
Qed.

Lemma pvl_eq_refl : forall l, pvl_eq l l = true.
Proof. induction l; simpl; [reflexivity|]. now rewrite pv_eq_refl. Qed.

(* ---------- pty_eqb, kelem_eq, klist_eq, ckey_eq ---------- *)
Lemma pty_eqb_eq : forall a b, pty_eqb a b = true <-> a = b.
Proof. intros [] []; simpl; split; congruence. Qed.
Lemma pty_eqb_refl : forall a, pty_eqb a a = true.
Proof. intros []; reflexivity. Qed.
Lemma pty_eqb_sym : forall a b, pty_eqb a b = pty_eqb b a.
Proof. intros [] []; reflexivity. Qed.

Lemma kelem_eq_refl : forall a, kelem_eq a a = true.
Proof.
  intros [v| |n v|n|t]; simpl; rewrite ?N.eqb_refl, ?pv_eq_refl, ?pty_eqb_refl; reflexivity.
Qed.
Lemma kelem_eq_sym : forall a b, kelem_eq a b = kelem_eq b a.
Proof.
  intros [v| |n v|n|t] [v'| |n' v'|n'|t']; simpl; try reflexivity.
  - apply pv_eq_sym.
  - now rewrite N.eqb_sym, pv_eq_sym.
  - apply N.eqb_sym.
  - apply pty_eqb_sym.
Qed.
Lemma kelem_eq_trans : forall a b c, kelem_eq a b = true -> kelem_eq b c = true -> kelem_eq a c = true.
Proof.
  intros [v| |n v|n|t] [v'| |n' v'|n'|t'] [v''| |n'' v''|n''|t'']; simpl; try discriminate; auto.
  - apply pv_eq_trans.
  - rewrite !andb_true_iff, !N.eqb_eq. intros [-> H1] [-> H2]. split; [reflexivity|eapply pv_eq_trans; eauto].
  - rewrite !N.eqb_eq. congruence.
  - rewrite !pty_eqb_eq. congruence.
Qed.

Lemma klist_eq_refl : forall l, klist_eq l l = true.
Proof. induction l; simpl; [reflexivity|]. now rewrite kelem_eq_refl. Qed.
Lemma klist_eq_sym : forall l l', klist_eq l l' = klist_eq l' l.
Proof. induction l as [|x l IH]; intros [|y l']; simpl; try reflexivity. now rewrite kelem_eq_sym, IH. Qed.
Lemma klist_eq_trans : forall a b c, klist_eq a b = true -> klist_eq b c = true -> klist_eq a c = true.
Proof.
  induction a as [|x a IH]; intros [|y b] [|z c]; simpl; try discriminate; auto.
  rewrite !andb_true_iff. intros [H1 H2] [H3 H4]. split; [eapply kelem_eq_trans; eauto | eapply IH; eauto].
Qed.

(* ckey_eq is an equivalence relation on ALL dictionary keys (a fortiori on those built by asl_key / std_key) *)
Theorem ckey_eq_refl : forall k, ckey_eq k k = true.
Proof. intros [v|l]; simpl; [now rewrite pty_eqb_refl, pv_eq_refl | apply klist_eq_refl]. Qed.
Theorem ckey_eq_sym : forall k k', ckey_eq k k' = ckey_eq k' k.
Proof. intros [v|l] [v'|l']; simpl; try reflexivity; [now rewrite pty_eqb_sym, pv_eq_sym | apply klist_eq_sym]. Qed.
Theorem ckey_eq_trans : forall a b c, ckey_eq a b = true -> ckey_eq b c = true -> ckey_eq a c = true.
Proof.
  intros [v|l] [v'|l'] [v''|l'']; simpl; try discriminate; [|apply klist_eq_trans].
  rewrite !andb_true_iff, !pty_eqb_eq. intros [E1 H1] [E2 H2]. split; [congruence|eapply pv_eq_trans; eauto].
Qed.

Lemma ckey_eq_congr_l : forall a b c, ckey_eq a b = true -> ckey_eq a c = ckey_eq b c.
Proof.
  intros a b c H. destruct (ckey_eq b c) eqn:E.
  - eapply ckey_eq_trans; eauto.
  - destruct (ckey_eq a c) eqn:E'; [|reflexivity].
    rewrite ckey_eq_sym in H. rewrite <- E. symmetry. eapply ckey_eq_trans; eauto.
Qed.
Lemma ckey_eq_congr_r : forall a b c, ckey_eq a b = true -> ckey_eq c a = ckey_eq c b.
Proof. intros a b c H. rewrite (ckey_eq_sym c a), (ckey_eq_sym c b). now apply ckey_eq_congr_l. Qed.

(* the statements restricted to keys produced by the two key constructions *)
Corollary asl_key_equivalence : forall typed,
  (forall c, ckey_eq (asl_key typed c) (asl_key typed c) = true) /\
  (forall c c', ckey_eq (asl_key typed c) (asl_key typed c') = ckey_eq (asl_key typed c') (asl_key typed c)) /\
  (forall c1 c2 c3, ckey_eq (asl_key typed c1) (asl_key typed c2) = true ->
                    ckey_eq (asl_key typed c2) (asl_key typed c3) = true ->
                    ckey_eq (asl_key typed c1) (asl_key typed c3) = true).
Proof.
  intros typed. split; [|split]; intros.
  - apply ckey_eq_refl. - apply ckey_eq_sym. - eapply ckey_eq_trans; eauto.
Qed.
Corollary std_key_equivalence : forall typed,
  (forall c, ckey_eq (std_key typed c) (std_key typed c) = true) /\
  (forall c c', ckey_eq (std_key typed c) (std_key typed c') = ckey_eq (std_key typed c') (std_key typed c)) /\
  (forall c1 c2 c3, ckey_eq (std_key typed c1) (std_key typed c2) = true ->
                    ckey_eq (std_key typed c2) (std_key typed c3) = true ->
                    ckey_eq (std_key typed c1) (std_key typed c3) = true).
Proof.
  intros typed. split; [|split]; intros.
  - apply ckey_eq_refl. - apply ckey_eq_sym. - eapply ckey_eq_trans; eauto.
Qed.

(* ---------- the shape of the two key constructions ---------- *)
Definition KP (p : N * pv) : kelem := KPair (fst p) (snd p).
Definition FP (p : N * pv) : list kelem := [KName (fst p); KVal (snd p)].
Definition a_kw (kw : list (N * pv)) : list kelem := match kw with [] => [] | _ => KMark :: map KP kw end.
Definition s_kw (kw : list (N * pv)) : list kelem := match kw with [] => [] | _ => KMark :: flat_map FP kw end.
Definition asl_raw (c : call) : list kelem := map KVal (c_args c) ++ a_kw (c_kwds c).
Definition std_raw (c : call) : list kelem := map KVal (c_args c) ++ s_kw (c_kwds c).
Definition tys (c : call) : list kelem :=
  map (fun v => KType (type_of v)) (c_args c) ++ map (fun p => KType (type_of (snd p))) (c_kwds c).
(* the fast path applies to exactly these calls *)
Definition fastb (c : call) : bool :=
  match c_args c, c_kwds c with [v], [] => is_fast v | _, _ => false end.
Definition fastv (c : call) : pv := hd PNone (c_args c).

Lemma asl_key_typed : forall c, asl_key true c = KWrapped (asl_raw c ++ tys c).
Proof. intros [args [|p kw]]; unfold asl_key, asl_raw, tys; simpl; rewrite ?app_nil_r; reflexivity. Qed.
Lemma std_key_typed : forall c, std_key true c = KWrapped (std_raw c ++ tys c).
Proof. intros [args [|p kw]]; unfold std_key, std_raw, tys; simpl; rewrite ?app_nil_r; reflexivity. Qed.
Lemma asl_key_untyped : forall c,
  asl_key false c = if fastb c then KFast (fastv c) else KWrapped (asl_raw c).
Proof.
  intros [[|v [|v2 args]] [|p kw]]; unfold asl_key, asl_raw, fastb, fastv; simpl; rewrite ?app_nil_r; reflexivity.
Qed.
Lemma std_key_untyped : forall c,
  std_key false c = if fastb c then KFast (fastv c) else KWrapped (std_raw c).
Proof.
  intros [[|v [|v2 args]] [|p kw]]; unfold std_key, std_raw, fastb, fastv; simpl; rewrite ?app_nil_r; reflexivity.
Qed.

(* ---------- comparing the tuples ---------- *)
Definition is_ktype (e : kelem) : bool := match e with KType _ => true | _ => false end.
Definition nvh (X : list kelem) : bool := match X with KVal _ :: _ => false | _ => true end.

Lemma klist_val_prefix : forall a a' X X', nvh X = true -> nvh X' = true ->
  klist_eq (map KVal a ++ X) (map KVal a' ++ X') = pvl_eq a a' && klist_eq X X'.
Proof.
  induction a as [|x a IH]; intros [|y a'] X X' HX HX'; simpl.
  - reflexivity.
  - destruct X as [|[ | | | | ] X]; simpl in *; try discriminate; reflexivity.
  - destruct X' as [|[ | | | | ] X']; simpl in *; try discriminate; reflexivity.
  - rewrite IH by assumption. now rewrite andb_assoc.
Qed.

Lemma kw_tail_eq : forall kw kw' T T', forallb is_ktype T = true -> forallb is_ktype T' = true ->
  klist_eq (map KP kw ++ T) (map KP kw' ++ T') = klist_eq (flat_map FP kw ++ T) (flat_map FP kw' ++ T').
Proof.
  induction kw as [|[n x] kw IH]; intros [|[m y] kw'] T T' HT HT'; simpl.
  - reflexivity.
  - destruct T as [|[ | | | | ] T]; simpl in *; try discriminate; reflexivity.
  - destruct T' as [|[ | | | | ] T']; simpl in *; try discriminate; reflexivity.
  - rewrite (IH kw' T T' HT HT'). now rewrite andb_assoc.
Qed.

Lemma kw_part_eq : forall kw kw' T T', forallb is_ktype T = true -> forallb is_ktype T' = true ->
  klist_eq (a_kw kw ++ T) (a_kw kw' ++ T') = klist_eq (s_kw kw ++ T) (s_kw kw' ++ T').
Proof.
  intros [|p kw] [|p' kw'] T T' HT HT'; unfold a_kw, s_kw.
  - reflexivity.
  - simpl. destruct T as [|[ | | | | ] T]; simpl in *; try discriminate; reflexivity.
  - simpl. destruct T' as [|[ | | | | ] T']; simpl in *; try discriminate; reflexivity.
  - change (klist_eq (KMark :: (map KP (p :: kw) ++ T)) (KMark :: (map KP (p' :: kw') ++ T')) =
            klist_eq (KMark :: (flat_map FP (p :: kw) ++ T)) (KMark :: (flat_map FP (p' :: kw') ++ T'))).
    cbn [klist_eq kelem_eq andb]. apply kw_tail_eq; assumption.
Qed.

Lemma nvh_a_kw : forall kw T, forallb is_ktype T = true -> nvh (a_kw kw ++ T) = true.
Proof. intros [|p kw] T HT; simpl; [|reflexivity]. destruct T as [|[ | | | | ] T]; simpl in *; try discriminate; reflexivity. Qed.
Lemma nvh_s_kw : forall kw T, forallb is_ktype T = true -> nvh (s_kw kw ++ T) = true.
Proof. intros [|p kw] T HT; simpl; [|reflexivity]. destruct T as [|[ | | | | ] T]; simpl in *; try discriminate; reflexivity. Qed.

Lemma raw_eq : forall c c' T T', forallb is_ktype T = true -> forallb is_ktype T' = true ->
  klist_eq (asl_raw c ++ T) (asl_raw c' ++ T') = klist_eq (std_raw c ++ T) (std_raw c' ++ T').
Proof.
  intros c c' T T' HT HT'. unfold asl_raw, std_raw. rewrite <- !app_assoc.
  rewrite !klist_val_prefix by (apply nvh_a_kw || apply nvh_s_kw; assumption).
  f_equal. apply kw_part_eq; assumption.
Qed.

Lemma tys_types : forall c, forallb is_ktype (tys c) = true.
Proof.
  intros c. unfold tys. rewrite forallb_app. apply andb_true_iff.
  split; apply forallb_forall; intros e He; apply in_map_iff in He; destruct He as [x [<- _]]; reflexivity.
Qed.

(* ---------- 1. argument patterns are distinguished identically ---------- *)
Theorem key_classes : forall typed c c',
  ckey_eq (asl_key typed c) (asl_key typed c') = ckey_eq (std_key typed c) (std_key typed c').
Proof.
  intros [|] c c'.
  - rewrite !asl_key_typed, !std_key_typed. simpl. apply raw_eq; apply tys_types.
  - rewrite !asl_key_untyped, !std_key_untyped.
    destruct (fastb c), (fastb c'); simpl; try reflexivity.
    generalize (raw_eq c c' [] [] eq_refl eq_refl). now rewrite !app_nil_r.
Qed.

(* the relation both constructions induce on calls, spelled out without any key tuples *)
Fixpoint kwl_eq (a b : list (N * pv)) : bool :=
  match a, b with
  | [], [] => true
  | (n, x) :: a', (m, y) :: b' => N.eqb n m && pv_eq x y && kwl_eq a' b'
  | _, _ => false
  end.
Fixpoint tyl_eq (a b : list pty) : bool :=
  match a, b with
  | [], [] => true
  | s :: a', t :: b' => pty_eqb s t && tyl_eq a' b'
  | _, _ => false
  end.
(* same positional values (Python ==), same keyword names in the same order with == values;
   typed: moreover the same types position by position; untyped: a lone int/str argument only
   matches a lone argument of the same type *)
Definition call_eq (typed : bool) (c c' : call) : bool :=
  pvl_eq (c_args c) (c_args c') && kwl_eq (c_kwds c) (c_kwds c') &&
  (if typed
   then tyl_eq (map type_of (c_args c) ++ map (fun p => type_of (snd p)) (c_kwds c))
               (map type_of (c_args c') ++ map (fun p => type_of (snd p)) (c_kwds c'))
   else if fastb c then fastb c' && pty_eqb (type_of (fastv c)) (type_of (fastv c'))
        else negb (fastb c')).

Lemma klist_types : forall (a b : list pty), klist_eq (map KType a) (map KType b) = tyl_eq a b.
Proof. induction a as [|s a IH]; intros [|t b]; simpl; try reflexivity. now rewrite IH. Qed.

Lemma kp_tail_split : forall kw kw' T T', forallb is_ktype T = true -> forallb is_ktype T' = true ->
  klist_eq (map KP kw ++ T) (map KP kw' ++ T') = kwl_eq kw kw' && klist_eq T T'.
Proof.
  induction kw as [|[n x] kw IH]; intros [|[m y] kw'] T T' HT HT'; simpl.
  - reflexivity.
  - destruct T as [|[ | | | | ] T]; simpl in *; try discriminate; reflexivity.
  - destruct T' as [|[ | | | | ] T']; simpl in *; try discriminate; reflexivity.
  - rewrite (IH kw' T T' HT HT'). now rewrite !andb_assoc.
Qed.
Lemma a_kw_split : forall kw kw' T T', forallb is_ktype T = true -> forallb is_ktype T' = true ->
  klist_eq (a_kw kw ++ T) (a_kw kw' ++ T') = kwl_eq kw kw' && klist_eq T T'.
Proof.
  intros [|p kw] [|p' kw'] T T' HT HT'; unfold a_kw.
  - reflexivity.
  - simpl. destruct p'. destruct T as [|[ | | | | ] T]; simpl in *; try discriminate; reflexivity.
  - simpl. destruct p. destruct T' as [|[ | | | | ] T']; simpl in *; try discriminate; reflexivity.
  - change (klist_eq (KMark :: (map KP (p :: kw) ++ T)) (KMark :: (map KP (p' :: kw') ++ T')) =
            kwl_eq (p :: kw) (p' :: kw') && klist_eq T T').
    cbn [klist_eq kelem_eq andb]. apply kp_tail_split; assumption.
Qed.

Lemma tys_as_map : forall c,
  tys c = map KType (map type_of (c_args c) ++ map (fun p => type_of (snd p)) (c_kwds c)).
Proof. intros c. unfold tys. now rewrite map_app, !map_map. Qed.

Lemma fast_args : forall c c', fastb c = true -> fastb c' = true ->
  pvl_eq (c_args c) (c_args c') && kwl_eq (c_kwds c) (c_kwds c') = pv_eq (fastv c) (fastv c').
Proof.
  intros [[|v [|v2 args]] [|p kw]] [[|v' [|v2' args']] [|p' kw']]; unfold fastb, fastv; simpl; try discriminate.
  intros _ _. now rewrite !andb_true_r.
Qed.

Theorem key_classes_explicit : forall typed c c',
  ckey_eq (asl_key typed c) (asl_key typed c') = call_eq typed c c'.
Proof.
  intros [|] c c'; unfold call_eq.
  - rewrite !asl_key_typed. simpl. unfold asl_raw. rewrite <- !app_assoc.
    rewrite klist_val_prefix by (apply nvh_a_kw; apply tys_types).
    rewrite a_kw_split by apply tys_types. rewrite !tys_as_map, klist_types. now rewrite andb_assoc.
  - rewrite !asl_key_untyped.
    destruct (fastb c) eqn:F, (fastb c') eqn:F'; simpl; rewrite ?andb_false_r; try reflexivity.
    + rewrite fast_args by assumption. apply andb_comm.
    + generalize (klist_val_prefix (c_args c) (c_args c') (a_kw (c_kwds c) ++ []) (a_kw (c_kwds c') ++ [])
                    (nvh_a_kw _ [] eq_refl) (nvh_a_kw _ [] eq_refl)).
      rewrite (a_kw_split _ _ [] [] eq_refl eq_refl). rewrite !app_nil_r. unfold asl_raw.
      intros ->. simpl. now rewrite !andb_true_r.
Qed.

(* ---------- examples: 1 / 1.0 / True, keyword order, typed suffix, fast path ---------- *)
Definition pos (l : list pv) : call := mkCall l [].
Example ex_int_float_untyped :
  ckey_eq (asl_key false (pos [PInt 1])) (asl_key false (pos [PFloat 2])) = false /\
  ckey_eq (std_key false (pos [PInt 1])) (std_key false (pos [PFloat 2])) = false.
Proof. vm_compute. auto. Qed.
Example ex_float_bool_untyped :       (* 1.0 and True share an entry when untyped: both are wrapped tuples *)
  ckey_eq (asl_key false (pos [PFloat 2])) (asl_key false (pos [PBool true])) = true /\
  ckey_eq (std_key false (pos [PFloat 2])) (std_key false (pos [PBool true])) = true.
Proof. vm_compute. auto. Qed.
Example ex_two_args_untyped :         (* f(1, 2) and f(1.0, True+True) ... positional values compared with == *)
  ckey_eq (asl_key false (pos [PInt 1; PInt 2])) (asl_key false (pos [PFloat 2; PInt 2])) = true /\
  ckey_eq (asl_key true (pos [PInt 1; PInt 2])) (asl_key true (pos [PFloat 2; PInt 2])) = false.
Proof. vm_compute. auto. Qed.
Example ex_kw_order :
  let c1 := mkCall [] [(1%N, PInt 1); (2%N, PInt 2)] in
  let c2 := mkCall [] [(2%N, PInt 2); (1%N, PInt 1)] in
  ckey_eq (asl_key false c1) (asl_key false c2) = false /\ ckey_eq (std_key false c1) (std_key false c2) = false /\
  ckey_eq (asl_key false c1) (asl_key false c1) = true.
Proof. vm_compute. auto. Qed.
Example ex_pos_vs_kw :
  ckey_eq (asl_key false (mkCall [PInt 1] [])) (asl_key false (mkCall [] [(1%N, PInt 1)])) = false.
Proof. vm_compute. auto. Qed.
Example ex_tuple_arg :
  ckey_eq (asl_key false (pos [PTup [PInt 1; PStr 3]])) (asl_key false (pos [PTup [PBool true; PStr 3]])) = true /\
  ckey_eq (asl_key true (pos [PTup [PInt 1; PStr 3]])) (asl_key true (pos [PTup [PBool true; PStr 3]])) = true.
Proof. vm_compute. auto. Qed.

Print Assumptions pv_eq_refl.
Print Assumptions pv_eq_sym.
Print Assumptions pv_eq_trans.
Print Assumptions ckey_eq_refl.
Print Assumptions ckey_eq_sym.
Print Assumptions ckey_eq_trans.
Print Assumptions asl_key_equivalence.
Print Assumptions std_key_equivalence.
Print Assumptions key_classes.
Print Assumptions key_classes_explicit.
