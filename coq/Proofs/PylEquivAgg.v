(* Aggregations.  The translated source (Gen/PylSrc.v, regenerated from /repo on every run) denotes, through the
   semantics of Model/Pyl.v, exactly the hand-written models of Model/Builtins.v and Model/Heapq.v: equal as
   world transformers, for every argument and world (sources, fault plan, use counter).  All theorems of
   Props/ about these models therefore hold of what the code says now.
   The generator functions are in Proofs/PylEquivIter.v, so that a change to one source function only breaks
   the file that concerns it. *)
From Coq Require Import List ZArith NArith Bool Arith String Lia.
Import ListNotations.
Require Import V.Kernel.Values V.Kernel.Monad V.Model.Builtins V.Model.Itertools V.Model.Heapq V.Model.Pyl V.Gen.PylSrc V.Proofs.PylRel V.Proofs.PylTac.

Definition fn_arg (f : option (list val -> val)) : callee :=
  match f with None => CNoneFn | Some p => CUser 0 p end.

(* keep the primitives of the calculus folded while [cbn] evaluates [exec]/[eval] and the environments *)
#[local] Arguments bind : simpl never.
#[local] Arguments ret : simpl never.
#[local] Arguments raise : simpl never.
#[local] Arguments pull : simpl never.
#[local] Arguments call : simpl never.
#[local] Arguments close : simpl never.
#[local] Arguments scoped : simpl never.
#[local] Arguments finally : simpl never.
#[local] Arguments loop_src : simpl never.
#[local] Arguments iter_src : simpl never.
#[local] Arguments each : simpl never.
#[local] Arguments collect : simpl never.

(* ---------- all / any ---------- *)
Theorem src_all_ok : forall w, run_corofn src_all [AIter 0] w = a_all w.
Proof.
  intros w. unfold run_corofn, src_all, a_all. apply orel_eq. norm.
  apply (bind_rel (fun (r1 : env * sig) (r2 : unit * bool) =>
                     snd r1 = if snd r2 then Ret (VBool false) else Normal)).
  - apply scoped_rel. norm.
    apply bind_rel_l with (R := exit_rel (fun (st1 : env * sig) (_ : unit) => snd st1 = Normal)
                                         (fun (st1 : env * sig) (_ : unit) => snd st1 = Ret (VBool false))).
    + apply loop_src_rel; [|reflexivity].
      intros st1 st2 x w1 HR. norm. destruct (truthy x); norm; apply orel_ret.
      * apply step_rel_cont. reflexivity.
      * apply step_rel_break. reflexivity.
    + intros [[en sg] c1] [u c2] w1 [Hc HR]. cbn [fst snd] in Hc, HR |- *. subst c2.
      destruct c1; subst sg; norm; apply orel_ret; reflexivity.
  - intros [en sg] [u c] w1 HR. cbn [fst snd] in HR |- *. subst sg.
    destruct c; norm; apply orel_ret; reflexivity.
Qed.

Theorem src_any_ok : forall w, run_corofn src_any [AIter 0] w = a_any w.
Proof.
  intros w. unfold run_corofn, src_any, a_any. apply orel_eq. norm.
  apply (bind_rel (fun (r1 : env * sig) (r2 : unit * bool) =>
                     snd r1 = if snd r2 then Ret (VBool true) else Normal)).
  - apply scoped_rel. norm.
    apply bind_rel_l with (R := exit_rel (fun (st1 : env * sig) (_ : unit) => snd st1 = Normal)
                                         (fun (st1 : env * sig) (_ : unit) => snd st1 = Ret (VBool true))).
    + apply loop_src_rel; [|reflexivity].
      intros st1 st2 x w1 HR. norm. destruct (truthy x); norm; apply orel_ret.
      * apply step_rel_break. reflexivity.
      * apply step_rel_cont. reflexivity.
    + intros [[en sg] c1] [u c2] w1 [Hc HR]. cbn [fst snd] in Hc, HR |- *. subst c2.
      destruct c1; subst sg; norm; apply orel_ret; reflexivity.
  - intros [en sg] [u c] w1 HR. cbn [fst snd] in HR |- *. subst sg.
    destruct c; norm; apply orel_ret; reflexivity.
Qed.

(* ---------- list / tuple / set ---------- *)
Theorem src_list_ok : forall w, run_corofn src_list [AIter 0] w = a_list w.
Proof.
  intros w. unfold run_corofn, src_list, a_list. apply orel_eq. norm.
  apply (bind_rel (fun (r1 : env * sig) (l : list val) => snd r1 = Ret (VList l))).
  - apply scoped_rel. unfold collect. norm. apply bind_same. intros r w1. norm.
    apply orel_ret. reflexivity.
  - intros [en sg] l w1 HR. cbn [fst snd] in HR |- *. subst sg. norm. apply orel_ret. reflexivity.
Qed.

Theorem src_tuple_ok : forall w, run_corofn src_tuple [AIter 0] w = a_tuple w.
Proof.
  intros w. unfold run_corofn, src_tuple, a_tuple. apply orel_eq. norm.
  apply (bind_rel (fun (r1 : env * sig) (l : list val) => snd r1 = Ret (VTup l))).
  - apply scoped_rel. unfold collect. norm. apply bind_same. intros r w1. norm.
    apply orel_ret. reflexivity.
  - intros [en sg] l w1 HR. cbn [fst snd] in HR |- *. subst sg. norm. apply orel_ret. reflexivity.
Qed.

Theorem src_set_ok : forall w, run_corofn src_set [AIter 0] w = a_set w.
Proof.
  intros w. unfold run_corofn, src_set, a_set. apply orel_eq. norm.
  apply (bind_rel (fun (r1 : env * sig) (r2 : list val * bool) => snd r1 = Ret (VList (fst r2)))).
  - apply scoped_rel. norm. apply bind_rel_l with (R := eq); [apply orel_refl|].
    intros r ? w1 <-. norm. apply orel_ret. reflexivity.
  - intros [en sg] r w1 HR. cbn [fst snd] in HR |- *. subst sg. norm. apply orel_ret. reflexivity.
Qed.

(* ---------- second batch: sum, _min_max, accumulate, reduce ---------- *)
Theorem src_sum_ok : forall start w, run_corofn src_sum [AIter 0; AVal start] w = a_sum start w.
Proof.
  intros start w. unfold run_corofn, src_sum, a_sum. apply orel_eq. norm.
  apply (bind_rel (fun (r1 : env * sig) (r2 : val * bool) =>
                     snd r1 = Normal /\ lookup "total" (e_vars (fst r1)) = Some (Some (fst r2)))).
  - apply scoped_rel. norm.
    apply bind_rel_l with (R := exit_rel (fun (st1 : env * sig) (t : val) =>
                                 snd st1 = Normal /\ lookup "total" (e_vars (fst st1)) = Some (Some t))
                               (fun _ _ => False)).
    + apply loop_src_rel; [|split; reflexivity].
      intros st1 t x w1 [HS HR]. norm. rewrite HR. norm.
      destruct (py_add t x) as [v|]; norm; [|apply orel_raise].
      apply orel_ret, step_rel_cont. split; reflexivity.
    + intros [[en sg] c1] [t c2] w1 [Hc HR]. cbn [fst snd] in Hc, HR |- *. subst c2.
      destruct c1; [contradiction|]. destruct HR as [HS HR]. subst sg. norm.
      apply orel_ret. split; [reflexivity|exact HR].
  - intros [en sg] [t c] w1 [HS HR]. cbn [fst snd] in HS, HR |- *. subst sg. norm. rewrite HR. norm.
    apply orel_ret. reflexivity.
Qed.

Theorem src_reduce_ok : forall f initial w,
  run_corofn src_reduce [AFn (CUser 0 f); AIter 0; AOpt initial] w = a_reduce f initial w.
Proof.
  intros f initial w. unfold run_corofn, src_reduce, a_reduce. apply orel_eq.
  pose (inv := fun (st1 : env * sig) (v : val) =>
                 snd st1 = Normal /\ lookup "function" (e_fns (fst st1)) = Some (CUser 0 f) /\
                 lookup "value" (e_vars (fst st1)) = Some (Some v)).
  assert (Hend : forall (a1 : env * sig) (a2 : val) w',
            snd a1 = Normal /\ lookup "value" (e_vars (fst a1)) = Some (Some a2) ->
            orel eq ((r <- match snd a1 with
                           | Normal => v <- (o <- need (lookup "value" (e_vars (fst a1)));; need o);; ret (fst a1, Ret v)
                           | _ => ret a1
                           end;; match snd r with Ret v => ret v | Exc e => raise e | _ => ret VNone end) w') (ret a2 w')).
  { intros [en sg] v w' [HS HR]. cbn [fst snd] in HS, HR |- *. subst sg. norm. rewrite HR. norm.
    apply orel_ret. reflexivity. }
  (* the loop, entered with "value" bound to the model's loop state *)
  assert (Hbody : forall (st1 : env * sig) (t x : val) w2, inv st1 t ->
            orel (step_rel inv (fun _ _ => False))
              ((r <- exec (SAssign "value" (EAwaitCall2 "function" (EVar "value") (EVar "head")))
                       (set_var (fst st1) "head" x) (fun _ => raise XRuntimeError);;
                match snd r with Normal => ret (r, true) | _ => ret (r, false) end) w2)
              ((v <- call 0 f [t; x];; ret (v, true)) w2)).
  { intros st1 t x w2 (HS & HF' & HR). norm. rewrite HF', HR. norm.
    apply bind_same. intros r w3. norm.
    apply orel_ret, step_rel_cont. repeat split. exact HF'. }
  assert (Hexit : forall (a1 : env * sig * bool) (a2 : val * bool) w',
            exit_rel inv (fun _ _ => False) a1 a2 ->
            orel (fun (r1 : env * sig) (v : val) =>
                    snd r1 = Normal /\ lookup "value" (e_vars (fst r1)) = Some (Some v))
              (match snd (fst a1) with Normal | Brk => ret (fst (fst a1), Normal) | _ => ret (fst a1) end w')
              (ret (fst a2) w')).
  { intros [[en' sg] c1] [t c2] w2 [Hc HR]. cbn [fst snd] in Hc, HR |- *. subst c2.
    destruct c1; [contradiction|]. destruct HR as (HS & HF' & HR). cbn [fst snd] in HS, HF', HR. subst sg. norm.
    apply orel_ret. split; [reflexivity|exact HR]. }
  destruct initial as [v0|]; norm.
  - apply bind_rel_l with (2 := Hend).
    apply scoped_rel. norm. apply bind_rel with (2 := Hexit).
    apply loop_src_rel; [exact Hbody|repeat split].
  - apply bind_rel_l with (2 := Hend).
    apply scoped_rel. norm. apply bind_same. intros [first|] w1; norm; [|apply orel_raise].
    apply bind_rel with (2 := Hexit).
    apply loop_src_rel; [exact Hbody|repeat split].
Qed.

Theorem src_min_max_ok : forall invert key default w,
  run_corofn src_min_max [AIter 0; AFn (fn_arg key); AVal (VBool invert); AOpt default] w = a_min_max invert key default w.
Proof.
  intros invert key default w. unfold run_corofn, src_min_max, a_min_max. apply orel_eq.
  pose (R := fun (r1 : env * sig) (v : val) =>
               match snd r1 with
               | Ret v' => v' = v
               | Normal => lookup "best" (e_vars (fst r1)) = Some (Some v)
               | Brk | Exc _ => False
               end).
  assert (Hend : forall (a1 : env * sig) (a2 : val) w', R a1 a2 ->
            orel eq ((r <- match snd a1 with
                           | Normal => v <- (o <- need (lookup "best" (e_vars (fst a1)));; need o);; ret (fst a1, Ret v)
                           | _ => ret a1
                           end;; match snd r with Ret v => ret v | Exc e => raise e | _ => ret VNone end) w') (ret a2 w')).
  { intros [en sg] v w' HR. unfold R in HR. cbn [fst snd] in HR |- *. destruct sg; [|contradiction| |contradiction]; norm.
    - rewrite HR. norm. apply orel_ret. reflexivity.
    - apply orel_ret. exact HR. }
  pose (inv1 := fun (st1 : env * sig) (best : val) =>
                  snd st1 = Normal /\
                  lookup "invert" (e_vars (fst st1)) = Some (Some (VBool invert)) /\
                  lookup "best" (e_vars (fst st1)) = Some (Some best)).
  assert (Hbody1 : forall (st1 : env * sig) (best x : val) w2, inv1 st1 best ->
            orel (step_rel inv1 (fun _ _ => False))
              ((r <- exec (SIf (EIfExp (EVar "invert") (ELt (EVar "best") (EVar "item")) (ELt (EVar "item") (EVar "best")))
                               (SAssign "best" (EVar "item")) SSkip)
                       (set_var (fst st1) "item" x) (fun _ => raise XRuntimeError);;
                match snd r with Normal => ret (r, true) | _ => ret (r, false) end) w2)
              ((c <- lift_lt (minmax_replace invert best x);; ret (if c then x else best, true)) w2)).
  { intros st1 best x w2 (HS & HI & HB). unfold minmax_replace. norm. rewrite HI. norm.
    destruct invert; norm; rewrite HB; norm.
    - destruct (py_lt best x) as [[|]|]; norm; try apply orel_raise;
        apply orel_ret, step_rel_cont; repeat split; assumption.
    - destruct (py_lt x best) as [[|]|]; norm; try apply orel_raise;
        apply orel_ret, step_rel_cont; repeat split; assumption. }
  assert (Hexit1 : forall (a1 : env * sig * bool) (a2 : val * bool) w',
            exit_rel inv1 (fun _ _ => False) a1 a2 ->
            orel R (match snd (fst a1) with Normal | Brk => ret (fst (fst a1), Normal) | _ => ret (fst a1) end w')
                   (ret (fst a2) w')).
  { intros [[en' sg] c1] [t c2] w2 [Hc HR]. cbn [fst snd] in Hc, HR |- *. subst c2.
    destruct c1; [contradiction|]. destruct HR as (HS & HI & HB). cbn [fst snd] in HS, HI, HB. subst sg. norm.
    apply orel_ret. exact HB. }
  pose (inv2 := fun (k : list val -> val) (st1 : env * sig) (st : val * val) =>
                  snd st1 = Normal /\
                  lookup "key" (e_fns (fst st1)) = Some (CUser 0 k) /\
                  lookup "invert" (e_vars (fst st1)) = Some (Some (VBool invert)) /\
                  lookup "best" (e_vars (fst st1)) = Some (Some (fst st)) /\
                  lookup "best_key" (e_vars (fst st1)) = Some (Some (snd st))).
  assert (Hbody2 : forall k (st1 : env * sig) (st : val * val) (x : val) w2, inv2 k st1 st ->
            orel (step_rel (inv2 k) (fun _ _ => False))
              ((r <- exec (SSeq (SAssign "item_key" (EAwaitCall1 "key" (EVar "item")))
                                (SIf (EIfExp (EVar "invert") (ELt (EVar "best_key") (EVar "item_key"))
                                                             (ELt (EVar "item_key") (EVar "best_key")))
                                     (SSeq (SAssign "best" (EVar "item")) (SAssign "best_key" (EVar "item_key"))) SSkip))
                       (set_var (fst st1) "item" x) (fun _ => raise XRuntimeError);;
                match snd r with Normal => ret (r, true) | _ => ret (r, false) end) w2)
              ((ik <- call 0 k [x];; c <- lift_lt (minmax_replace invert (snd st) ik);;
                ret (if c then (x, ik) else st, true)) w2)).
  { intros k st1 [best bk] x w2 (HS & HK & HI & HB & HBK). cbn [fst snd] in HB, HBK |- *.
    unfold minmax_replace. norm. rewrite HK. norm.
    apply bind_same. intros ik w3. norm. rewrite HI. norm.
    destruct invert; norm; rewrite HBK; norm.
    - destruct (py_lt bk ik) as [[|]|]; norm; try apply orel_raise;
        apply orel_ret, step_rel_cont; repeat split; assumption.
    - destruct (py_lt ik bk) as [[|]|]; norm; try apply orel_raise;
        apply orel_ret, step_rel_cont; repeat split; assumption. }
  assert (Hexit2 : forall k (a1 : env * sig * bool) (a2 : val * val * bool) w',
            exit_rel (inv2 k) (fun _ _ => False) a1 a2 ->
            orel R (match snd (fst a1) with Normal | Brk => ret (fst (fst a1), Normal) | _ => ret (fst a1) end w')
                   (ret (fst (fst a2)) w')).
  { intros k [[en' sg] c1] [[t tk] c2] w2 [Hc HR]. cbn [fst snd] in Hc, HR |- *. subst c2.
    destruct c1; [contradiction|]. destruct HR as (HS & HK & HI & HB & HBK). cbn [fst snd] in HS, HB. subst sg. norm.
    apply orel_ret. exact HB. }
  destruct default as [d|], key as [k|]; norm; (apply bind_rel_l with (2 := Hend)); apply scoped_rel; norm;
    (apply bind_same; intros [first|] w1; norm; try (apply orel_ret; reflexivity); try apply orel_raise).
  - apply bind_same. intros k0 w2. norm. apply bind_rel with (2 := Hexit2 k).
    apply loop_src_rel; [exact (Hbody2 k)|repeat split].
  - apply bind_rel with (2 := Hexit1).
    apply loop_src_rel; [exact Hbody1|repeat split].
  - apply bind_same. intros k0 w2. norm. apply bind_rel with (2 := Hexit2 k).
    apply loop_src_rel; [exact (Hbody2 k)|repeat split].
  - apply bind_rel with (2 := Hexit1).
    apply loop_src_rel; [exact Hbody1|repeat split].
Qed.

Theorem min_max_wrappers_ok : min_max_wrappers = [("max"%string, Some true); ("min"%string, Some false)].
Proof. reflexivity. Qed.

Theorem agg_sources_supported : forallb (fun f => supported (f_body f)) agg_sources = true.
Proof. vm_compute. reflexivity. Qed.

Print Assumptions src_all_ok.
Print Assumptions src_any_ok.
Print Assumptions src_list_ok.
Print Assumptions src_tuple_ok.
Print Assumptions src_set_ok.
Print Assumptions src_sum_ok.
Print Assumptions src_min_max_ok.
Print Assumptions min_max_wrappers_ok.
Print Assumptions src_reduce_ok.
Print Assumptions agg_sources_supported.
